"""Shared plumbing for the property modules: context (facts, call graph, inventory, roles) and the
conversion of panic-inventory sites into obligations through discharge rows."""
import hashlib
import re

import facts as factsmod
from dispatch import Roles
from mirlib import CallGraph
from panics import Inventory


class Ctx:
    _cache = {}

    def __init__(self, rep, cfg="std"):
        self.rep = rep
        self.cfg = cfg
        if cfg not in Ctx._cache:
            F = factsmod.load(cfg)
            cg = CallGraph(F)
            Ctx._cache[cfg] = (F, cg)
        self.F, self.cg = Ctx._cache[cfg]
        self.roles = Roles(self.F, rep)
        if cfg not in rep.configs:
            rep.configs.append(cfg)

    def inventory(self):
        return Inventory(self.F, self.cg)

    def opcode_where(self, fn_path, min_arms=60):
        """{opcode value: 'file:line (function)'} of the arms of the opcode match in fn_path, for reports"""
        from dispatch import opcode_matches
        out = {}
        fn = self.F.fns.get(fn_path) if fn_path else None
        if not fn:
            return out
        try:
            ms = opcode_matches(fn, min_arms)
        except Exception:
            return out
        for m in ms[:1]:
            for a in m.arms:
                if isinstance(a["consts"], set):
                    for v in a["consts"]:
                        out.setdefault(v, "%s (%s)" % (a["line"], fn_path))
        return out


class Row:
    """A discharge row for panic sites the analysis cannot prove by itself.
    kind: 'D3' (guaranteed by the verifier / another checked rule), 'D4' (outside the property's
    stated precondition), 'A' (recorded assumption about the environment)."""

    def __init__(self, rid, fn_re, desc_re, kind, reason, cites=(), pred=None):
        self.rid, self.fn_re, self.desc_re = rid, re.compile(fn_re), re.compile(desc_re, re.S)
        self.kind, self.reason, self.cites = kind, reason, cites
        self.pred = pred        # optional further condition on the site (e.g. "not reachable from inside the loop")
        self.hits = 0

    def matches(self, site):
        return bool(self.fn_re.search(site.fn) and self.desc_re.search(site.desc or "") and (self.pred is None or self.pred(site)))


def loop_reach(F, loop_node):
    """functions (and closures) that can run inside the given loop: those referenced in its THIR and what they reach"""
    from dispatch import thir_reach, thir_local_callees
    return thir_reach(F, sorted(thir_local_callees(F, {"thir": {"body": loop_node}})))


def site_key(site):
    d = site.desc or site.detail
    h = hashlib.sha256(d.encode()).hexdigest()[:8]
    short = re.sub(r"[^A-Za-z0-9_:<>().,\[\]-]", "", d)[:70]
    return "%s/%s~%s" % (site.fn, short, h)


def sites_to_obligations(rep, rule, sites, rows, ubcheck_rows=True):
    """Every site is one obligation.  proven / lifted sites are discharged by the analysis; open
    sites need a row; identical (fn, descriptor) sites are grouped into one obligation."""
    groups = {}
    stats = {"proven": 0, "lifted": 0, "row": 0, "open": 0}
    for s in sites:
        if s.status in ("proven", "lifted"):
            stats[s.status] += 1
            continue
        groups.setdefault((s.fn, s.desc), []).append(s)
    auto = stats["proven"] + stats["lifted"]
    if auto:
        rep.bulk(rule, auto,
                 "%d panic sites proved unable to fire by the interval/linear/congruence analysis (%d of them "
                 "under a precondition that is re-checked at every call site)" % (auto, stats["lifted"]))
    for (fn, desc), ss in sorted(groups.items(), key=lambda kv: (kv[0][0], kv[0][1] or "")):
        s = ss[0]
        row = next((r for r in rows if r.matches(s)), None)
        where = ", ".join(sorted({x.line for x in ss}))[:160]
        if rule not in rep.rules:
            rep.rule(rule, rule)
        rep.rules[rule]["count"] += len(ss) - 1
        if row is not None:
            row.hits += len(ss)
            stats["row"] += len(ss)
            rep.ob(rule, site_key(s), True,
                   "%d site(s) `%s` in %s discharged by %s [%s]: %s%s"
                   % (len(ss), (desc or "")[:120], fn, row.rid, row.kind, row.reason,
                      (" (cites %s)" % ",".join(row.cites)) if row.cites else ""),
                   where=where, sample=(row.hits == len(ss)))
        else:
            stats["open"] += len(ss)
            rep.ob(rule, site_key(s), False,
                   "undischarged panic site in %s: %s" % (fn, desc), where=where,
                   expected="unreachable, or guarded, or covered by an assume-guarantee row",
                   found="%d site(s) that can fire" % len(ss))
    return stats


def is_inner_vm(recv):
    """is the receiver of a delegated call the VM this VM wraps: a field of `self` (whatever it is called) whose type
    is one of the crate's VM kinds"""
    t = recv
    if isinstance(t, tuple) and t and t[0] == "ref":
        t = t[1]
    if not (isinstance(t, tuple) and len(t) == 4 and t[0] == "pf" and bool(re.match(r"^EbpfVm\w+(<.*>)?$", str(t[3])))):
        return False
    # ... possibly the VM wrapped by the VM it wraps (`self.parent.parent`)
    b = t[1]
    while isinstance(b, tuple) and len(b) == 4 and b[0] == "pf" and re.match(r"^EbpfVm\w+(<.*>)?$", str(b[3])):
        b = b[1]
    return isinstance(b, tuple) and b[:1] == ("pv",) and isinstance(b[1], tuple) and b[1][:1] == ("self",)

