"""E5 term language: width-indexed bit-vector terms with a normalising constructor set.

All integer values are bit-vectors; signedness lives in the operators (slt/ult, ashr/lshr, sext/
zext, sdiv/udiv).  Terms are nested tuples so that equality of normal forms is `==`.

  ('k', w, v)                constant (v reduced mod 2^w)
  ('v', name, w)             free symbol
  ('zext'|'sext'|'trunc', w, x)
  ('op', name, w, a, b)      add sub mul udiv sdiv urem srem and or xor
  ('sh', name, w, x, amt)    shl lshr ashr with the amount normalised to ('amt', w, n) = n mod w
  ('neg', w, x) ('bnot', w, x) ('bswap', w, x)
  ('cmp', op, w, a, b)       eq ne ult ule slt sle      (1-bit result)
  ('not', c) ('land', a, b) ('lor', a, b)               (1-bit)
  ('ite', c, a, b)
  ('load', w, addr)          little-endian memory read of w bits
  ('sel', arr, idx, w)       array element read (register file)
  ('call', name, args, w)    uninterpreted function
  ('opaque', what, w)        outside the theory (unrecognised construct)
"""

INT_TYPES = {
    "u8": (8, False), "u16": (16, False), "u32": (32, False), "u64": (64, False), "u128": (128, False),
    "usize": (64, False), "i8": (8, True), "i16": (16, True), "i32": (32, True), "i64": (64, True),
    "i128": (128, True), "isize": (64, True), "bool": (1, False), "char": (32, False),
}


def ty_info(ty):
    """(width, signed) of an integer-like type; raw pointers are 64-bit unsigned"""
    if ty in INT_TYPES:
        return INT_TYPES[ty]
    if ty.startswith("*const ") or ty.startswith("*mut "):
        return (64, False)
    return None


def K(w, v):
    return ("k", w, v & ((1 << w) - 1))


def V(name, w):
    return ("v", name, w)


def is_k(t):
    return t[0] == "k"


def width(t):
    h = t[0]
    if h in ("k", "zext", "sext", "trunc", "neg", "bnot", "bswap", "load"):
        return t[1]
    if h == "v":
        return t[2]
    if h in ("op", "sh"):
        return t[2]
    if h in ("cmp", "not", "land", "lor", "exists", "inbounds"):
        return 1
    if h == "ite":
        return width(t[2])
    if h in ("sel", "call", "opaque"):
        return t[3] if h != "opaque" else t[2]
    if h == "amt":
        return t[1]
    raise ValueError("width of %r" % (t,))


def sval(t):
    """signed value of a constant"""
    w, v = t[1], t[2]
    return v - (1 << w) if v >> (w - 1) else v


# ------------------------------------------------------------------ extensions
def trunc(w, x):
    wx = width(x)
    if w == wx:
        return x
    if w > wx:
        raise ValueError("trunc widens")
    if is_k(x):
        return K(w, x[2])
    if x[0] in ("zext", "sext"):
        inner = x[2]
        wi = width(inner)
        if w == wi:
            return inner
        if w < wi:
            return trunc(w, inner)
        return (x[0], w, inner) if x[0] == "sext" else zext(w, inner)
    if x[0] == "trunc":
        return trunc(w, x[2])
    if x[0] == "neg":
        return neg(w, trunc(w, x[2]))
    if x[0] == "ite":
        return ite(x[1], trunc(w, x[2]), trunc(w, x[3]))
    return ("trunc", w, x)


def zext(w, x):
    wx = width(x)
    if w == wx:
        return x
    if w < wx:
        raise ValueError("zext narrows")
    if is_k(x):
        return K(w, x[2])
    if x[0] == "zext":
        return ("zext", w, x[2])
    if x[0] == "ite":
        return ite(x[1], zext(w, x[2]), zext(w, x[3]))
    return ("zext", w, x)


def sext(w, x):
    wx = width(x)
    if w == wx:
        return x
    if w < wx:
        raise ValueError("sext narrows")
    if is_k(x):
        return K(w, sval(x))
    if x[0] == "sext":
        return ("sext", w, x[2])
    if x[0] == "zext":
        return ("zext", w, x[2])  # the sign bit of a zero-extended value is 0
    if x[0] == "ite":
        return ite(x[1], sext(w, x[2]), sext(w, x[3]))
    # sext(trunc_n(t)) == t when t already is the sign-extension of its low n bits: an arithmetic shift right
    # by at least width - n
    if x[0] == "trunc" and width(x[2]) == w:
        t = x[2]
        if isinstance(t, tuple) and t[0] == "sh" and t[1] == "ashr" and is_k(t[4][2]) and t[4][2][2] >= w - wx:
            return t
    return ("sext", w, x)


def cast(x, from_ty, to_ty):
    fi, ti = ty_info(from_ty), ty_info(to_ty)
    if fi is None or ti is None:
        return ("opaque", "cast %s->%s" % (from_ty, to_ty), ti[0] if ti else 64)
    (fw, fs), (tw, _) = fi, ti
    if width(x) != fw:
        x = trunc(fw, x) if width(x) > fw else zext(fw, x)
    if to_ty == "bool":
        return x
    if tw == fw:
        return x
    if tw < fw:
        return trunc(tw, x)
    return sext(tw, x) if fs else zext(tw, x)


# ------------------------------------------------------------------ arithmetic
COMM = {"add", "mul", "and", "or", "xor"}


def op(name, w, a, b):
    if width(a) != w or width(b) != w:
        raise ValueError("op %s width mismatch %d %d %d" % (name, w, width(a), width(b)))
    if is_k(a) and is_k(b):
        x, y = a[2], b[2]
        if name == "add":
            return K(w, x + y)
        if name == "sub":
            return K(w, x - y)
        if name == "mul":
            return K(w, x * y)
        if name == "and":
            return K(w, x & y)
        if name == "or":
            return K(w, x | y)
        if name == "xor":
            return K(w, x ^ y)
        if name == "udiv" and y:
            return K(w, x // y)
        if name == "urem" and y:
            return K(w, x % y)
    if name == "and":
        for p, q in ((a, b), (b, a)):
            if is_k(q):
                m = q[2]
                if m == (1 << w) - 1:
                    return p
                if m == 0:
                    return K(w, 0)
                if m & (m + 1) == 0:           # low-bit mask 2^k - 1
                    k = m.bit_length()
                    return zext(w, trunc(k, p))
        if a == b:
            return a
    if name in ("or", "xor", "add", "sub"):
        if is_k(b) and b[2] == 0:
            return a
        if is_k(a) and a[2] == 0 and name != "sub":
            return b
    if name == "or" and a == b:
        return a
    if name == "xor" and a == b:
        return K(w, 0)
    if name == "mul":
        for p, q in ((a, b), (b, a)):
            if is_k(q) and q[2] == 1:
                return p
            if is_k(q) and q[2] == 0:
                return K(w, 0)
    if name == "add":
        # lane-disjoint sum is an `or`: zext(lo) + (x << k) with lo narrower than k
        for p, q in ((a, b), (b, a)):
            if q[0] == "sh" and q[1] == "shl" and q[4][0] == "amt" and is_k(q[4][2]):
                k = q[4][2][2]
                if p[0] == "zext" and width(p[2]) <= k:
                    return op("or", w, a, b)
    if name == "sub" and is_k(b):
        return op("add", w, a, K(w, -b[2]))
    if name in ("add", "or", "and", "xor"):
        # flatten nested chains, fold constants, sort: canonical left-nested form
        items, const = [], None
        stack = [a, b]
        while stack:
            x = stack.pop()
            if x[0] == "op" and x[1] == name and x[2] == w:
                stack.append(x[3])
                stack.append(x[4])
            elif is_k(x):
                if const is None:
                    const = x[2]
                else:
                    const = {"add": const + x[2], "or": const | x[2], "and": const & x[2], "xor": const ^ x[2]}[name]
            else:
                items.append(x)
        items.sort(key=repr)
        if name in ("or", "and"):
            ded = []
            for x in items:
                if not ded or ded[-1] != x:
                    ded.append(x)
            items = ded
        ident = {"add": 0, "or": 0, "xor": 0, "and": (1 << w) - 1}[name]
        if const is not None:
            const &= (1 << w) - 1
            if const != ident:
                if name == "and" and const == 0:
                    return K(w, 0)
                if name == "or" and const == (1 << w) - 1:
                    return K(w, const)
                items = [K(w, const)] + items
        if not items:
            return K(w, ident if const is None else const)
        acc = items[0]
        for x in items[1:]:
            acc = ("op", name, w, acc, x)
        return acc
    if name in COMM and repr(b) < repr(a):
        a, b = b, a
    return ("op", name, w, a, b)


def amount(w, n):
    """shift amount modulo the operand width w (a power of two): only the low log2(w) bits of n
    matter, so extensions / truncations down to >= log2(w) bits and masks that keep those bits are
    dropped."""
    bits = w.bit_length() - 1
    while True:
        if is_k(n):
            return ("amt", w, K(8, n[2] % w))
        if n[0] in ("zext", "sext") and width(n[2]) >= bits:
            n = n[2]
            continue
        if n[0] == "trunc" and n[1] >= bits:
            n = n[2]
            continue
        if n[0] == "op" and n[1] == "and":
            for p, q in ((n[3], n[4]), (n[4], n[3])):
                if is_k(q) and (q[2] & (w - 1)) == (w - 1):
                    n = p
                    break
            else:
                break
            continue
        break
    return ("amt", w, n)


def shift(name, w, x, n):
    a = amount(w, n)
    if is_k(a[2]):
        c = a[2][2]
        if c == 0:
            return x
        if name == "shl" and x[0] == "sext" and c >= w - width(x[2]):
            x = zext(w, x[2])      # the extension bits are shifted out
        if is_k(x):
            if name == "shl":
                return K(w, x[2] << c)
            if name == "lshr":
                return K(w, x[2] >> c)
            return K(w, sval(x) >> c)
    return ("sh", name, w, x, a)


def bnot(w, x):
    if is_k(x):
        return K(w, ~x[2])
    if isinstance(x, tuple) and x and x[0] == "bnot":
        return x[2]
    return ("bnot", w, x)


def neg(w, x):
    if is_k(x):
        return K(w, -x[2])
    if x[0] == "neg":
        return x[2]
    return ("neg", w, x)


def bswap(w, x):
    if is_k(x):
        v = x[2]
        return K(w, int.from_bytes(v.to_bytes(w // 8, "little"), "big"))
    return ("bswap", w, x)


# ------------------------------------------------------------------ booleans
TRUE, FALSE = K(1, 1), K(1, 0)
FLIP = {"ult": "ule", "ule": "ult", "slt": "sle", "sle": "slt"}


def cmp(opn, w, a, b):
    """opn in eq ne ult ule ugt uge slt sle sgt sge"""
    if opn in ("ugt", "uge", "sgt", "sge"):
        opn = {"ugt": "ult", "uge": "ule", "sgt": "slt", "sge": "sle"}[opn]
        a, b = b, a
    if width(a) != w or width(b) != w:
        raise ValueError("cmp width mismatch")
    if is_k(a) and is_k(b):
        x, y = (sval(a), sval(b)) if opn in ("slt", "sle") else (a[2], b[2])
        r = {"eq": x == y, "ne": x != y, "ult": x < y, "ule": x <= y, "slt": x < y, "sle": x <= y}[opn]
        return TRUE if r else FALSE
    if opn in ("eq", "ne") and repr(b) < repr(a):
        a, b = b, a
    if a == b:
        return TRUE if opn in ("eq", "ule", "sle") else FALSE
    if opn == "ule" and is_k(a) and a[2] == 0:
        return TRUE
    if opn == "ult" and is_k(b) and b[2] == 0:
        return FALSE
    if opn == "ule" and is_k(b) and b[2] == (1 << w) - 1:
        return TRUE
    if opn == "ult" and is_k(b) and b[2] == 1:
        return cmp("eq", w, a, K(w, 0))
    if opn == "ule" and is_k(b) and b[2] == 0:
        return cmp("eq", w, a, K(w, 0))
    # an arithmetic right shift by a constant c has the signed range [-2^(w-1-c), 2^(w-1-c) - 1]
    if opn in ("slt", "sle"):
        for sh_side, k_side, sh_left in ((a, b, True), (b, a, False)):
            if is_k(k_side) and isinstance(sh_side, tuple) and sh_side[0] == "sh" and sh_side[1] == "ashr" and is_k(sh_side[4][2]):
                c = sh_side[4][2][2]
                lo, hi = -(1 << (w - 1 - c)), (1 << (w - 1 - c)) - 1
                kv = sval(k_side)
                if sh_left:      # sh < / <= K
                    if (opn == "slt" and kv > hi) or (opn == "sle" and kv >= hi):
                        return TRUE
                    if (opn == "slt" and kv <= lo) or (opn == "sle" and kv < lo):
                        return FALSE
                else:            # K < / <= sh
                    if (opn == "slt" and kv < lo) or (opn == "sle" and kv <= lo):
                        return TRUE
                    if (opn == "slt" and kv >= hi) or (opn == "sle" and kv > hi):
                        return FALSE
    # equality of an extension with a constant is decided on the narrow value (or is impossible)
    if opn in ("eq", "ne"):
        for k_side, e_side in ((a, b), (b, a)):
            if is_k(k_side) and isinstance(e_side, tuple) and e_side[0] in ("zext", "sext") and len(e_side) == 3:
                inner = e_side[2]
                wn = width(inner)
                kn = K(wn, k_side[2])
                back = sext(w, kn) if e_side[0] == "sext" else zext(w, kn)
                if back == k_side:
                    return cmp(opn, wn, kn, inner)
                return FALSE if opn == "eq" else TRUE
    # comparisons of two zero-extensions of same-width values compare the narrow values
    if a[0] == "zext" and b[0] == "zext" and width(a[2]) == width(b[2]) and opn in ("eq", "ne", "ult", "ule"):
        return cmp(opn, width(a[2]), a[2], b[2])
    return ("cmp", opn, w, a, b)


def lnot(c):
    if is_k(c):
        return FALSE if c[2] else TRUE
    if c[0] == "not":
        return c[1]
    if c[0] == "cmp":
        o, w, a, b = c[1], c[2], c[3], c[4]
        if o == "eq":
            return cmp("ne", w, a, b)
        if o == "ne":
            return cmp("eq", w, a, b)
        return cmp(FLIP[o], w, b, a)      # not(a < b) = b <= a
    if c[0] == "land":
        return lor(lnot(c[1]), lnot(c[2]))
    if c[0] == "lor":
        return land(lnot(c[1]), lnot(c[2]))
    return ("not", c)


def land(a, b):
    if is_k(a):
        return b if a[2] else FALSE
    if is_k(b):
        return a if b[2] else FALSE
    if a == b:
        return a
    if repr(b) < repr(a):
        a, b = b, a
    return ("land", a, b)


def lor(a, b):
    if is_k(a):
        return TRUE if a[2] else b
    if is_k(b):
        return TRUE if b[2] else a
    if a == b:
        return a
    if repr(b) < repr(a):
        a, b = b, a
    return ("lor", a, b)


def nz(x):
    """x != 0 as a condition"""
    return cmp("ne", width(x), x, K(width(x), 0))


def ite(c, a, b):
    if is_k(c):
        return a if c[2] else b
    if a == b:
        return a
    if c[0] == "not":
        return ite(c[1], b, a)
    if c[0] == "cmp" and c[1] == "ne":
        return ite(cmp("eq", c[2], c[3], c[4]), b, a)
    return ("ite", c, a, b)


# ------------------------------------------------------------------ printing
def show(t):
    h = t[0]
    if h == "k":
        return ("%#x" % t[2]) if t[2] > 9 else str(t[2])
    if h == "v":
        if isinstance(t[1], tuple):
            return "insn[%s].%s" % (show(t[1][1]), t[1][2]) if t[1][0] == "insn" else repr(t[1])
        return t[1]
    if h in ("zext", "sext", "trunc"):
        return "%s%d(%s)" % (h, t[1], show(t[2]))
    if h == "op":
        return "%s%d(%s, %s)" % (t[1], t[2], show(t[3]), show(t[4]))
    if h == "sh":
        return "%s%d(%s, %s)" % (t[1], t[2], show(t[3]), show(t[4]))
    if h == "amt":
        return "%s mod %d" % (show(t[2]), t[1])
    if h in ("neg", "bnot", "bswap"):
        return "%s%d(%s)" % (h, t[1], show(t[2]))
    if h == "cmp":
        return "%s%d(%s, %s)" % (t[1], t[2], show(t[3]), show(t[4]))
    if h == "not":
        return "!(%s)" % show(t[1])
    if h in ("land", "lor"):
        return "(%s %s %s)" % (show(t[1]), "&&" if h == "land" else "||", show(t[2]))
    if h == "ite":
        return "ite(%s, %s, %s)" % (show(t[1]), show(t[2]), show(t[3]))
    if h == "load":
        return "load%d[%s]" % (t[1], show(t[2]))
    if h == "sel":
        return "%s[%s]" % (show(t[1]), show(t[2]))
    if h == "call":
        return "%s(%s)" % (t[1], ", ".join(show(a) for a in t[2]))
    if h == "opaque":
        return "?<%s>" % (t[1],)
    if h == "exists":
        return "exists %s: %s" % (t[1], show(t[2]))
    if h == "inbounds":
        return "inbounds(%s, %s)" % (show(t[1]), t[2])
    return repr(t)


# ------------------------------------------------------------------ bit-lane provenance
def lanes(t):
    """bits of a term, least significant first; each bit is 0, 1, (symbol, bit index) or None
    (unknown).  Exact for pure shuffles (masks, constant shifts, extensions, disjoint or/add)."""
    h = t[0]
    w = width(t)
    if h == "k":
        return [(t[2] >> i) & 1 for i in range(w)]
    if h == "v":
        return [(t[1], i) for i in range(w)]
    if h in ("sel", "load", "call"):
        key = ("term", repr(t))
        return [(key, i) for i in range(w)]
    if h == "trunc":
        return lanes(t[2])[:w]
    if h == "zext":
        b = lanes(t[2])
        return b + [0] * (w - len(b))
    if h == "sext":
        b = lanes(t[2])
        return b + [b[-1]] * (w - len(b))
    if h == "op":
        a, b = lanes(t[3]), lanes(t[4])
        n = t[1]
        if n == "and":
            return [_band(x, y) for x, y in zip(a, b)]
        if n == "or":
            return [_bor(x, y) for x, y in zip(a, b)]
        if n == "xor":
            return [_bxor(x, y) for x, y in zip(a, b)]
        if n == "add":
            if all(x == 0 or y == 0 for x, y in zip(a, b)):
                return [_bor(x, y) for x, y in zip(a, b)]
            return [None] * w
        return [None] * w
    if h == "sh":
        x = lanes(t[3])
        amt = t[4][2]
        if not is_k(amt):
            return [None] * w
        c = amt[2]
        if t[1] == "shl":
            return ([0] * c + x)[:w]
        if t[1] == "lshr":
            return x[c:] + [0] * c
        return x[c:] + [x[-1]] * c
    if h == "bswap":
        x = lanes(t[2])
        out = []
        for i in reversed(range(w // 8)):
            out.extend(x[8 * i:8 * i + 8])
        return out
    if h == "ite":
        a, b = lanes(t[2]), lanes(t[3])
        return [x if x == y else None for x, y in zip(a, b)]
    return [None] * w


def _band(x, y):
    if x == 0 or y == 0:
        return 0
    if x == 1:
        return y
    if y == 1:
        return x
    return x if x == y else None


def _bor(x, y):
    if x == 1 or y == 1:
        return 1
    if x == 0:
        return y
    if y == 0:
        return x
    return x if x == y else None


def _bxor(x, y):
    if x == 0:
        return y
    if y == 0:
        return x
    if x == y and x is not None:
        return 0
    return None


def lanes_str(bits):
    """compact rendering: runs of consecutive symbol bits"""
    out, i = [], 0
    while i < len(bits):
        b = bits[i]
        if isinstance(b, tuple):
            j = i
            while j + 1 < len(bits) and isinstance(bits[j + 1], tuple) and bits[j + 1][0] == b[0] and bits[j + 1][1] == bits[j][1] + 1:
                j += 1
            nm = b[0] if isinstance(b[0], str) else "t"
            out.append("%s[%d..%d]" % (nm, b[1], bits[j][1]))
            i = j + 1
        else:
            out.append("?" if b is None else str(b))
            i += 1
    return " ".join(out)


def rebuild(t, f=None):
    """re-normalise a term bottom-up; `f` maps leaves ('v' / 'obj' / 'sel' ...) to replacement terms"""
    if not isinstance(t, tuple) or not t:
        return t
    if f is not None:
        r = f(t)
        if r is not None:
            return r
    h = t[0]
    if h in ("k", "v"):
        return t
    g = lambda x: rebuild(x, f)
    if h == "zext":
        return zext(t[1], g(t[2]))
    if h == "sext":
        return sext(t[1], g(t[2]))
    if h == "trunc":
        return trunc(t[1], g(t[2]))
    if h == "op":
        return op(t[1], t[2], g(t[3]), g(t[4]))
    if h == "sh":
        return shift(t[1], t[2], g(t[3]), g(t[4][2]))
    if h == "neg":
        return neg(t[1], g(t[2]))
    if h == "bswap":
        return bswap(t[1], g(t[2]))
    if h == "cmp":
        return cmp(t[1], t[2], g(t[3]), g(t[4]))
    if h == "not":
        return lnot(g(t[1]))
    if h == "land":
        return land(g(t[1]), g(t[2]))
    if h == "lor":
        return lor(g(t[1]), g(t[2]))
    if h == "ite":
        return ite(g(t[1]), g(t[2]), g(t[3]))
    if h == "load":
        return ("load", t[1], g(t[2]))
    if h == "sel":
        return ("sel", g(t[1]), g(t[2]), t[3])
    return tuple(g(x) if isinstance(x, tuple) else x for x in t)



def ceval(t, env):
    """concrete value of a term under env {variable term: int}; booleans for conditions.  ValueError on anything
    that is not a closed bit-vector expression (calls, memory, opaque objects)."""
    if t == TRUE:
        return True
    if t == FALSE:
        return False
    if not isinstance(t, tuple) or not t:
        raise ValueError("not a term")
    k = t[0]
    if k == "k":
        return t[2] & ((1 << t[1]) - 1)
    if k == "v":
        if t not in env:
            raise ValueError("free variable %r" % (t[1],))
        return env[t] & ((1 << t[2]) - 1)
    if k == "zext":
        return ceval(t[2], env)
    if k == "trunc":
        return ceval(t[2], env) & ((1 << t[1]) - 1)
    if k == "sext":
        w0 = width(t[2])
        x = ceval(t[2], env)
        return (x | (((1 << t[1]) - 1) ^ ((1 << w0) - 1))) if x >> (w0 - 1) else x
    if k == "neg":
        return (-ceval(t[2], env)) & ((1 << t[1]) - 1)
    if k == "bnot":
        return (~ceval(t[2], env)) & ((1 << t[1]) - 1)
    if k == "op":
        _, name, w, a, b = t
        x, y, m = ceval(a, env), ceval(b, env), (1 << w) - 1
        if name in ("udiv", "urem") and y == 0:
            raise ValueError("division by zero")
        return {"add": x + y, "sub": x - y, "mul": x * y, "and": x & y, "or": x | y, "xor": x ^ y,
                "udiv": x // y if y else 0, "urem": x % y if y else 0}[name] & m if name in ("add", "sub", "mul", "and", "or", "xor", "udiv", "urem") else _bad(name)
    if k == "sh":
        _, name, w, x, amt = t
        xv = ceval(x, env)
        n = ceval(amt[2], env) % w
        if name == "shl":
            return (xv << n) & ((1 << w) - 1)
        if name == "lshr":
            return xv >> n
        sx = xv - (1 << w) if xv >> (w - 1) else xv
        return (sx >> n) & ((1 << w) - 1)
    if k == "cmp":
        _, opn, w, a, b = t
        x, y = ceval(a, env), ceval(b, env)
        if opn[0] == "s":
            x = x - (1 << w) if x >> (w - 1) else x
            y = y - (1 << w) if y >> (w - 1) else y
            opn = "u" + opn[1:]
        return {"eq": x == y, "ne": x != y, "ult": x < y, "ule": x <= y}[opn]
    if k == "not":
        return not ceval(t[1], env)
    if k == "land":
        return ceval(t[1], env) and ceval(t[2], env)
    if k == "lor":
        return ceval(t[1], env) or ceval(t[2], env)
    if k == "ite":
        return ceval(t[2], env) if ceval(t[1], env) else ceval(t[3], env)
    raise ValueError("not evaluable: %s" % k)


def _bad(name):
    raise ValueError("operator %s" % name)
