"""Fact loading: runs factgen (through tools/run_factgen.sh) on /repo's current working tree,
caches the JSON by a content hash of the inputs, and offers small helpers over THIR / MIR."""
import hashlib
import json
import os
import re
import subprocess
import sys
import time

VERIF = os.path.dirname(os.path.dirname(os.path.abspath(__file__)))
REPO = os.environ.get("VERIF_REPO", "/repo")
CACHE = os.path.join(VERIF, ".cache")
DRIVER = os.path.join(VERIF, "tools", "factgen", "target", "release", "factgen")


def _tree_hash():
    h = hashlib.sha256()
    paths = []
    for root, _dirs, files in os.walk(os.path.join(REPO, "src")):
        for f in files:
            paths.append(os.path.join(root, f))
    for f in ("Cargo.toml", "Cargo.lock"):
        paths.append(os.path.join(REPO, f))
    paths.append(DRIVER)
    for p in sorted(paths):
        h.update(p.encode())
        try:
            with open(p, "rb") as fh:
                h.update(fh.read())
        except OSError:
            h.update(b"<missing>")
    return h.hexdigest()[:24]


_HASH = None


def tree_hash():
    global _HASH
    if _HASH is None:
        _HASH = _tree_hash()
    return _HASH


def fact_path(cfg):
    return os.path.join(CACHE, tree_hash(), cfg + ".json")


def ensure(cfg):
    """Extract facts for `cfg` from the current working tree unless an identical tree was
    already extracted.  Fails closed (SystemExit 1) when the crate does not build."""
    out = fact_path(cfg)
    if os.path.exists(out) and os.path.getsize(out) > 0:
        try:
            os.utime(os.path.dirname(out), None)
        except OSError:
            pass
        return out
    os.makedirs(os.path.dirname(out), exist_ok=True)
    tmp = out + ".%d.tmp" % os.getpid()
    t0 = time.time()
    r = subprocess.run(
        [os.path.join(VERIF, "tools", "run_factgen.sh"), cfg, tmp, REPO],
        stdout=subprocess.PIPE,
        stderr=subprocess.STDOUT,
        text=True,
    )
    if r.returncode != 0 or not os.path.exists(tmp):
        sys.stdout.write(r.stdout)
        print("FACTGEN-FAILED config=%s (the crate must build with nightly for the analysis to run)" % cfg)
        raise SystemExit(2)
    os.replace(tmp, out)
    sys.stderr.write("[facts] extracted %s in %.1fs\n" % (cfg, time.time() - t0))
    # prune old cache entries (keep the 6 most recent trees)
    try:
        here = os.path.dirname(out)
        os.utime(here, None)
        ents = sorted(
            (os.path.join(CACHE, d) for d in os.listdir(CACHE) if d != "target"),
            key=lambda p: os.path.getmtime(p),
        )
        for p in ents[:-8]:
            if os.path.abspath(p) != os.path.abspath(here):
                subprocess.run(["rm", "-rf", p])
    except OSError:
        pass
    return out


_LT = re.compile(r"::<'[a-z_]+(?:, *'[a-z_]+)*>")


_TF = re.compile(r"(\w)::<(?!impl)")
_STD = re.compile(r"\b(std|alloc)::")


def norm_path(p):
    """`EbpfVmMbuff::<'a>::new` -> `EbpfVmMbuff::new`; `Result::<T, E>::unwrap` -> `Result<T, E>::unwrap`;
    `std::` / `alloc::` re-export prefixes -> `core::` (so that std and no_std facts agree)."""
    p = _LT.sub("", p)
    p = _TF.sub(r"\1<", p)
    return _STD.sub("core::", p)


class Facts:
    def __init__(self, cfg):
        self.cfg = cfg
        try:
            with open(ensure(cfg)) as fh:
                d = json.load(fh)
        except (FileNotFoundError, ValueError):
            # a concurrent run pruned or was still writing the cache entry: extract again
            with open(ensure(cfg)) as fh:
                d = json.load(fh)
        if d.get("crate") != "rbpf":
            print("FACTGEN-FAILED: fact file is not for crate rbpf")
            raise SystemExit(2)
        if not d.get("debug_assertions") or not d.get("overflow_checks"):
            print("FACTGEN-FAILED: overflow checks / debug assertions are off; Assert terminators would be missing")
            raise SystemExit(2)
        self.raw = d
        self.consts = {norm_path(k): v for k, v in d["consts"].items()}
        self.adts = {norm_path(k): v for k, v in d["adts"].items()}
        self.fns = {norm_path(k): v for k, v in d["fns"].items()}
        for k, f in self.fns.items():
            f["path"] = k

    def const(self, path):
        c = self.consts.get(path)
        return None if c is None else c["value"]

    def fn(self, path):
        return self.fns.get(path)

    def closures_of(self, path):
        return [k for k in self.fns if k.startswith(path + "::{closure")]


_FACTS = {}


def load(cfg):
    if cfg not in _FACTS:
        _FACTS[cfg] = Facts(cfg)
    return _FACTS[cfg]


# ---------------------------------------------------------------- THIR helpers


def walk(n):
    """Pre-order walk over every dict node of a THIR tree."""
    stack = [n]
    while stack:
        x = stack.pop()
        if isinstance(x, dict):
            yield x
            for v in reversed(list(x.values())):
                if isinstance(v, (dict, list)):
                    stack.append(v)
        elif isinstance(x, list):
            for v in reversed(x):
                if isinstance(v, (dict, list)):
                    stack.append(v)


def find(n, pred):
    return [x for x in walk(n) if pred(x)]


def callee_path(n):
    """Resolved callee path of a THIR `call` node (impl method when resolvable)."""
    c = n.get("callee")
    if not c:
        return None
    return norm_path(c.get("resolved") or c["path"])


def callee_decl(n):
    c = n.get("callee")
    return None if not c else norm_path(c["path"])


def strip(n):
    """Peel wrappers that do not change the value: `never`, single-tail blocks, borrows of
    derefs (`&*x`)."""
    while isinstance(n, dict):
        k = n.get("k")
        if k == "never":
            n = n["e"]
        elif k == "block" and not n["stmts"] and n.get("tail") is not None:
            n = n["tail"]
        elif k == "ref" and isinstance(n["e"], dict) and n["e"].get("k") == "deref":
            n = n["e"]["e"]
        elif k == "deref" and isinstance(n["e"], dict) and n["e"].get("k") == "ref":
            n = n["e"]["e"]
        else:
            break
    return n


def is_macro(n, name):
    return name in (n.get("mac") or [])


def pat_consts(p):
    """Set of integer constants a pattern matches, or None if it is not a pure constant set.
    Returns ('wild',) for wildcard / plain bindings."""
    k = p["k"]
    if k == "const":
        return {p["v"]}
    if k == "or":
        out = set()
        for q in p["pats"]:
            s = pat_consts(q)
            if s is None or s == ("wild",):
                return s
            out |= s
        return out
    if k == "range":
        lo, hi = p["lo"], p["hi"]
        if isinstance(lo, int) and isinstance(hi, int):
            return set(range(lo, hi + (1 if p["incl"] else 0)))
        return None
    if k == "wild" or (k == "bind" and p.get("sub") is None):
        return ("wild",)
    if k == "bind":
        return pat_consts(p["sub"])
    return None
