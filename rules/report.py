"""Obligation bookkeeping, known-finding matching, VIOLATION lines, replay files, evidence."""
import hashlib
import json
import re
import os
import sys
import time

VERIF = os.path.dirname(os.path.dirname(os.path.abspath(__file__)))


def load_known():
    p = os.path.join(VERIF, "known_findings.json")
    if not os.path.exists(p):
        return []
    with open(p) as fh:
        return json.load(fh)


class Report:
    def __init__(self, prop, tier="quick", level="proof", only_key=None):
        self.prop = prop
        self.tier = tier
        self.level = level
        self.t0 = time.time()
        self.obs = []  # (rule, key, ok, what, detail)
        self.rules = {}  # rule -> dict(desc, floor, count)
        self.extra = {}
        self.trusted = []
        self.assumptions = []
        self.only_key = only_key
        self.samples = []
        self.configs = []
        self.functions = set()
        self.bulk_ok = 0

    # ------------------------------------------------------------ declaration
    def rule(self, rid, desc, floor=1):
        self.rules.setdefault(rid, {"desc": desc, "floor": floor, "count": 0, "failed": 0})
        return rid

    def trust(self, *items):
        for i in items:
            if i not in self.trusted:
                self.trusted.append(i)

    def assume(self, *items):
        for i in items:
            if i not in self.assumptions:
                self.assumptions.append(i)

    def info(self, key, value):
        self.extra[key] = value

    def analysed(self, *fns):
        self.functions.update(fns)

    # ------------------------------------------------------------ obligations
    def ob(self, rid, key, ok, what, where=None, expected=None, found=None, sample=False):
        """Record one obligation.  `key` must not contain line numbers."""
        if rid not in self.rules:
            self.rule(rid, rid)
        full = "%s/%s/%s" % (self.prop, rid, key)
        self.rules[rid]["count"] += 1
        if not ok:
            self.rules[rid]["failed"] += 1
        d = {"rule": rid, "key": full, "ok": bool(ok), "what": what}
        if not where and getattr(self, "where_by_opcode", None):
            m = re.search(r"opc=(0x[0-9a-f]{2})", key)
            if m:
                where = self.where_by_opcode.get(int(m.group(1), 16))
        if where:
            d["where"] = where
        if expected is not None:
            d["expected"] = expected
        if found is not None:
            d["found"] = found
        self.obs.append(d)
        if sample or (ok and len(self.samples) < 6 and self.rules[rid]["count"] <= 1):
            self.samples.append({k: d[k] for k in d if k != "ok"})
        return ok

    def bulk(self, rid, n, what):
        """n obligations of the same kind discharged by the same argument (kept as one record)"""
        if n <= 0:
            return
        if rid not in self.rules:
            self.rule(rid, rid)
        self.rules[rid]["count"] += n
        self.bulk_ok += n
        d = {"rule": rid, "key": "%s/%s/bulk" % (self.prop, rid), "ok": True, "what": what, "count": n}
        self.samples.append({k: d[k] for k in d if k != "ok"})

    def lost_anchor(self, role, candidates):
        self.ob("anchor", "role=%s" % role, False,
                "anchor lost: role %s resolves to %d candidates: %s" % (role, len(candidates), sorted(candidates)[:8]))

    # ------------------------------------------------------------ finish
    def finish(self):
        known = [k for k in load_known() if k.get("property") == self.prop]
        open_keys = {k["key"]: k for k in known if k.get("status") == "open"}
        for k in known:
            if k.get("status") == "fixed":
                # record only; suppresses nothing
                pass
        # floors
        for rid, r in self.rules.items():
            if r["count"] < r["floor"]:
                self.ob(rid, "floor", False,
                        "rule %s matched %d instances, below the floor of %d confirmed by hand (vacuity guard)"
                        % (rid, r["count"], r["floor"]))
        viol = []
        kf = []
        for d in self.obs:
            if d["ok"]:
                continue
            if self.only_key and d["key"] != self.only_key:
                continue
            if d["key"] in open_keys:
                kf.append(d)
            else:
                viol.append(d)
        rdir = os.path.join(VERIF, "replay")
        if os.environ.get("VERIF_REPO", "/repo") != "/repo":
            rdir = os.path.join(os.environ.get("TMPDIR", "/tmp"), "verif-scratch-replay")
        os.makedirs(rdir, exist_ok=True)
        seen = set()
        for d in kf:
            if d["key"] in seen:
                continue
            seen.add(d["key"])
            print("KNOWN-FINDING: property=%s %s %s" % (self.prop, d["key"], open_keys[d["key"]].get("what", d["what"])))
        for d in viol:
            h = hashlib.sha256(d["key"].encode()).hexdigest()[:12]
            path = os.path.join(rdir, "%s-%s.json" % (self.prop, h))
            with open(path, "w") as fh:
                json.dump(dict(d, property=self.prop), fh, indent=1)
            print("  rule=%s key=%s" % (d["rule"], d["key"]))
            print("    %s" % d["what"])
            if "where" in d:
                print("    at %s" % d["where"])
            if "expected" in d:
                print("    expected: %s" % (d["expected"],))
            if "found" in d:
                print("    found:    %s" % (d["found"],))
            print("VIOLATION property=%s replay=%s" % (self.prop, path))
        total = len(self.obs) + self.bulk_ok
        discharged = sum(1 for d in self.obs if d["ok"]) + self.bulk_ok
        wall = time.time() - self.t0
        self._kf_obs = kf
        if self.only_key is None:
            self._write_evidence(total, discharged, len(viol), len(seen), wall)
        print("%s: %d obligations, %d discharged, %d known findings, %d violations (%.1fs, tier=%s)"
              % (self.prop, total, discharged, len(seen), len(viol), wall, self.tier))
        return 1 if viol else 0

    def _write_evidence(self, total, discharged, nviol, nkf, wall):
        per_rule = {
            rid: {"desc": r["desc"], "instances": r["count"], "failed": r["failed"], "floor": r["floor"]}
            for rid, r in self.rules.items()
        }
        samples = self.samples[:8]
        if not samples and self.obs:
            samples = [{k: v for k, v in self.obs[0].items() if k != "ok"}]
        kfo = getattr(self, "_kf_obs", [])
        cov = {
            # obligations that fail under an open known finding are not part of what this run proves: they
            # are listed separately, so `discharged == obligations` exactly when nothing else failed
            "obligations": max(total - len(kfo), 0),
            "discharged": discharged,
            "known_findings_open": nkf,
            "known_finding_obligations": sorted({d["key"] for d in kfo}),
            "known_finding_obligation_count": len(kfo),
            "checker_cmd": "bin/check %s --tier %s" % (self.prop, self.tier),
            "trusted_base": self.trusted,
            "samples": samples,
            "rules": per_rule,
            "configs": self.configs,
            "functions_analysed": sorted(self.functions),
            "exhaustive": True,
            "explanation": "static rules over compiler facts (typed THIR, MIR, evaluated constants) of /repo's working tree; "
                           "no rbpf code is executed",
        }
        if self.level == "translation_validation":
            cov["programs"] = self.extra.get("programs", total)
            cov["disagreements_checked"] = self.extra.get("disagreements_checked", total - discharged)
        cov.update(self.extra)
        ev = {
            "property_id": self.prop,
            "tier": self.tier,
            "seed": int(os.environ.get("VERIF_SEED", "0") or 0),
            "level": self.level,
            "coverage": cov,
            "assumptions": self.assumptions,
            "wall_s": round(wall, 2),
            "violations": nviol,
        }
        evdir = os.path.join(VERIF, "evidence")
        if os.environ.get("VERIF_REPO", "/repo") != "/repo":
            evdir = os.path.join(os.environ.get("TMPDIR", "/tmp"), "verif-scratch-evidence")  # scratch trees never touch evidence/
        os.makedirs(evdir, exist_ok=True)
        with open(os.path.join(evdir, self.prop + ".json"), "w") as fh:
            json.dump(ev, fh, indent=1, sort_keys=True)
