"""Per-opcode evaluation of the instruction-at-a-time loops (interpreter, verifier, disassembler,
JIT, Cranelift translate/CFG): locates the loop body that contains the opcode match, evaluates
the statements before the match symbolically, forces the opcode to a concrete value and evaluates
the rest of the body.  Symbols are renamed to role names (pc, REG, dst, src, off, imm, next.imm)."""
import re

import symex
import terms as T
from dispatch import opcode_matches
from facts import strip, walk


def find_parent_block(root, target):
    """the `block` node one of whose statements (or tail) is `target` (after stripping wrappers)"""
    for n in walk(root):
        if n.get("k") != "block":
            continue
        for i, st in enumerate(n["stmts"]):
            e = st.get("e") if st["k"] == "expr" else st.get("init")
            if e is not None and _reaches(e, target):
                return n, i
        if n.get("tail") is not None and _reaches(n["tail"], target):
            return n, len(n["stmts"])
    return None, None


def _reaches(e, target):
    """is `target` the expression `e` itself modulo value-preserving wrappers?"""
    seen = 0
    while isinstance(e, dict) and seen < 8:
        if e is target:
            return True
        k = e.get("k")
        if k == "never":
            e = e["e"]
        elif k == "block" and not e["stmts"] and e.get("tail") is not None:
            e = e["tail"]
        else:
            return False
        seen += 1
    return False


def rename(t, f):
    if isinstance(t, tuple):
        if len(t) == 3 and t[0] == "v" and isinstance(t[1], str):
            return ("v", f(t[1]), t[2])
        if len(t) == 3 and t[0] == "obj" and isinstance(t[1], str):
            return ("obj", f(t[1]), t[2])
        return tuple(rename(x, f) for x in t)
    return t


class LoopModel:
    def __init__(self, facts, fn_path, min_arms=100, opaque=None, inline=None, models=None, which=0):
        self.F = facts
        self.fn = fn_path
        fn = facts.fns[fn_path]
        ms = opcode_matches(fn, min_arms)
        if not ms:
            raise LookupError("no opcode match in %s" % fn_path)
        self.match = ms[which]
        self.block, self.idx = find_parent_block(fn["thir"]["body"], self.match.node)
        if self.block is None:
            raise LookupError("opcode match of %s is not a statement of a block" % fn_path)
        self.ev = symex.Evaluator(facts, inline=inline, opaque_calls=opaque, models=models)
        self.scrut = strip(self.match.node["scrut"])
        self.names = {}

    def scrut_base(self):
        """(var id, field name) of the opcode scrutinee `<var>.<field>`"""
        s = self.scrut
        if s.get("k") == "field":
            b = strip(s["e"])
            if b.get("k") in ("var", "upvar"):
                return b["id"], b["name"], s["name"]
        if s.get("k") in ("var", "upvar"):
            return s["id"], s["name"], None
        return None, None, None

    def run(self, v, st=None, upto_match_only=False, bind=None, keep=None, fields=None):
        self._fields = fields or {}
        self.ev.insn_override = dict(self._fields)
        """evaluate the loop body with the opcode forced to v -> list of (value, St)"""
        ev = self.ev
        st = st or symex.St()
        fp = self.fn
        owner = ev.owner_of(fp)
        if bind:
            for (name, ident), val in bind.items():
                st = st.set((owner, ident), val)
        stmts = self.block["stmts"]
        acc = [st]
        for i, stmt in enumerate(stmts):
            if i == self.idx:
                acc = [self._force(s, v, owner) for s in acc]
            elif keep is not None and i < self.idx and not keep(stmt):
                continue
            fake = {"k": "block", "stmts": [stmt], "tail": None, "ty": "()"}
            nxt = []
            for s in acc:
                if s.exit is not None:
                    nxt.append(s)
                    continue
                nxt.extend(s2 for _, s2 in ev.ev(fake, s, fp))
            acc = nxt
            if upto_match_only and i == self.idx:
                break
        out = []
        tail = self.block.get("tail")
        for s in acc:
            if s.exit is None and tail is not None and not upto_match_only:
                if self.idx == len(stmts):
                    s = self._force(s, v, owner)
                out.extend(ev.ev(tail, s, fp))
            else:
                out.append((symex.UNIT, s))
        return out

    def _force(self, s, v, owner):
        vid, vname, fld = self.scrut_base()
        if vid is None:
            return s
        key = (owner, vid)
        cur = s.env.get(key)
        if fld is None:
            return s.set(key, T.K(8, v))
        if isinstance(cur, tuple) and cur and cur[0] == "struct":
            extra = getattr(self, "_fields", {})
            nf = tuple((k, (T.K(8, v) if k == fld else extra.get(k, x))) for k, x in cur[3])
            return s.set(key, ("struct", cur[1], cur[2], nf))
        # scrutinee struct not bound yet (e.g. a parameter): bind a symbolic struct
        val = self.ev.sym_for(vname, strip(self.match.node["scrut"]["e"] if "e" in self.match.node["scrut"] else self.scrut).get("ty", "ebpf::Insn"))
        if isinstance(val, tuple) and val and val[0] == "struct":
            nf = tuple((k, (T.K(8, v) if k == fld else x)) for k, x in val[3])
            return s.set(key, ("struct", val[1], val[2], nf))
        return s


# ---------------------------------------------------------------- canonical symbol names
def canon(t, pc_name, extra=None):
    """`insn[pc].imm` -> `imm`, `insn[pc+1].imm` -> `next.imm`, the loop counter -> `pc`, other
    names through `extra`; re-normalises arithmetic after renaming"""
    extra = extra or {}

    def go(t):
        if not isinstance(t, tuple) or not t:
            return t
        h = t[0]
        if h == "v" and len(t) == 3:
            nm = t[1]
            if isinstance(nm, tuple) and nm and nm[0] == "insn":
                idx = go(nm[1])
                if idx == ("v", "pc", 64):
                    return ("v", nm[2], t[2])
                if idx == T.op("add", 64, ("v", "pc", 64), T.K(64, 1)):
                    return ("v", "next." + nm[2], t[2])
                return ("v", ("insn", idx, nm[2]), t[2])
            if nm == pc_name:
                return ("v", "pc", t[2])
            return ("v", extra.get(nm, nm), t[2])
        if h == "obj" and len(t) == 3:
            return ("obj", extra.get(t[1], t[1]), t[2])
        if h == "op" and len(t) == 5:
            return T.op(t[1], t[2], go(t[3]), go(t[4]))
        if h == "cmp" and len(t) == 5:
            return T.cmp(t[1], t[2], go(t[3]), go(t[4]))
        if h == "land":
            return T.land(go(t[1]), go(t[2]))
        if h == "lor":
            return T.lor(go(t[1]), go(t[2]))
        return tuple(go(x) for x in t)

    return go(t)


def loop_counter_name(facts, fn_path):
    """(name, id) of the instruction index of an instruction-at-a-time loop: the variable passed as the
    index to the decode call `get_insn(prog, <v>)` whose result is the scrutinee base of the opcode
    match; failing that, the variable compared in a while-condition `<v> * INSN_SIZE < <len>`"""
    fn = facts.fns[fn_path]
    try:
        ms = opcode_matches(fn, 100)
    except Exception:
        ms = []
    for m in ms:
        sc = strip(m.node["scrut"])
        base = strip(sc["e"]) if sc.get("k") == "field" else sc
        if base.get("k") not in ("var", "upvar"):
            continue
        for n in walk(fn["thir"]["body"]):
            if n.get("k") != "block":
                continue
            for st in n["stmts"]:
                if st["k"] == "let" and st.get("init") and st["pat"].get("k") == "bind" and st["pat"].get("id") == base["id"]:
                    i = strip(st["init"])
                    if i.get("k") == "call" and len(i.get("args", [])) == 2:
                        a = strip(i["args"][1])
                        if a.get("k") in ("var", "upvar"):
                            return a["name"], a["id"]
    for n in walk(fn["thir"]["body"]):
        if n.get("k") == "loop":
            body = strip(n["body"])
            for c in walk(body):
                if c.get("k") == "if":
                    cond = strip(c["c"])
                    if cond.get("k") == "bin" and cond["op"] == "Lt":
                        l = strip(cond["l"])
                        if l.get("k") == "bin" and l["op"] == "Mul":
                            for side in (strip(l["l"]), strip(l["r"])):
                                if side.get("k") in ("var", "upvar"):
                                    return side["name"], side["id"]
                    break
    return None, None
