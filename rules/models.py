"""Per-opcode evaluation of the instruction-at-a-time loops (interpreter, verifier, disassembler,
JIT, Cranelift translate/CFG): locates the loop body that contains the opcode match, evaluates
the statements before the match symbolically, forces the opcode to a concrete value and evaluates
the rest of the body.  Symbols are renamed to role names (pc, REG, dst, src, off, imm, next.imm)."""
import re

import symex
import terms as T
from dispatch import opcode_matches
from facts import strip, walk, callee_path


def find_parent_block(root, target):
    """the `block` node one of whose statements (or tail) is `target` (after stripping wrappers)"""
    for n in walk(root):
        if n.get("k") != "block":
            continue
        for i, st in enumerate(n["stmts"]):
            e = st.get("e") if st["k"] == "expr" else st.get("init")
            if e is not None and _reaches(e, target):
                return n, i
        if n.get("tail") is not None and _reaches(n["tail"], target):
            return n, len(n["stmts"])
    return None, None


def _reaches(e, target):
    """is `target` the expression `e` itself modulo value-preserving wrappers?"""
    seen = 0
    while isinstance(e, dict) and seen < 8:
        if e is target:
            return True
        k = e.get("k")
        if k == "never":
            e = e["e"]
        elif k == "block" and not e["stmts"] and e.get("tail") is not None:
            e = e["tail"]
        else:
            return False
        seen += 1
    return False


def rename(t, f):
    if isinstance(t, tuple):
        if len(t) == 3 and t[0] == "v" and isinstance(t[1], str):
            return ("v", f(t[1]), t[2])
        if len(t) == 3 and t[0] == "obj" and isinstance(t[1], str):
            return ("obj", f(t[1]), t[2])
        return tuple(rename(x, f) for x in t)
    return t


class LoopModel:
    def __init__(self, facts, fn_path, min_arms=60, opaque=None, inline=None, models=None, which=0):
        self.F = facts
        self.fn = fn_path
        fn = facts.fns[fn_path]
        ms = opcode_matches(fn, min_arms)
        if not ms:
            raise LookupError("no opcode match in %s" % fn_path)
        self.match = ms[which]
        self.block, self.idx = find_parent_block(fn["thir"]["body"], self.match.node)
        if self.block is None:
            raise LookupError("opcode match of %s is not a statement of a block" % fn_path)
        self.ev = symex.Evaluator(facts, inline=inline, opaque_calls=opaque, models=models)
        self.scrut = strip(self.match.node["scrut"])
        self.names = {}

    def scrut_base(self):
        """(var id, field name) of the opcode scrutinee `<var>.<field>`"""
        s = self.scrut
        if s.get("k") == "field":
            b = strip(s["e"])
            if b.get("k") in ("var", "upvar"):
                return b["id"], b["name"], s["name"]
        if s.get("k") in ("var", "upvar"):
            return s["id"], s["name"], None
        return None, None, None

    def run(self, v, st=None, upto_match_only=False, bind=None, keep=None, fields=None):
        self._fields = fields or {}
        self.ev.insn_override = dict(self._fields)
        self.ev.insn_override["opc@current"] = T.K(8, v)      # statements before the dispatch see the concrete opcode too
        self.ev._cur_insn_idx = None
        """evaluate the loop body with the opcode forced to v -> list of (value, St)"""
        ev = self.ev
        st = st or symex.St()
        fp = self.fn
        owner = ev.owner_of(fp)
        if bind:
            for (name, ident), val in bind.items():
                st = st.set((owner, ident), val)
        st = self._outer_constants(st, owner)
        stmts = self.block["stmts"]
        acc = [st]
        for i, stmt in enumerate(stmts):
            if i == self.idx:
                acc = [self._force(s, v, owner) for s in acc]
            elif keep is not None and i < self.idx and not keep(stmt):
                continue
            fake = {"k": "block", "stmts": [stmt], "tail": None, "ty": "()"}
            nxt = []
            for s in acc:
                if s.exit is not None:
                    nxt.append(s)
                    continue
                nxt.extend(s2 for _, s2 in ev.ev(fake, s, fp))
            acc = nxt
            if upto_match_only and i == self.idx:
                break
        out = []
        tail = self.block.get("tail")
        for s in acc:
            if s.exit is None and tail is not None and not upto_match_only:
                if self.idx == len(stmts):
                    s = self._force(s, v, owner)
                out.extend(ev.ev(tail, s, fp))
            else:
                out.append((symex.UNIT, s))
        if not getattr(self, "keep_assert_paths", False):
            # a path that ends in a failed `assert!` / `debug_assert!` is the business of the panic inventories (which
            # must prove the assertion or name the assumption it rests on), not of the per-opcode semantic comparisons
            dropped = [s for _val, s in out if _assertion_failure(s)]
            out = [(val, s) for val, s in out if not _assertion_failure(s)]
            # the surviving siblings carry the asserted condition as a path condition; since the assertion cannot fail
            # (inventory), it is not a condition of the path
            asserted = {T.lnot(s.conds[-1]) for s in dropped if s.conds}
            if asserted:
                out = [(val, s.fork(conds=tuple(c for c in s.conds if c not in asserted))) for val, s in out]
        return out

    def _outer_constants(self, st, owner):
        """immutable integer bindings made before the loop (`let n = prog.len() / INSN_SIZE;`) keep their defining
        expression inside the iteration instead of becoming anonymous symbols"""
        if getattr(self, "_outer", None) is None:
            self._outer = []
            fn = self.F.fns[self.fn]
            node = fn["thir"]["body"]
            target = self.match.node
            guard = 0
            while node is not None and guard < 40:
                guard += 1
                b = strip(node)
                if b.get("k") == "loop":
                    break
                nxt = None
                if b.get("k") == "block":
                    for stmt in b["stmts"]:
                        inner = stmt.get("e") or stmt.get("init") or {}
                        if any(x is target for x in walk(inner)):
                            nxt = inner
                            break
                        if stmt["k"] == "let" and stmt.get("init") and stmt["pat"].get("k") == "bind" and "Mut)" not in str(stmt["pat"].get("mode")) \
                                and T.ty_info(stmt["pat"].get("ty") or "") and not any(x.get("k") in ("loop", "closure", "match", "if") for x in walk(stmt["init"])):
                            self._outer.append(stmt)
                    if nxt is None and b.get("tail") is not None and any(x is target for x in walk(b["tail"])):
                        nxt = b["tail"]
                else:
                    for key in ("e", "body", "tail", "t", "then", "scrut"):
                        c = b.get(key)
                        if isinstance(c, dict) and any(x is target for x in walk(c)):
                            nxt = c
                            break
                    if nxt is None:
                        for a in b.get("arms", []) if isinstance(b.get("arms"), list) else []:
                            if any(x is target for x in walk(a.get("body") or {})):
                                nxt = a["body"]
                                break
                node = nxt
        for stmt in self._outer:
            try:
                vals = [(v, s2) for v, s2 in self.ev.ev(stmt["init"], st, self.fn) if s2.feasible and s2.exit is None]
            except Exception:
                continue
            if len(vals) == 1 and symex._w(vals[0][0]) and not vals[0][1].effects[len(st.effects):]:
                st = st.set((owner, stmt["pat"]["id"]), vals[0][0])
        return st

    def _force(self, s, v, owner):
        vid, vname, fld = self.scrut_base()
        if vid is None:
            return s
        key = (owner, vid)
        cur = s.env.get(key)
        if fld is None:
            if T.is_k(cur):
                return s        # a local computed from the (already forced) opcode of the current instruction: keep its value
            return s.set(key, T.K(8, v))
        if isinstance(cur, tuple) and cur and cur[0] == "struct":
            extra = getattr(self, "_fields", {})
            nf = tuple((k, (T.K(8, v) if k == fld else extra.get(k, x))) for k, x in cur[3])
            return s.set(key, ("struct", cur[1], cur[2], nf))
        # scrutinee struct not bound yet (e.g. a parameter): bind a symbolic struct
        val = self.ev.sym_for(vname, strip(self.match.node["scrut"]["e"] if "e" in self.match.node["scrut"] else self.scrut).get("ty", "ebpf::Insn"))
        if isinstance(val, tuple) and val and val[0] == "struct":
            nf = tuple((k, (T.K(8, v) if k == fld else x)) for k, x in val[3])
            return s.set(key, ("struct", val[1], val[2], nf))
        return s


def _assertion_failure(s):
    for e in s.effects:
        if e[0] == "panic_in" and len(e) > 2 and any(m in ("assert", "assert_eq", "assert_ne", "debug_assert", "debug_assert_eq", "debug_assert_ne") for m in e[2]):
            return True
        if e[0] == "call" and isinstance(e[1], str):
            if e[1].endswith("panicking::assert_failed") or e[1].endswith("panicking::assert_failed_inner"):
                return True
            if e[1].endswith("panicking::panic") and e[2] and isinstance(e[2][0], tuple) and e[2][0] and e[2][0][0] == "lit" \
                    and str(e[2][0][1]).startswith("assertion failed"):
                return True
    return False


# ---------------------------------------------------------------- canonical symbol names
def canon(t, pc_name, extra=None):
    """`insn[pc].imm` -> `imm`, `insn[pc+1].imm` -> `next.imm`, the loop counter -> `pc`, other
    names through `extra`; re-normalises arithmetic after renaming"""
    extra = extra or {}

    def go(t):
        if not isinstance(t, tuple) or not t:
            return t
        h = t[0]
        if h == "v" and len(t) == 3:
            nm = t[1]
            if isinstance(nm, tuple) and nm and nm[0] == "insn":
                idx = go(nm[1])
                if idx == ("v", "pc", 64):
                    return ("v", nm[2], t[2])
                if idx == T.op("add", 64, ("v", "pc", 64), T.K(64, 1)):
                    return ("v", "next." + nm[2], t[2])
                return ("v", ("insn", idx, nm[2]), t[2])
            if nm == pc_name:
                return ("v", "pc", t[2])
            return ("v", extra.get(nm, nm), t[2])
        if h == "obj" and len(t) == 3:
            return ("obj", extra.get(t[1], t[1]), t[2])
        if h == "op" and len(t) == 5:
            return T.op(t[1], t[2], go(t[3]), go(t[4]))
        if h == "cmp" and len(t) == 5:
            return T.cmp(t[1], t[2], go(t[3]), go(t[4]))
        if h == "land":
            return T.land(go(t[1]), go(t[2]))
        if h == "lor":
            return T.lor(go(t[1]), go(t[2]))
        return tuple(go(x) for x in t)

    return go(t)


def loop_counter_name(facts, fn_path):
    """(name, id) of the instruction index of an instruction-at-a-time loop: the variable passed as the
    index to the decode call `get_insn(prog, <v>)` whose result is the scrutinee base of the opcode
    match; failing that, the variable compared in a while-condition `<v> * INSN_SIZE < <len>`"""
    fn = facts.fns[fn_path]
    try:
        ms = opcode_matches(fn, 60)
    except Exception:
        ms = []
    for m in ms:
        sc = strip(m.node["scrut"])
        base = strip(sc["e"]) if sc.get("k") == "field" else sc
        if base.get("k") not in ("var", "upvar"):
            continue
        for n in walk(fn["thir"]["body"]):
            if n.get("k") != "block":
                continue
            for st in n["stmts"]:
                if st["k"] == "let" and st.get("init") and st["pat"].get("k") == "bind" and st["pat"].get("id") == base["id"]:
                    i = strip(st["init"])
                    if i.get("k") == "call" and len(i.get("args", [])) == 2:
                        a = strip(i["args"][1])
                        if a.get("k") in ("var", "upvar"):
                            return a["name"], a["id"]
    for n in walk(fn["thir"]["body"]):
        if n.get("k") == "loop":
            body = strip(n["body"])
            for c in walk(body):
                if c.get("k") == "if":
                    cond = strip(c["c"])
                    if cond.get("k") == "bin" and cond["op"] == "Lt":
                        l = strip(cond["l"])
                        if l.get("k") == "bin" and l["op"] == "Mul":
                            for side in (strip(l["l"]), strip(l["r"])):
                                if side.get("k") in ("var", "upvar"):
                                    return side["name"], side["id"]
                    break
    return None, None



def counting_loop(F, ev, path, st0):
    """the single counting loop of function `path`, in either spelling (`for i in a..b { .. }` or
    `let mut i = a; while i < b { ..; i += 1 }`): -> (info, None) or (None, reason).
    info = {start, bound, I (the symbol standing for the counter in one iteration), states (after one iteration from
    st0 with the counter = I), step_ok, pre (state before the loop, lets evaluated)}"""
    import symex
    fn = F.fns.get(path)
    if not fn or not fn.get("thir"):
        return None, "missing"
    body = fn["thir"]["body"]
    loops = [n for n in walk(body) if n.get("k") == "loop"]
    if len(loops) != 1:
        return None, "%d loops" % len(loops)
    loop = loops[0]
    owner = ev.owner_of(path)
    # statements before the loop, in every enclosing block (bindings such as `let mut i = 0;`)
    st = st0

    def pre(block):
        nonlocal st
        b = strip(block)
        if b.get("k") != "block":
            return
        for stmt in b["stmts"]:
            inner = stmt.get("e") or stmt.get("init") or {}
            if any(x is loop for x in walk(inner)):
                pre(inner)
                return
            if stmt["k"] == "let":
                fake = {"k": "block", "stmts": [stmt], "tail": None, "ty": "()"}
                nxt = [s2 for _v, s2 in ev.ev(fake, st, path) if s2.exit is None and s2.feasible]
                if len(nxt) == 1:
                    st = nxt[0]
        if b.get("tail") is not None and any(x is loop for x in walk(b["tail"])):
            pre(b["tail"])
    pre(body)
    I = ("v", "I", 64)
    lb = strip(loop["body"])
    if lb.get("k") == "block" and not lb["stmts"] and lb.get("tail") is not None:
        lb = strip(lb["tail"])
    if lb.get("k") == "if":
        # while-form: the counter is the local that the guard reads and the body increments
        then = lb.get("t") or lb.get("then")
        incs = [strip(x["l"]) for x in walk(then) if x.get("k") == "assignop" and x.get("op") in ("AddAssign", "Add")]
        cids = {x["id"] for x in incs if x.get("k") in ("var", "upvar")}
        gids = {x["id"] for x in walk(lb["c"]) if x.get("k") in ("var", "upvar")}
        cand = sorted(cids & gids)
        if len(cand) != 1:
            return None, "loop counter not identified (%d candidates)" % len(cand)
        key = (owner, cand[0])
        start = st.env.get(key)
        s1 = st.set(key, I)
        gs = ev.ev_cond(lb["c"], s1, path)
        if len(gs) != 1 or not (isinstance(gs[0][0], tuple) and gs[0][0][0] == "cmp" and gs[0][0][1] == "ult" and gs[0][0][3] == I):
            return None, "loop guard is not `counter < bound`"
        bound = gs[0][0][4]
        outs = [(v, s2) for v, s2 in ev.ev(then, s1, path) if s2.feasible]
        step_ok = all(s2.env.get(key) == T.op("add", 64, I, T.K(64, 1)) for _v, s2 in outs if s2.exit is None or s2.exit[0] == "continue")
        return {"start": start, "bound": bound, "I": I, "states": [s2 for _v, s2 in outs], "step_ok": step_ok, "pre": st}, None
    # for-form
    rng = [n for n in walk(body) if n.get("k") == "call" and (callee_path(n) or "").endswith("into_iter") and any(x is loop for x in walk(n)) is False]
    rng = [n for n in rng if any(x is loop for x in walk(_parent_match(body, n) or {}))]
    if len(rng) != 1:
        return None, "loop is neither `while counter < bound` nor a single `for` over a range"
    vals = ev.ev(rng[0]["args"][0], st, path)
    stages = ()
    it0 = vals[0][0] if len(vals) == 1 else None
    if isinstance(it0, tuple) and it0 and it0[0] == "iters":
        stages, it0 = it0[2], it0[1]
    if not (isinstance(it0, tuple) and it0 and it0[0] == "struct" and it0[1].endswith("ops::Range")):
        return None, "the `for` does not iterate over a plain range a..b (possibly through map / filter)"
    start, bound = symex.sfield(it0, "start"), symex.sfield(it0, "end")
    # the `Some(x) => body` arm of the desugared `for`: the match on the iterator's `next()`, not a match in the body
    arms = [a for n in walk(loop["body"]) if n.get("k") == "match" and strip(n["scrut"]).get("k") == "call" and (callee_path(strip(n["scrut"])) or "").endswith("::next")
            for a in n["arms"] if a["pat"].get("k") == "variant" and a["pat"].get("variant") == "Some"]
    if len(arms) != 1:
        return None, "loop arm not found"
    sub = [sp["pat"] for sp in arms[0]["pat"].get("subs", [])]
    if len(sub) != 1:
        return None, "loop pattern not understood"
    # the element of this iteration: the index pushed through the adaptor stages
    elems, skipped = [(I, vals[0][1])], []
    for kind, f in stages:
        nxt = []
        for x, sx in elems:
            r = symex._apply(ev, f, [x], rng[0], sx, None)
            if r is None:
                return None, "an adaptor closure is not evaluable"
            for rv, s2 in r:
                if kind == "map":
                    nxt.append((rv, s2))
                else:
                    c = ev.as_cond(rv) if hasattr(ev, "as_cond") else rv
                    if c != T.FALSE:
                        nxt.append((x, s2.assume(c)))
                    if c != T.TRUE:
                        skipped.append(s2.assume(T.lnot(c)))
        elems = nxt
    outs = []
    for x, sx in elems:
        r = ev.bind_pat(sub[0], x, sx, path)
        if r is None or r[0] != T.TRUE:
            return None, "loop pattern does not bind the element"
        outs.extend(s2 for _v, s2 in ev.ev(arms[0]["body"], r[1], path) if s2.feasible)
    return {"start": start, "bound": bound, "I": I, "states": outs + [s2 for s2 in skipped if s2.feasible], "step_ok": True, "pre": st}, None


def _parent_match(body, call):
    """the `match into_iter(..) { iter => loop {..} }` node of a desugared `for` whose scrutinee is `call`"""
    for n in walk(body):
        if n.get("k") == "match" and any(x is call for x in walk(n.get("scrut") or {})):
            return n
    return None
