"""Independent eBPF ISA reference table (RFC 9669 / kernel instruction-set.rst, with the choices
the property statements make explicit).  Nothing here is derived from rbpf's source.

Each supported opcode byte maps to a descriptor dict:
  cls   : 'ld' 'ldx' 'st' 'stx' 'alu32' 'alu64' 'jmp' 'jmp32'
  kind  : 'ldabs' 'ldind' 'lddw' 'ldx' 'st' 'stx' 'xadd' 'alu' 'neg' 'end' 'ja' 'jcond' 'call'
          'tail_call' 'exit'
  op    : alu / jump operation name
  src   : 'K' (immediate) or 'X' (register)
  size  : access width in bytes (memory instructions)
  width : 32 / 64 operating width
"""
CLS = {0: "ld", 1: "ldx", 2: "st", 3: "stx", 4: "alu32", 5: "jmp", 6: "jmp32", 7: "alu64"}
SIZE = {0x00: 4, 0x08: 2, 0x10: 1, 0x18: 8}
ALU_OPS = {0x00: "add", 0x10: "sub", 0x20: "mul", 0x30: "div", 0x40: "or", 0x50: "and", 0x60: "lsh",
           0x70: "rsh", 0x80: "neg", 0x90: "mod", 0xa0: "xor", 0xb0: "mov", 0xc0: "arsh", 0xd0: "end"}
JMP_OPS = {0x00: "ja", 0x10: "jeq", 0x20: "jgt", 0x30: "jge", 0x40: "jset", 0x50: "jne", 0x60: "jsgt",
           0x70: "jsge", 0x80: "call", 0x90: "exit", 0xa0: "jlt", 0xb0: "jle", 0xc0: "jslt", 0xd0: "jsle"}
# condition -> (signedness, comparison) in canonical form
COND = {"jeq": ("u", "eq"), "jne": ("u", "ne"), "jgt": ("u", "gt"), "jge": ("u", "ge"), "jlt": ("u", "lt"),
        "jle": ("u", "le"), "jsgt": ("s", "gt"), "jsge": ("s", "ge"), "jslt": ("s", "lt"), "jsle": ("s", "le"),
        "jset": ("u", "set")}


def describe(opc):
    """descriptor of a supported opcode byte, or None"""
    cls = CLS[opc & 0x07]
    if cls in ("ld", "ldx", "st", "stx"):
        mode, size = opc & 0xe0, SIZE[opc & 0x18]
        if cls == "ld":
            if mode == 0x20:
                return dict(cls=cls, kind="ldabs", size=size)
            if mode == 0x40:
                return dict(cls=cls, kind="ldind", size=size)
            if mode == 0x00 and size == 8:
                return dict(cls=cls, kind="lddw", size=8)
            return None
        if mode == 0x60:
            return dict(cls=cls, kind={"ldx": "ldx", "st": "st", "stx": "stx"}[cls], size=size)
        if cls == "stx" and mode == 0xc0 and size in (4, 8):
            return dict(cls=cls, kind="xadd", size=size)
        return None
    src = "X" if opc & 0x08 else "K"
    code = opc & 0xf0
    if cls in ("alu32", "alu64"):
        op = ALU_OPS.get(code)
        if op is None:
            return None
        width = 32 if cls == "alu32" else 64
        if op == "neg":
            return dict(cls=cls, kind="neg", op=op, width=width, src="K") if src == "K" else None
        if op == "end":
            if cls != "alu32":
                return None
            return dict(cls=cls, kind="end", op="le" if src == "K" else "be", width=64, src=src)
        return dict(cls=cls, kind="alu", op=op, width=width, src=src)
    op = JMP_OPS.get(code)
    if op is None:
        return None
    width = 64 if cls == "jmp" else 32
    if op == "ja":
        return dict(cls=cls, kind="ja", op=op, width=64, src="K") if (cls == "jmp" and src == "K") else None
    if op == "call":
        if cls != "jmp":
            return None
        return dict(cls=cls, kind="call" if src == "K" else "tail_call", op=op, width=64, src=src)
    if op == "exit":
        return dict(cls=cls, kind="exit", op=op, width=64, src="K") if (cls == "jmp" and src == "K") else None
    return dict(cls=cls, kind="jcond", op=op, width=width, src=src)


TABLE = {v: d for v in range(256) for d in [describe(v)] if d is not None}
SUPPORTED = {v for v, d in TABLE.items() if d["kind"] != "tail_call"}   # what the verifier must accept
TAIL_CALL = 0x8d
assert len(TABLE) == 123 and len(SUPPORTED) == 122


def writes_dst(d):
    """does the instruction write its `dst` register (so r10 must be refused)?"""
    return d["kind"] in ("lddw", "ldx", "alu", "neg", "end")


def is_store(d):
    return d["kind"] in ("st", "stx", "xadd")


def is_branch(d):
    return d["kind"] in ("ja", "jcond")
