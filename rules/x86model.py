"""E6a: x86-64 reference model for the byte templates the JIT emits.

`decode(items)` turns a sequence of emitted items (byte-sized constants, or wider terms such as a
symbolic imm32 / disp32) into instructions using a small decoder written from the Intel SDM for the
opcode subset the JIT may use; `run(insns, state)` interprets them over a symbolic machine state
(16 registers as 64-bit terms, pending flags, stack, memory effects).  Anything outside the subset
raises Unsupported, which the calling rule reports as a violation (fail closed)."""
import terms as T

RAX, RCX, RDX, RBX, RSP, RBP, RSI, RDI, R8, R9, R10, R11, R12, R13, R14, R15 = range(16)
NAMES = ["rax", "rcx", "rdx", "rbx", "rsp", "rbp", "rsi", "rdi", "r8", "r9", "r10", "r11", "r12", "r13", "r14", "r15"]
CALLEE_SAVED = {RBX, RBP, R12, R13, R14, R15}
SYSV_ARGS = [RDI, RSI, RDX, RCX, R8, R9]
JCC = {0x84: "eq", 0x85: "ne", 0x87: "ugt", 0x83: "uge", 0x82: "ult", 0x86: "ule", 0x8f: "sgt", 0x8d: "sge", 0x8c: "slt", 0x8e: "sle"}
ALU_MR = {0x01: "add", 0x09: "or", 0x21: "and", 0x29: "sub", 0x31: "xor"}
ALU_RM = {0x03: "add", 0x0b: "or", 0x23: "and", 0x2b: "sub", 0x33: "xor"}
GRP1 = {0: "add", 1: "or", 4: "and", 5: "sub", 6: "xor", 7: "cmp"}
SHIFT = {0: "rol", 4: "shl", 5: "lshr", 7: "ashr"}


class Unsupported(Exception):
    pass


class Insn:
    def __init__(self, mn, **kw):
        self.mn = mn
        self.__dict__.update(kw)

    def __repr__(self):
        return "%s %s" % (self.mn, {k: v for k, v in self.__dict__.items() if k not in ("mn",)})


class Stream:
    def __init__(self, items):
        self.items = items
        self.i = 0

    def more(self):
        return self.i < len(self.items)

    def byte(self):
        if not self.more():
            raise Unsupported("truncated instruction")
        n, t, tag = self.items[self.i]
        if n != 8 or not T.is_k(t):
            raise Unsupported("expected a constant opcode/modrm byte, got a %d-bit item %s" % (n, T.show(t)))
        self.i += 1
        return t[2]

    def peek(self):
        if not self.more():
            return None
        n, t, tag = self.items[self.i]
        return t[2] if n == 8 and T.is_k(t) else None

    def field(self, bits):
        """an immediate / displacement of `bits` bits emitted as one item (little-endian)"""
        if not self.more():
            raise Unsupported("truncated immediate")
        n, t, tag = self.items[self.i]
        if n != bits:
            # a constant emitted byte by byte is not what the JIT does; fail closed
            raise Unsupported("expected a %d-bit field, got %d bits" % (bits, n))
        self.i += 1
        return t, tag


def decode(items):
    """items: list of (bits, term, tag) ; tag = ('reloc', target) for jump placeholders"""
    s = Stream(items)
    out = []
    while s.more():
        start = s.i
        p66 = lock = False
        rex = 0
        b = s.byte()
        while b in (0x66, 0xf0):
            if b == 0x66:
                p66 = True
            else:
                lock = True
            b = s.byte()
        if 0x40 <= b <= 0x4f:
            rex = b
            b = s.byte()
        W, Rr, X, B = (rex >> 3) & 1, (rex >> 2) & 1, (rex >> 1) & 1, rex & 1
        w = 64 if W else (16 if p66 else 32)
        ins = None

        def modrm():
            m = s.byte()
            mod, reg, rm = m >> 6, ((m >> 3) & 7) | (Rr << 3), (m & 7) | (B << 3)
            if mod == 3:
                return reg, ("reg", rm)
            index, scale = None, 1
            if (m & 7) == 4:
                # SIB byte: scale | index | base; index 100 without REX.X means "no index"
                sib = s.byte()
                scale = 1 << (sib >> 6)
                index = ((sib >> 3) & 7) | (X << 3)
                if index == 4:
                    index = None
                rm = (sib & 7) | (B << 3)
                if (sib & 7) == 5 and mod == 0:
                    raise Unsupported("SIB with no base register (disp32 only)")
            elif X:
                raise Unsupported("REX.X without SIB")
            if mod == 0:
                if (m & 7) == 5:
                    raise Unsupported("mod=00 rm=101 is RIP-relative, not [rbp]/[r13]")
                return reg, ("mem", rm, T.K(64, 0), index, scale)
            if mod == 1:
                d, _ = s.field(8)
                return reg, ("mem", rm, T.sext(64, d), index, scale)
            d, _ = s.field(32)
            return reg, ("mem", rm, T.sext(64, d), index, scale)

        if b in ALU_MR:
            reg, rm = modrm()
            ins = Insn("alu", op=ALU_MR[b], w=w, dst=rm, src=("reg", reg), lock=lock)
        elif b in ALU_RM:
            reg, rm = modrm()
            ins = Insn("alu", op=ALU_RM[b], w=w, dst=("reg", reg), src=rm, lock=lock)
        elif b == 0x39:
            reg, rm = modrm()
            ins = Insn("cmp", w=w, a=rm, b=("reg", reg))
        elif b == 0x3b:
            reg, rm = modrm()
            ins = Insn("cmp", w=w, a=("reg", reg), b=rm)
        elif b == 0x8d:
            reg, rm = modrm()
            if rm[0] != "mem":
                raise Unsupported("lea with a register operand")
            ins = Insn("lea", w=w, dst=("reg", reg), src=rm)
        elif b == 0x63 and W:
            reg, rm = modrm()
            ins = Insn("movsx", w=32, dst=("reg", reg), src=rm, to=64)
        elif b == 0x83:
            ext, rm = modrm()
            imm, _ = s.field(8)
            ext &= 7
            if ext not in GRP1:
                raise Unsupported("83 /%d" % ext)
            val = T.sext(w, imm)
            if GRP1[ext] == "cmp":
                ins = Insn("cmp", w=w, a=rm, b=("imm", val))
            else:
                ins = Insn("alu", op=GRP1[ext], w=w, dst=rm, src=("imm", val), lock=lock)
        elif b == 0x85:
            reg, rm = modrm()
            ins = Insn("test", w=w, a=rm, b=("reg", reg))
        elif b == 0x89:
            reg, rm = modrm()
            ins = Insn("mov", w=w, dst=rm, src=("reg", reg))
        elif b == 0x88:
            reg, rm = modrm()
            ins = Insn("mov", w=8, dst=rm, src=("reg", reg))
        elif b == 0x8b:
            reg, rm = modrm()
            ins = Insn("mov", w=w, dst=("reg", reg), src=rm)
        elif b == 0x0f:
            b2 = s.byte()
            if b2 in (0xb6, 0xb7):
                reg, rm = modrm()
                ins = Insn("movzx", w=8 if b2 == 0xb6 else 16, dst=("reg", reg), src=rm)
            elif b2 in (0xbe, 0xbf):
                reg, rm = modrm()
                ins = Insn("movsx", w=8 if b2 == 0xbe else 16, dst=("reg", reg), src=rm, to=w)
            elif b2 == 0xaf:
                reg, rm = modrm()
                ins = Insn("imul2", w=w, dst=("reg", reg), src=rm)
            elif 0xc8 <= b2 <= 0xcf:
                ins = Insn("bswap", w=64 if W else 32, dst=("reg", (b2 & 7) | (B << 3)))
            elif b2 in JCC:
                rel, tag = s.field(32)
                ins = Insn("jcc", cc=JCC[b2], rel=rel, tag=tag)
            else:
                raise Unsupported("0f %02x" % b2)
        elif b == 0x81:
            ext, rm = modrm()
            imm, _ = s.field(32)
            ext &= 7
            if ext not in GRP1:
                raise Unsupported("81 /%d" % ext)
            val = T.sext(64, imm) if w == 64 else imm
            if GRP1[ext] == "cmp":
                ins = Insn("cmp", w=w, a=rm, b=("imm", val))
            else:
                ins = Insn("alu", op=GRP1[ext], w=w, dst=rm, src=("imm", val), lock=lock)
        elif b == 0xc7:
            ext, rm = modrm()
            if ext & 7:
                raise Unsupported("c7 /%d" % (ext & 7))
            if w == 16:
                imm, _ = s.field(16)
                ins = Insn("mov", w=16, dst=rm, src=("imm", imm))
            else:
                imm, _ = s.field(32)
                ins = Insn("mov", w=w, dst=rm, src=("imm", T.sext(64, imm) if w == 64 else imm))
        elif b == 0xc6:
            ext, rm = modrm()
            if ext & 7:
                raise Unsupported("c6 /%d" % (ext & 7))
            imm, _ = s.field(8)
            ins = Insn("mov", w=8, dst=rm, src=("imm", imm))
        elif b == 0xc1:
            ext, rm = modrm()
            imm, _ = s.field(8)
            if (ext & 7) not in SHIFT:
                raise Unsupported("c1 /%d" % (ext & 7))
            ins = Insn("shift", op=SHIFT[ext & 7], w=w, dst=rm, amt=("imm", imm))
        elif b == 0xd3:
            ext, rm = modrm()
            if (ext & 7) not in SHIFT:
                raise Unsupported("d3 /%d" % (ext & 7))
            ins = Insn("shift", op=SHIFT[ext & 7], w=w, dst=rm, amt=("cl",))
        elif b == 0xf7:
            ext, rm = modrm()
            e = ext & 7
            if e == 0:
                imm, _ = s.field(32)
                ins = Insn("test", w=w, a=rm, b=("imm", T.sext(64, imm) if w == 64 else imm))
            elif e == 2:
                ins = Insn("not", w=w, dst=rm)
            elif e == 3:
                ins = Insn("neg", w=w, dst=rm)
            elif e == 4:
                ins = Insn("mul", w=w, src=rm)
            elif e == 6:
                ins = Insn("div", w=w, src=rm)
            else:
                raise Unsupported("f7 /%d" % e)
        elif b == 0xe9:
            rel, tag = s.field(32)
            ins = Insn("jmp", rel=rel, tag=tag)
        elif b == 0xe8:
            rel, tag = s.field(32)
            ins = Insn("call_rel", rel=rel, tag=tag)
        elif b == 0xff:
            ext, rm = modrm()
            if (ext & 7) != 2:
                raise Unsupported("ff /%d" % (ext & 7))
            ins = Insn("call_ind", tgt=rm)
        elif b == 0xc3:
            ins = Insn("ret")
        elif 0x50 <= b <= 0x57:
            ins = Insn("push", reg=(b & 7) | (B << 3))
        elif 0x58 <= b <= 0x5f:
            ins = Insn("pop", reg=(b & 7) | (B << 3))
        elif 0xb8 <= b <= 0xbf:
            if W:
                imm, _ = s.field(64)
                ins = Insn("mov", w=64, dst=("reg", (b & 7) | (B << 3)), src=("imm", imm))
            else:
                imm, _ = s.field(32)
                ins = Insn("mov", w=32, dst=("reg", (b & 7) | (B << 3)), src=("imm", imm))
        else:
            raise Unsupported("opcode %02x" % b)
        ins.nbytes = sum(n // 8 for n, _, _ in s.items[start:s.i])
        ins.lock = getattr(ins, "lock", lock)
        if lock and not (ins.mn == "alu" and ins.dst[0] == "mem"):
            raise Unsupported("lock prefix on a non-RMW instruction")
        out.append(ins)
    return out


# ====================================================================== machine state
class M:
    def __init__(self, regs):
        self.regs = list(regs)
        self.flags = None          # ('cmp'|'test', w, a, b)
        self.stack = []            # pushed terms (most recent last)
        self.depth = 0             # bytes pushed since the start of the template
        self.stores = []
        self.atomics = []
        self.calls = []            # helper calls: (target, args tuple)
        self.conds = []
        self.exit = None           # ('jump', target) | ('ret',) | ('local_call', target)
        self.events = []

    def copy(self):
        m = M(self.regs)
        m.flags, m.stack, m.depth = self.flags, list(self.stack), self.depth
        m.stores, m.atomics, m.calls = list(self.stores), list(self.atomics), list(self.calls)
        m.conds, m.exit, m.events = list(self.conds), self.exit, list(self.events)
        return m


def _addr(m, ea):
    base, disp = ea[1], ea[2]
    a = T.op("add", 64, m.regs[base], disp)
    if len(ea) > 3 and ea[3] is not None:
        idx = m.regs[ea[3]]
        if ea[4] != 1:
            idx = T.shift("shl", 64, idx, T.K(64, ea[4].bit_length() - 1))
        a = T.op("add", 64, a, idx)
    return a


def _read(m, opnd, w):
    k = opnd[0]
    if k == "reg":
        v = m.regs[opnd[1]]
        return v if w == 64 else T.trunc(w, v)
    if k == "imm":
        v = opnd[1]
        return v if T.width(v) == w else (T.trunc(w, v) if T.width(v) > w else T.sext(w, v))
    if k == "mem":
        return ("load", w, _addr(m, opnd))
    raise Unsupported("operand %r" % (opnd,))


def _write(m, opnd, w, val):
    if opnd[0] == "reg":
        r = opnd[1]
        if w == 64:
            m.regs[r] = val
        elif w == 32:
            m.regs[r] = T.zext(64, val)
        else:
            # 8/16-bit register writes keep the upper bits
            old = m.regs[r]
            keep = T.op("and", 64, old, T.K(64, ((1 << 64) - 1) ^ ((1 << w) - 1)))
            m.regs[r] = T.op("or", 64, keep, T.zext(64, val))
    elif opnd[0] == "mem":
        m.stores.append((w, _addr(m, opnd), val))
    else:
        raise Unsupported("write to %r" % (opnd,))


def _cond(m, cc):
    if m.flags is None:
        raise Unsupported("conditional jump without a preceding compare")
    kind, w, a, b = m.flags
    if kind == "test":
        x = T.op("and", w, a, b)
        if cc == "ne":
            return T.nz(x)
        if cc == "eq":
            return T.cmp("eq", w, x, T.K(w, 0))
        raise Unsupported("condition %s after test" % cc)
    return T.cmp(cc, w, a, b)


def decode_lenient(items):
    """like decode, but an undecodable tail becomes one `undecodable` pseudo-instruction (rules that
    only look at part of a template then report a mismatch instead of failing as a whole)"""
    try:
        return decode(items)
    except Unsupported as e:
        # decode the longest prefix that does decode
        lo, hi = 0, len(items)
        good = []
        for n in range(len(items), -1, -1):
            try:
                good = decode(items[:n])
                break
            except Unsupported:
                continue
        bad = Insn("undecodable", why=str(e))
        bad.nbytes = 0
        bad.lock = False
        return good + [bad]


def run_lenient(insns, m0):
    """run(), but a construct outside the model ends the run in an `undecodable` state instead of raising"""
    try:
        return run(insns, m0)
    except Unsupported as e:
        m = m0.copy()
        m.exit = ("undecodable", str(e))
        m.events.append(("undecodable", str(e)))
        return [m]


def run(insns, m0):
    """-> list of final machine states (forks at conditional jumps with literal offsets)"""
    done = []
    work = [(0, m0)]
    while work:
        i, m = work.pop()
        while i < len(insns) and m.exit is None:
            ins = insns[i]
            i += 1
            mn = ins.mn
            if mn == "undecodable":
                m.exit = ("undecodable", ins.why)
                m.events.append(("undecodable", ins.why))
                continue
            if mn == "alu":
                w = ins.w
                if ins.dst[0] == "mem":
                    if not ins.lock:
                        raise Unsupported("read-modify-write on memory without lock")
                    if ins.op != "add":
                        raise Unsupported("locked %s" % ins.op)
                    m.atomics.append((w, _addr(m, ins.dst), _read(m, ins.src, w)))
                    continue
                a, b = _read(m, ins.dst, w), _read(m, ins.src, w)
                _write(m, ins.dst, w, T.op(ins.op, w, a, b))
                m.flags = None
            elif mn == "cmp":
                m.flags = ("cmp", ins.w, _read(m, ins.a, ins.w), _read(m, ins.b, ins.w))
            elif mn == "test":
                m.flags = ("test", ins.w, _read(m, ins.a, ins.w), _read(m, ins.b, ins.w))
            elif mn == "mov":
                _write(m, ins.dst, ins.w, _read(m, ins.src, ins.w))
            elif mn == "movzx":
                _write(m, ins.dst, 32, T.zext(32, _read(m, ins.src, ins.w)))
            elif mn == "bswap":
                _write(m, ins.dst, ins.w, T.bswap(ins.w, _read(m, ins.dst, ins.w)))
            elif mn == "shift":
                w = ins.w
                a = _read(m, ins.dst, w)
                amt = _read(m, ("reg", RCX), 8) if ins.amt[0] == "cl" else ins.amt[1]
                if ins.op == "rol":
                    if not (w == 16 and T.is_k(amt) and amt[2] == 8):
                        raise Unsupported("rol other than rol16 by 8")
                    val = T.bswap(16, a)
                else:
                    # hardware masks the count to 5 bits (6 with REX.W); 16-bit shifts are not used
                    if w == 16:
                        raise Unsupported("16-bit shift")
                    val = T.shift(ins.op, w, a, amt)
                _write(m, ins.dst, w, val)
                m.flags = None
            elif mn == "neg":
                _write(m, ins.dst, ins.w, T.neg(ins.w, _read(m, ins.dst, ins.w)))
                m.flags = None
            elif mn == "not":
                if ins.dst[0] == "mem":
                    raise Unsupported("read-modify-write on memory")
                _write(m, ins.dst, ins.w, T.op("xor", ins.w, _read(m, ins.dst, ins.w), T.K(ins.w, (1 << ins.w) - 1)))
            elif mn == "lea":
                a = _addr(m, ins.src)
                _write(m, ins.dst, ins.w, a if ins.w == 64 else T.trunc(ins.w, a))
            elif mn == "movsx":
                _write(m, ins.dst, ins.to, T.sext(ins.to, _read(m, ins.src, ins.w)))
            elif mn == "imul2":
                w = ins.w
                _write(m, ins.dst, w, T.op("mul", w, _read(m, ins.dst, w), _read(m, ins.src, w)))
                m.flags = None
            elif mn == "mul":
                w = ins.w
                a, b = _read(m, ("reg", RAX), w), _read(m, ins.src, w)
                _write(m, ("reg", RAX), w, T.op("mul", w, a, b))
                _write(m, ("reg", RDX), w, ("call", "mulhi", (a, b), w))
            elif mn == "div":
                w = ins.w
                hi = _read(m, ("reg", RDX), w)
                if hi != T.K(w, 0):
                    raise Unsupported("div with a non-zero high half")
                a, b = _read(m, ("reg", RAX), w), _read(m, ins.src, w)
                m.events.append(("div", w, b))
                _write(m, ("reg", RAX), w, T.op("udiv", w, a, b))
                _write(m, ("reg", RDX), w, T.op("urem", w, a, b))
            elif mn == "push":
                m.stack.append(m.regs[ins.reg])
                m.depth += 8
                m.regs[RSP] = T.op("add", 64, m.regs[RSP], T.K(64, -8))
            elif mn == "pop":
                if not m.stack:
                    raise Unsupported("pop of a value the template did not push")
                m.regs[ins.reg] = m.stack.pop()
                m.depth -= 8
                m.regs[RSP] = T.op("add", 64, m.regs[RSP], T.K(64, 8))
            elif mn == "ret":
                m.exit = ("ret",)
            elif mn == "jmp":
                if ins.tag and ins.tag[0] == "reloc":
                    m.exit = ("jump", ins.tag[1])
                else:
                    raise Unsupported("jmp with a literal displacement")
            elif mn == "jcc":
                c = _cond(m, ins.cc)
                if ins.tag and ins.tag[0] == "reloc":
                    t = m.copy()
                    t.conds.append(c)
                    t.exit = ("jump", ins.tag[1])
                    done.append(t)
                    m.conds.append(T.lnot(c))
                else:
                    if not T.is_k(ins.rel):
                        raise Unsupported("jcc with a symbolic literal displacement")
                    skip, j = ins.rel[2], i
                    while skip > 0 and j < len(insns):
                        skip -= insns[j].nbytes
                        j += 1
                    if skip != 0:
                        raise Unsupported("literal jcc displacement %d does not land on an instruction boundary" % ins.rel[2])
                    t = m.copy()
                    t.conds.append(c)
                    work.append((j, t))
                    m.conds.append(T.lnot(c))
            elif mn == "call_rel":
                if ins.tag and ins.tag[0] == "reloc":
                    m.events.append(("local_call", ins.tag[1], m.depth, list(m.stack), m.regs[RSP], list(m.regs)))
                    # the callee returns here with callee-visible registers possibly changed: modelled by the caller
                else:
                    # `call +N`: pushes the return address and continues N bytes ahead
                    if not T.is_k(ins.rel):
                        raise Unsupported("call with a symbolic literal displacement")
                    skip, j = ins.rel[2], i
                    while skip > 0 and j < len(insns):
                        skip -= insns[j].nbytes
                        j += 1
                    if skip != 0:
                        raise Unsupported("literal call displacement does not land on an instruction boundary")
                    m.events.append(("call_literal", ins.rel[2], i, j, m.regs[RSP]))
                    m.regs[RSP] = T.op("add", 64, m.regs[RSP], T.K(64, -8))
                    m.stack.append(("retaddr", i))
                    m.depth += 8
                    i = j
            elif mn == "call_ind":
                tgt = _read(m, ins.tgt, 64)
                args = tuple(m.regs[r] for r in SYSV_ARGS[:5])
                m.events.append(("helper_call", tgt, args, m.depth, m.regs[RSP]))
                res = ("call", "helper", (tgt,) + args, 64)
                for r in range(16):
                    if r not in CALLEE_SAVED and r != RSP:
                        m.regs[r] = ("v", "clobbered_%s_%d" % (NAMES[r], len(m.events)), 64)
                m.regs[RAX] = res
                m.calls.append((tgt, args))
            else:
                raise Unsupported(mn)
        done.append(m)
    return done
