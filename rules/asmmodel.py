"""E7: tables of the text tools obtained by constant folding / symbolic evaluation:
the assembler's mnemonic table, the operand-shape -> field placement of `encode`, and the
reference tables (written from the documented syntax, independent of rbpf's source)."""
import isa
import symex
import terms as T

OPERAND = "asm_parser::Operand"
ITYPE = "assembler::InstructionType"


def mnemonic_table(F):
    """{name: (type variant, payload, opcode)} by constant-folding the table builder; None if it
    cannot be folded"""
    cands = [p for p, fn in F.fns.items() if p.startswith("assembler::") and fn.get("ret", "").startswith("hashbrown::HashMap<core::string::String")
             or (p.startswith("assembler::") and "HashMap<std::string::String" in fn.get("ret", ""))]
    if len(cands) != 1:
        return None, "table builder candidates: %s" % cands
    ev = symex.Evaluator(F)
    ev.unroll = True
    outs = ev.run_fn(cands[0], [])
    if not outs or len(outs) != 1 or outs[0][0][0] != "map" or outs[0][1].unrec:
        return None, "cannot fold %s: %s" % (cands[0], outs and outs[0][1].unrec[:3])
    tab = {}
    for k, v in outs[0][0][1]:
        if k[0] != "lit":
            return None, "non-literal mnemonic %r" % (k,)
        ty, opc = symex.sfield(v, "0"), symex.sfield(v, "1")
        if not (isinstance(ty, tuple) and ty[0] == "struct" and T.is_k(opc)):
            return None, "entry %r" % (k,)
        payload = symex.sfield(ty, "0")
        tab[k[1]] = (ty[2], T.sval(payload) if payload is not None and T.is_k(payload) else None, opc[2])
    return tab, cands[0]


def reference_table():
    """mnemonic -> (instruction type, payload, base opcode) from the documented syntax"""
    t = {"exit": ("NoOperand", None, 0x95), "ja": ("JumpUnconditional", None, 0x05), "call": ("Call", None, 0x85),
         "callx": ("Callx", None, 0x85), "lddw": ("LoadImm", None, 0x18),
         "neg": ("AluUnary", None, 0x87), "neg32": ("AluUnary", None, 0x84), "neg64": ("AluUnary", None, 0x87)}
    for code, name in isa.ALU_OPS.items():
        if name in ("neg", "end"):
            continue
        t[name] = ("AluBinary", None, 0x07 | code)
        t[name + "64"] = ("AluBinary", None, 0x07 | code)
        t[name + "32"] = ("AluBinary", None, 0x04 | code)
    for suffix, size in (("w", 0x00), ("h", 0x08), ("b", 0x10), ("dw", 0x18)):
        t["ldabs" + suffix] = ("LoadAbs", None, 0x20 | size)
        t["ldind" + suffix] = ("LoadInd", None, 0x40 | size)
        t["ldx" + suffix] = ("LoadReg", None, 0x61 | size)
        t["st" + suffix] = ("StoreImm", None, 0x62 | size)
        t["stx" + suffix] = ("StoreReg", None, 0x63 | size)
    for code, name in isa.JMP_OPS.items():
        if name in ("ja", "call", "exit"):
            continue
        t[name] = ("JumpConditional", None, 0x05 | code)
        t[name + "32"] = ("JumpConditional", None, 0x06 | code)
    for size in (16, 32, 64):
        t["be%d" % size] = ("Endian", size, 0xdc)
        t["le%d" % size] = ("Endian", size, 0xd4)
    return t


# operand shapes: R = Register(r), I = Integer(i), M = Memory(r, off)
def operand(kind, n):
    if kind == "R":
        return symex.struct(OPERAND, "Register", (("0", T.V("reg%d" % n, 64)),))
    if kind == "I":
        return symex.struct(OPERAND, "Integer", (("0", T.V("int%d" % n, 64)),))
    if kind == "M":
        return symex.struct(OPERAND, "Memory", (("0", T.V("reg%d" % n, 64)), ("1", T.V("moff%d" % n, 64))))
    raise ValueError(kind)


SHAPES = [(), ("R",), ("I",), ("M",), ("R", "R"), ("R", "I"), ("I", "R"), ("R", "M"), ("M", "R"), ("M", "I"), ("I", "I"), ("M", "M"), ("I", "M"),
          ("R", "R", "I"), ("R", "I", "I"), ("R", "R", "R"), ("I", "I", "I"), ("R", "I", "R"), ("M", "R", "I"), ("R", "R", "R", "R")]

X, K = 0x08, 0x00


def reference_encode(itype, shape):
    """(opcode source-bit, dst, src, off, imm) operand names for an accepted shape, else None"""
    r = {("AluBinary", ("R", "R")): (X, "reg0", "reg1", 0, 0),
         ("AluBinary", ("R", "I")): (K, "reg0", 0, 0, "int1"),
         ("AluUnary", ("R",)): (None, "reg0", 0, 0, 0),
         ("LoadAbs", ("I",)): (None, 0, 0, 0, "int0"),
         ("LoadInd", ("R", "I")): (None, 0, "reg0", 0, "int1"),
         ("LoadReg", ("R", "M")): (None, "reg0", "reg1", "moff1", 0),
         ("StoreReg", ("M", "R")): (None, "reg0", "reg1", "moff0", 0),
         ("StoreImm", ("M", "I")): (None, "reg0", 0, "moff0", "int1"),
         ("NoOperand", ()): (None, 0, 0, 0, 0),
         ("JumpUnconditional", ("I",)): (None, 0, 0, "int0", 0),
         ("JumpConditional", ("R", "R", "I")): (X, "reg0", "reg1", "int2", 0),
         ("JumpConditional", ("R", "I", "I")): (K, "reg0", 0, "int2", "int1"),
         ("Call", ("I",)): (None, 0, 0, 0, "int0"),
         ("Callx", ("I",)): (None, 0, 1, 0, "int0"),
         ("Endian", ("R",)): (None, "reg0", 0, 0, "SIZE"),
         ("LoadImm", ("R", "I")): (None, "reg0", 0, 0, "LOW32(int1)")}
    return r.get((itype, shape))


ITYPES = ["AluBinary", "AluUnary", "LoadImm", "LoadAbs", "LoadInd", "LoadReg", "StoreImm", "StoreReg", "JumpUnconditional",
          "JumpConditional", "Call", "Callx", "Endian", "NoOperand"]


def encode_paths(F, ev, itype, shape):
    """the function that places operands into an Insn, found by what it takes (an instruction type, a base opcode and the
    operand list - directly or packed in a private struct) and returns (Result<Insn, _>)"""
    def flat_tys(ty, depth=0):
        adt = F.adts.get(ty)
        if adt and adt.get("kind") == "struct" and depth < 2:
            return [t for f in adt["variants"][0]["fields"] for t in flat_tys(f["ty"], depth + 1)]
        return [ty]
    enc = []
    for p, fn in F.fns.items():
        if not (p.startswith("assembler::") and fn.get("params") and "Insn" in fn.get("ret", "") and "Vec<" not in fn.get("ret", "")):
            continue
        tys = [t for q in fn["params"] for t in flat_tys(q)]
        if sum(t.endswith("InstructionType") for t in tys) == 1 and sum(t == "u8" for t in tys) == 1 and sum("[asm_parser::Operand]" in t for t in tys) == 1 \
                and len(tys) == 3:
            enc.append(p)
    if len(enc) != 1:
        return None, "encode candidates: %s" % enc
    payload = (("0", T.V("SIZE", 64)),) if itype == "Endian" else ()
    ity = symex.struct(ITYPE, itype, payload)
    ops = ("array", tuple(operand(k, i) for i, k in enumerate(shape)))

    def arg_for(ty, depth=0):
        adt = F.adts.get(ty)
        if adt and adt.get("kind") == "struct" and depth < 2:
            return symex.struct(ty, adt["variants"][0]["name"], tuple((f["name"], arg_for(f["ty"], depth + 1)) for f in adt["variants"][0]["fields"]))
        if ty.endswith("InstructionType"):
            return ity
        if ty == "u8":
            return T.V("opc", 8)
        return ops
    outs = ev.run_fn(enc[0], [arg_for(q) for q in F.fns[enc[0]]["params"]])
    return outs, enc[0]


def register_vs_mnemonic(F, tab):
    """(ok, found): an instruction without operands may be followed by a mnemonic that starts like a
    register; combine commits once input is consumed, so the register parser has to backtrack"""
    from facts import walk, callee_path
    conflict = sorted(m for m in tab if m[:1] == "r")
    noop = sorted(m for m, e in tab.items() if e[0] == "NoOperand")

    def wrapped(fn_path, *inner_preds):
        """some `attempt(..)` of the function whose argument contains a call satisfying each predicate"""
        from dispatch import thir_reach
        if fn_path not in F.fns:
            return False
        # the function and the private parser functions it is split into (and their closures)
        fam = {q for q in thir_reach(F, [fn_path]) if q.startswith("asm_parser::")} | {fn_path}
        for q in sorted(fam):
            fn = F.fns.get(q)
            if not fn or not fn.get("thir"):
                continue
            for n in walk(fn["thir"]["body"]):
                if n.get("k") == "call" and (callee_path(n) or "").endswith("::attempt"):
                    inner = [callee_path(y) or "" for a in n["args"] for y in walk(a) if y.get("k") == "call"]
                    if all(any(pred(c) for c in inner) for pred in inner_preds):
                        return True
        return False
    # either the whole register alternative is under `attempt`, or inside `register` the `attempt` covers the `r` together
    # with what tells a register from a mnemonic (the no-letter look-ahead or the digits): an `attempt` around the bare
    # `r` still commits before the look-ahead fails
    backtracks = wrapped("asm_parser::operand", lambda c: c.endswith("asm_parser::register")) or \
        wrapped("asm_parser::register", lambda c: c.endswith("::char"), lambda c: c.endswith("::not_followed_by") or c.endswith("::digit"))
    return (backtracks or not (conflict and noop)), {"mnemonics starting with r": conflict, "operand-less mnemonics": noop,
                                                     "register alternative backtracks": backtracks}


# ---------------------------------------------------------------- name resolution through the assembler itself
def internal_entry(F):
    """the function that turns parsed instructions into Insn values: fn(&[Instruction]) -> Result<Vec<Insn>, String>"""
    c = [p for p, fn in F.fns.items() if p.startswith("assembler::") and fn.get("params") and len(fn["params"]) == 1
         and "Instruction]" in fn["params"][0] and "Insn" in fn.get("ret", "") and fn.get("thir")]
    return c[0] if len(c) == 1 else None


def _run_entry(F, ev, ins, st=None):
    """run the assembler on a given list of parsed instructions: through its internal entry when it has one, else
    through the public `assemble` with the parser answering that list (the instruction loop written inline)"""
    entry = internal_entry(F)
    if entry is not None:
        return ev.run_fn(entry, [("array", tuple(ins))], st), True
    pub = "assembler::assemble"
    if pub not in F.fns or not F.fns[pub].get("thir"):
        return None, False
    saved = dict(ev.models)
    ev.models = dict(ev.models)
    ev.models["asm_parser::parse"] = lambda ev_, vals, n, s, path, gens: [(symex.ok(("array", tuple(ins))), s)]
    try:
        outs = ev.run_fn(pub, [("obj", "SRC", "&str")], st)
    finally:
        ev.models = saved
    return outs, False


def _contradictory(conds):
    flat = set()
    for c in conds:
        st = [c]
        while st:
            x = st.pop()
            if isinstance(x, tuple) and x and x[0] == "land":
                st.extend([x[1], x[2]])
            else:
                flat.add(x)
    return any(T.lnot(c) in flat for c in flat) or T.FALSE in flat


def resolve(F, ev, name, shape=None, ops=None, st=None):
    """evaluate the assembler's own name resolution + encoding for one instruction `name <operands>`:
    -> list of dict(res='Ok'|'Err'|'panic'|'?', insns=[{field: term}], conds=[...]) over feasible paths, or None"""
    if ops is None:
        ops = tuple(operand(k, i) for i, k in enumerate(shape))
    ins = symex.struct("asm_parser::Instruction", "Instruction", (("name", ("lit", name)), ("operands", ("array", tuple(ops)))))
    outs, internal = _run_entry(F, ev, (ins,), st)
    if outs is None:
        return None
    res = []
    for v, st in outs:
        if not st.feasible or _contradictory(st.conds):
            continue
        kind = "?"
        if st.exit is not None and st.exit[0] == "panic":
            kind = "panic"
        elif any(e[0] == "call" and isinstance(e[1], str) and e[1].startswith("core::panicking") for e in st.effects):
            kind = "panic"
        elif isinstance(v, tuple) and len(v) > 2 and v[0] == "struct" and v[2] in ("Ok", "Err"):
            kind = v[2]
        insns = []
        for e in st.effects:
            if e[0] == "call" and isinstance(e[1], str) and e[1].endswith("Vec<T, A>::push"):
                x = e[2][1]
                if isinstance(x, tuple) and x and x[0] == "struct" and x[1].endswith("Insn"):
                    insns.append({k: y for k, y in x[3]})
                elif internal:
                    insns.append({"?": x})      # (through the public entry the bytes are pushed too: only Insn values count)
        res.append({"res": kind, "insns": insns, "conds": list(st.conds), "unrec": list(st.unrec)})
    return res


def resolve_seq(F, ev, items):
    """the assembler's name resolution + encoding for a sequence of instructions [(name, operands)]:
    -> list of dict(res, insns) over feasible paths, or None"""
    ins = tuple(symex.struct("asm_parser::Instruction", "Instruction", (("name", ("lit", nm)), ("operands", ("array", tuple(ops))))) for nm, ops in items)
    outs, internal = _run_entry(F, ev, ins)
    if outs is None:
        return None
    res = []
    for v, st in outs:
        if not st.feasible or _contradictory(st.conds):
            continue
        kind = v[2] if isinstance(v, tuple) and len(v) > 2 and v[0] == "struct" and v[2] in ("Ok", "Err") else "?"
        if (st.exit is not None and st.exit[0] == "panic") or any(e[0] == "call" and isinstance(e[1], str) and e[1].startswith("core::panicking") for e in st.effects):
            kind = "panic"
        insns = []
        for e in st.effects:
            if e[0] == "call" and isinstance(e[1], str) and e[1].endswith("Vec<T, A>::push"):
                x = e[2][1]
                if isinstance(x, tuple) and x and x[0] == "struct" and x[1].endswith("Insn"):
                    insns.append({k: y for k, y in x[3]})
                elif internal:
                    insns.append({"?": x})
        res.append({"res": kind, "insns": insns, "conds": list(st.conds)})
    return res


def expected_insns(itype, payload, base, shape):
    """reference: the Insn values `name <shape>` denotes (list of field dicts), or None when the shape is not accepted"""
    want = reference_encode(itype, tuple(shape))
    if want is None:
        return None
    bit, dst, src_, off, imm = want

    def opnd(nm, w):
        if nm == 0 or nm == 1:
            return T.K(w, nm)
        if nm == "SIZE":
            return T.K(w, payload)
        if isinstance(nm, str) and nm.startswith("LOW32"):
            v = T.V("int1", 64)
            return T.trunc(32, T.shift("ashr", 64, T.shift("shl", 64, v, T.K(64, 32)), T.K(64, 32)))
        return T.trunc(w, T.V(nm, 64))
    first = {"opc": T.K(8, base | (bit or 0)), "dst": opnd(dst, 8), "src": opnd(src_, 8), "off": opnd(off, 16), "imm": opnd(imm, 32)}
    out = [first]
    if itype == "LoadImm":
        out.append({"opc": T.K(8, 0), "dst": T.K(8, 0), "src": T.K(8, 0), "off": T.K(16, 0),
                    "imm": T.trunc(32, T.shift("ashr", 64, T.V("int1", 64), T.K(64, 32)))})
    return out


def same_insn(got, exp):
    for k, e in exp.items():
        g = got.get(k)
        if g == e:
            continue
        if isinstance(g, tuple) and isinstance(e, tuple):
            try:
                lg, le = T.lanes(g), T.lanes(e)
                if None not in le and lg == le:
                    continue
            except Exception:
                pass
        return False
    return True
