"""Interpreter model: per-opcode path summaries of the interpreter loop body in canonical terms
(shared by C01, C02, C03, C04, C05, C07, C08, C09, C18)."""
import models
import symex
import terms as T
from facts import walk, strip, callee_path, norm_path

REG = ("obj", "REG", "[u64; 11]")


def call_arg_roles(facts, wrapper, callee):
    """roles of the arguments the public wrapper passes to `callee`:
    ('param', i) for the wrapper's i-th parameter, ('self', field) for `self.<field>`, None"""
    fn = facts.fns[wrapper]
    params = fn["thir"]["params"]
    pid = {}
    for i, p in enumerate(params):
        if p["pat"] and p["pat"]["k"] == "bind":
            pid[p["pat"]["id"]] = i
    for n in walk(fn["thir"]["body"]):
        if n.get("k") == "call" and callee_path(n) == callee:
            out = []
            for a in n["args"]:
                a = strip(a)
                while a.get("k") in ("ref", "deref", "coerce", "cast"):
                    a = strip(a["e"])
                if a.get("k") == "var":
                    if a["id"] in pid:
                        out.append(("param", pid[a["id"]]))
                    else:
                        out.append(("local", a["name"], _local_init(fn, a["id"])))
                elif a.get("k") == "field":
                    b = strip(a["e"])
                    while b.get("k") in ("deref", "ref"):
                        b = strip(b["e"])
                    out.append(("self", a["name"]) if b.get("k") == "var" and pid.get(b["id"]) == 0 else None)
                else:
                    out.append(None)
            return out
    return None


def _local_init(fn, vid):
    for n in walk(fn["thir"]["body"]):
        if n.get("k") == "block":
            for st in n["stmts"]:
                if st["k"] == "let" and st["pat"]["k"] == "bind" and st["pat"]["id"] == vid and st.get("init"):
                    i = strip(st["init"])
                    if i.get("k") == "call" and i["args"]:
                        a = strip(i["args"][0])
                        while a.get("k") in ("ref", "deref"):
                            a = strip(a["e"])
                        if a.get("k") == "field":
                            return a["name"]
    return None


def param_names(facts, fn_path):
    out = []
    for p in facts.fns[fn_path]["thir"]["params"]:
        out.append(p["pat"]["name"] if p["pat"] and p["pat"]["k"] == "bind" else None)
    return out


class InterpModel:
    def __init__(self, cx, opaque_bounds=True):
        self.cx = cx
        F = cx.F
        self.fn = cx.roles.interpreter()
        self.ok = self.fn is not None
        if not self.ok:
            return
        self.bc = cx.roles.bounds_check()
        self.lm = models.LoopModel(F, self.fn, opaque=(lambda p: p == self.bc) if opaque_bounds else None)
        self.pcname, self.pcid = models.loop_counter_name(F, self.fn)
        self.extra = {}
        # roles of the interpreter's parameters from the documented public wrapper
        wrapper = "EbpfVmMbuff::execute_program"
        roles = call_arg_roles(F, wrapper, self.fn) or []
        names = param_names(F, self.fn)
        self.param_role = {}
        for nm, r in zip(names, roles):
            if nm is None or r is None:
                continue
            if r[0] == "param":
                role = {1: "MEM", 2: "MBUFF"}.get(r[1])
            elif r[0] == "self":
                role = {"prog": "PROG", "helpers": "HELPERS", "allowed_memory": "ALLOWED"}.get(r[1])
            else:
                role = {"stack_usage": "STACK_USAGE"}.get(r[2])
            if role:
                self.extra[nm] = role
                self.param_role[role] = nm
        # the register file: the local of type [u64; 11]; the stack: the Vec<u8> local
        for n in walk(F.fns[self.fn]["thir"]["body"]):
            if n.get("k") == "block":
                for st in n["stmts"]:
                    if st["k"] == "let" and st["pat"]["k"] == "bind":
                        ty = st["pat"]["ty"]
                        if ty == "[u64; 11]":
                            self.extra[st["pat"]["name"]] = "REG"
                            self.regname = st["pat"]["name"]
                        elif ty.endswith("Vec<u8>"):
                            self.extra[st["pat"]["name"]] = "STACK"
                        elif ty.startswith("[stack::StackFrame"):
                            self.extra[st["pat"]["name"]] = "FRAMES"
        # `let (prog, stack_usage) = match prog_ {...}`: the inner names alias the parameters
        for n in walk(F.fns[self.fn]["thir"]["body"]):
            if n.get("k") == "block":
                for st in n["stmts"]:
                    if st["k"] == "let" and st["pat"]["k"] == "leaf" and st["pat"]["ty"].startswith("(&[u8]"):
                        for sp in st["pat"]["subs"]:
                            if sp["pat"]["k"] == "bind" and sp["pat"]["ty"] == "&[u8]":
                                self.extra[sp["pat"]["name"]] = "PROG"
        self._per = {}

    def canon(self, t):
        return models.canon(t, self.pcname, self.extra)

    def per_opcode(self, v):
        """list of path dicts: conds, regs (list of (index term, value term) in write order), pc, effects,
        exit ('ok', term) | ('err',) | ('panic', what) | None, unrec"""
        if v in self._per:
            return self._per[v]
        ev = self.lm.ev
        owner = ev.owner_of(self.fn)
        out = []
        def keep(stmt):
            # before the match: keep `let` bindings and the pc increment; the frame-usage bookkeeping
            # `if` is evaluated separately by C07
            if stmt["k"] == "let":
                return True
            e = strip(stmt["e"])
            return e.get("k") in ("assign", "assignop")

        for _val, s in self.lm.run(v, keep=keep):
            conds = [self.canon(c) for c in s.conds]
            p = {"conds": conds, "unrec": list(s.unrec), "exit": None, "effects": [], "panic_if": []}
            for e in s.effects:
                if e[0] == "panic_if":
                    p["panic_if"].append((self.canon(e[1]), e[2]))
                elif e[0] == "call" and isinstance(e[1], str) and e[1].startswith("core::panicking"):
                    p["exit"] = ("panic", e[1])
                else:
                    p["effects"].append(self.canon(e))
            if s.exit is not None and p["exit"] is None:
                if s.exit[0] == "ret":
                    r = s.exit[1]
                    if isinstance(r, tuple) and r and r[0] == "struct" and r[2] == "Ok":
                        p["exit"] = ("ok", self.canon(symex.sfield(r, "0")))
                    elif isinstance(r, tuple) and r and r[0] == "struct" and r[2] == "Err":
                        p["exit"] = ("err",)
                    else:
                        p["exit"] = ("ret?", r)
                elif s.exit[0] == "continue":
                    p["exit"] = None          # `continue` ends the iteration like falling off the arm: a live path
                else:
                    p["exit"] = s.exit
            regs = []
            rv = None
            for k, val in s.env.items():
                if k[0] == owner and isinstance(val, tuple) and val and val[0] in ("upd", "obj") and \
                        self._is_reg(val):
                    rv = val
            chain = []
            while isinstance(rv, tuple) and rv and rv[0] == "upd":
                chain.append((self.canon(rv[2]), self.canon(rv[3])))
                rv = rv[1]
            p["regs"] = list(reversed(chain))
            pcv = s.env.get((owner, self.pcid))
            p["pc"] = self.canon(pcv) if pcv is not None else None
            p["env"] = s.env
            out.append(p)
        self._per[v] = out
        return out

    def _is_reg(self, val):
        while isinstance(val, tuple) and val and val[0] == "upd":
            val = val[1]
        return isinstance(val, tuple) and val and val[0] == "obj" and val[1] == getattr(self, "regname", None)

    def final_reg_writes(self, path):
        """last value written per register index term"""
        d = {}
        for i, v in path["regs"]:
            d[i] = v
        return d


    # ------------------------------------------------------------------ normalised summaries
    def summary(self, v, sequential=True):
        """paths in the shape of isaref.path(): conds (frozenset), regs {index: value}, pc, stores,
        atomics, exit, calls; bounds-check results are rewritten to ('inbounds', addr, nbytes).
        With `sequential`, a store of load(a) + x to the same address a is reported as an add to memory
        (what it is for single-threaded values: C01/C03/C04); C18 asks for the literal effects."""
        out = []
        for p in self.per_opcode(v):
            checks = {}
            calls = []
            stores, atomics = [], []
            for e in p["effects"]:
                if e[0] == "call" and e[1] == self.bc:
                    a = e[2]
                    nb = a[1][2] if T.is_k(a[1]) else None
                    checks[e[3]] = ("inbounds", a[0], nb)
                elif e[0] == "store":
                    stores.append((e[1], e[2], e[3]))
                elif e[0] == "atomic_add":
                    atomics.append((e[1], e[2], e[3]))
                elif e[0] == "call" and e[1] == "indirect":
                    calls.append(e)
            if sequential:
                kept = []
                for w, a, x in stores:
                    ld = ("load", w, a)
                    rest = None
                    if isinstance(x, tuple) and x and x[0] == "op" and x[1] == "add" and x[2] == w:
                        if x[3] == ld:
                            rest = x[4]
                        elif x[4] == ld:
                            rest = x[3]
                    if rest is not None:
                        atomics.append((w, a, rest))
                    else:
                        kept.append((w, a, x))
                stores = kept
            conds = set()
            for c in p["conds"]:
                conds.add(self._subst_checks(c, checks))
            ex = p["exit"]
            if ex is not None and ex[0] == "ok":
                ex = ("ok", ex[1])
            elif ex is not None and ex[0] == "err":
                ex = ("err",)
            from vmodel import simplify_atoms
            conds = simplify_atoms(conds)
            out.append({"conds": frozenset(conds), "regs": self.final_reg_writes(p), "pc": p["pc"], "stores": stores,
                        "atomics": atomics, "exit": ex, "calls": calls, "unrec": p["unrec"], "panic_if": p["panic_if"]})
        return out

    def _subst_checks(self, c, checks):
        if isinstance(c, tuple) and c:
            if c[0] == "call" and c[1] == "is_ok" and c[2] and c[2][0] in checks:
                return checks[c[2][0]]
            if c[0] == "not":
                inner = self._subst_checks(c[1], checks)
                return T.lnot(inner) if inner != c[1] and inner[0] != "inbounds" else ("not", inner)
        return c
