"""C11 - Cranelift-compiled code never touches memory outside the program's regions.

Decided: (R11.a) in the translation of every memory opcode, each load / store / atomic_rmw builder
call is preceded by a `trapz(valid)` whose operand is the bounds predicate for the same address and
the same access type; (R11.c) that predicate, as a term, equals
    (end >= start) & ( stack | (mem & has_mem) | (mbuf & has_mbuf) ),  start = base + sext(off),
    end = start + bytes(ty), region test  start >= R.start & end <= R.end;
(R11.b) the raw builder memory operations are issued from no other function; (R11.d) the prelude
defines the region variables as (param, param + len) and the 512-byte stack slot; (R11.e) the
atomic's address equals the checked start.  Not decided: that a Cranelift trap stops execution
before the access (Cranelift's contract)."""
import re

import clmodel
import isa
import symex
import terms as T
from common import Ctx
from facts import walk, callee_path

MEMOPS = re.compile(r"InstBuilder::(load|store|atomic_rmw|uload\d+|sload\d+|istore\d+|atomic_load|atomic_store|atomic_cas)$")


def named(n):
    return ("v", "CL." + n, 64)


def reference(start, nbytes, mem_start):
    end = T.op("add", 64, start, T.K(64, nbytes))
    nowrap = T.cmp("uge", 64, end, start)

    def region(s, e):
        return T.op("and", 1, T.cmp("uge", 64, start, s), T.cmp("ule", 64, end, e))

    stack = region(named("stack_start"), named("stack_end"))
    mem = T.op("and", 1, region(mem_start, named("mem_end")), T.cmp("ne", 64, mem_start, T.K(64, 0)))
    mbuf = T.op("and", 1, region(named("mbuf_start"), named("mbuf_end")), T.cmp("ne", 64, named("mbuf_start"), T.K(64, 0)))
    return T.op("and", 1, nowrap, T.op("or", 1, T.op("or", 1, stack, mem), mbuf))


def memflags_rule(rep, F):
    """R11.m (also an obligation of C04: alias / readonly / notrap flags let Cranelift reorder or drop accesses, which
    changes results as well as trapping behaviour)"""
    rm = rep.rule("R11.m", "memory operations carry plain MemFlags (only new / endianness): no notrap, readonly, can_move, aligned, trusted or heap/table/vmctx flags that would let Cranelift move or drop an access relative to its bounds-check trap", floor=1)
    flag_calls = {}
    for p, fn in F.fns.items():
        if not fn.get("thir") or not p.startswith("cranelift::"):
            continue
        for x in walk(fn["thir"]["body"]):
            cp = callee_path(x) or "" if x.get("k") == "call" else ""
            if "MemFlags" in cp:
                flag_calls.setdefault(cp.split("::")[-1], set()).add(p)
    allowed = {"new", "set_endianness", "with_endianness", "endianness"}
    extra = sorted(k for k in flag_calls if k not in allowed)
    rep.ob(rm, "memflags", bool(flag_calls) and not extra, "MemFlags constructors / modifiers used by the Cranelift compiler",
           expected=sorted(allowed), found={k: sorted(v) for k, v in flag_calls.items()})



def run(rep, tier):
    cx = Ctx(rep, "cranelift")
    rep.where_by_opcode = cx.opcode_where(cx.roles.cranelift_translate())
    cm = clmodel.ClModel(cx)
    if not cm.ok:
        return
    rep.analysed(cm.fn)
    F = cx.F
    MEMBASE = ("call", "as_ptr", (("obj", "MEM", "&[u8]"),), 64)
    ra = rep.rule("R11.a", "every memory builder call is preceded by trapz(bounds predicate) for the same address and width", floor=22)
    pairs = [(1, 2), (0, 10), (9, 0)] if tier == "quick" else [(d, s) for d in range(11) for s in range(11)]
    n = 0
    for v, desc in sorted(isa.TABLE.items()):
        if desc["kind"] not in ("ldx", "ldabs", "ldind", "st", "stx", "xadd"):
            continue
        n += 1
        bad = []
        accesses = 0
        for d, s in pairs:
            for p in cm.paths(v, d, s):
                if p["err"]:
                    continue
                try:
                    r = cm.interpret(p)
                except clmodel.Unknown as e:
                    bad.append("unrecognised-construct: %s" % str(e)[:120])
                    continue
                last_trap = None
                guarded = None
                for ev in r["order"]:
                    if ev[0] == "trapz":
                        last_trap = ev[1]
                        guarded = None
                        continue
                    kind, w, addr = ev
                    accesses += 1
                    if w != desc["size"] * 8:
                        bad.append("%s of %d bits for a %d-byte instruction" % (kind, w, desc["size"]))
                    if guarded == (w, addr):
                        continue        # a second access to the very bytes the guard just admitted (load-then-store forms)
                    want = reference(addr, w // 8, MEMBASE)
                    guarded = (w, addr)
                    if last_trap is None:
                        bad.append("%s at %s without a preceding trapz" % (kind, T.show(addr)))
                    elif last_trap != want:
                        bad.append("%s at %s: guard is %s" % (kind, T.show(addr), T.show(last_trap)[:300]))
                    last_trap = None   # one guard per access
        rep.ob(ra, "opc=%#04x" % v, not bad and accesses > 0, "opcode %#04x (%s): guarded memory operations" % (v, desc["kind"]),
               expected="trapz(nowrap & (stack | mem&has_mem | mbuf&has_mbuf)) immediately guarding each access",
               found=sorted(set(bad))[:3] or "%d accesses guarded" % accesses, sample=(v == 0x69))
    rep.ob(ra, "arm-count", n == 22, "memory opcodes", expected=22, found=n)

    rb = rep.rule("R11.b", "raw memory builder operations are issued only by the guarded wrappers", floor=1)
    owners = {}
    for p, fn in F.fns.items():
        if not fn.get("thir") or not p.startswith("cranelift::"):
            continue
        for x in walk(fn["thir"]["body"]):
            if x.get("k") == "call" and MEMOPS.search(callee_path(x) or ""):
                owners.setdefault(p, []).append(callee_path(x).split("::")[-1])
    guard_fn = None
    ok = bool(owners)
    for p, ops in owners.items():
        fn = F.fns[p]
        calls = [callee_path(x) for x in walk(fn["thir"]["body"]) if x.get("k") == "call" and (callee_path(x) or "") in F.fns]
        # the first local call in the wrapper must be the bounds-check emitter, which contains the trapz
        has_guard = any(any(y.get("k") == "call" and (callee_path(y) or "").endswith("InstBuilder::trapz") for y in walk(F.fns[c]["thir"]["body"]))
                        for c in calls)
        ok = ok and has_guard
    rep.ob(rb, "owners", ok, "functions issuing load / store / atomic operations", expected="each of them calls the bounds-check emitter (the per-access guard is R11.a)",
           found={k: v for k, v in owners.items()})

    memflags_rule(rep, F)
    rd = rep.rule("R11.d", "prelude: region variables are (param, param+len) and the 512-byte stack slot", floor=1)
    ok, found = _prelude(cx)
    rep.ob(rd, "prelude", ok, "definitions of mem/mbuf/stack bounds in the function prelude",
           expected="mem=(p0,p0+p1) mbuf=(p2,p2+p3) stack=(slot+0, slot+STACK_SIZE), r10=slot+STACK_SIZE", found=found)
    rep.trust("rustc front end / typed THIR", "clmodel.py: InstBuilder semantics (Cranelift 0.127 docs)", "a Cranelift trap aborts before the guarded access")
    rep.assume("registered allowed-memory ranges are not supported by the Cranelift path (the property lists only packet, metadata buffer and stack)")


def _prelude_root(F):
    """the function that sets up a compiled function's entry state: it reaches (itself or through the private
    helpers it is split into) both the stack-slot creation and the reading of the entry block's parameters, and
    none of its callees does"""
    from dispatch import thir_reach, thir_local_callees

    def has(p, suffix):
        fn = F.fns.get(p) or {}
        return bool(fn.get("thir")) and any(x.get("k") == "call" and (callee_path(x) or "").endswith(suffix) for x in walk(fn["thir"]["body"]))

    def reaches_both(p):
        r = thir_reach(F, [p])
        return any(has(q, "create_sized_stack_slot") for q in r) and any(has(q, "block_params") for q in r)
    both = [p for p, fn in F.fns.items() if p.startswith("cranelift::") and fn.get("thir") and "{closure" not in p and reaches_both(p)]
    return [p for p in both if not any(g in both for g in thir_local_callees(F, F.fns[p]) if g != p)]


def _prelude(cx):
    F = cx.F
    cands = _prelude_root(F)
    if len(cands) != 1:
        return False, "prelude function candidates: %s" % cands
    ev = symex.Evaluator(F, models=clmodel.cl_models(), max_depth=6)
    selfv = ev.sym_for("self", "cranelift::CraneliftCompiler")
    key = ("self", "prelude")
    st = symex.St().set(key, selfv)
    args = []
    for q in F.fns[cands[0]]["thir"]["params"]:
        ty = q.get("ty") or ""
        if "CraneliftCompiler" in ty or ty in ("&mut Self", "&Self"):
            args.append(("ref", ("pv", key)))
        elif "FunctionBuilder" in ty:
            args.append(("obj", "bcx", "&mut FunctionBuilder"))
        elif ty.endswith("Block"):
            args.append(("obj", "entry", "Block"))
        else:
            return False, "prelude function %s takes an argument of type %s" % (cands[0], ty)
    outs = ev.run_fn(cands[0], args, st)
    if not outs:
        return False, "cannot evaluate the prelude"
    defs = {}
    vals = {}
    for _v, s in [o for o in outs if not __import__('models')._assertion_failure(o[1])][:1]:
        final_self = s.env.get(key)
        fieldname = {}
        if isinstance(final_self, tuple) and final_self and final_self[0] == "struct":
            for fk, fv in final_self[3]:
                if isinstance(fv, tuple):
                    fieldname[fv] = fk
        for e in s.effects:
            if e[0] != "call":
                continue
            nm, args, r = e[1], e[2], e[3]
            short = nm.split("::")[-1]
            if short == "block_params":
                vals[r] = "params"
            elif short == "iadd":
                vals[r] = ("add", _pv(vals, args[1]), _pv(vals, args[2]))
            elif short == "stack_addr":
                vals[r] = ("stack", _k(args[3]))
            elif short == "def_var":
                var = args[1]
                name = fieldname[var] if var in fieldname else var[2] if isinstance(var, tuple) and var[0] == "elem" else (re.search(r"\.(\w+)$", var[1]).group(1) if isinstance(var, tuple) and var[0] == "obj" and re.search(r"\.(\w+)$", var[1]) else str(var)[:40])
                defs[name] = _pv(vals, args[2])
            elif short == "create_sized_stack_slot":
                pass
    want = {"mem_start": ("param", 0), "mem_end": ("add", ("param", 0), ("param", 1)),
            "mbuf_start": ("param", 2), "mbuf_end": ("add", ("param", 2), ("param", 3)),
            "stack_start": ("stack", 0), "stack_end": ("stack", 512), 10: ("stack", 512)}
    got = {k: defs.get(k) for k in want}
    return got == want, {str(k): v for k, v in got.items()}


def _k(t):
    return t[2] if isinstance(t, tuple) and T.is_k(t) else None


def _pv(vals, x):
    if isinstance(x, tuple) and x and x[0] == "elem" and vals.get(x[1]) == "params":
        return ("param", x[2])
    if isinstance(x, tuple) and x in vals:
        return vals[x]
    return ("?", str(x)[:60])
