"""C03 - x86-64 JIT-compiled code computes the same result as the interpreter.

Translation validation per opcode template: for every opcode and (dst, src) register pair, the
bytes the code generator emits are obtained by symbolic evaluation of its arm down to the emit
macro (immediates and displacements stay symbolic), decoded by an independent x86-64 decoder
(REX / ModRM / displacement forms included) and interpreted over a symbolic machine state; the
resulting effect on the eBPF registers (through REGISTER_MAP), memory stores, branch condition and
target must equal the interpreter's summary of the same opcode on its in-bounds path.  quick:
representative register pairs; thorough: all 121 pairs.  Known finding F01 (same root cause as
C01): the JIT sign-extends the immediate of the six unsigned 64-bit jumps, the interpreter
zero-extends it."""
import re

import imodel
import isa
import jitmodel
import terms as T
import x86model as X
from common import Ctx

LEVEL = "translation_validation"
QUICK_PAIRS = [(0, 1), (1, 0), (3, 0), (0, 3), (3, 3), (0, 0), (6, 7), (7, 10), (10, 6), (4, 5), (5, 4), (2, 9), (9, 2), (8, 8), (1, 6)]
UNSIGNED_IMM_JMP64 = {v for v, d in isa.TABLE.items()
                      if d["kind"] == "jcond" and d["width"] == 64 and d["src"] == "K"
                      and d["op"] in ("jeq", "jne", "jgt", "jge", "jlt", "jle")}


def concretise(t, d, s):
    def f(x):
        if x == ("v", "dst", 8):
            return T.K(8, d)
        if x == ("v", "src", 8):
            return T.K(8, s)
        return None
    return T.rebuild(t, f)


def interp_paths(im, v, d, s):
    out = []
    for p in im.summary(v):
        if p["exit"] and p["exit"][0] in ("panic", "err"):
            continue
        conds = [concretise(c, d, s) for c in p["conds"] if c[0] != "inbounds" and not (c[0] == "not" and c[1][0] == "inbounds")]
        if T.FALSE in conds:
            continue
        out.append({"conds": [c for c in conds if c != T.TRUE],
                    "regs": {concretise(k, d, s): concretise(val, d, s) for k, val in p["regs"].items()},
                    "pc": concretise(p["pc"], d, s) if p["pc"] is not None else None,
                    "stores": [(w, concretise(a, d, s), concretise(x, d, s)) for w, a, x in p["stores"]],
                    "atomics": [(w, concretise(a, d, s), concretise(x, d, s)) for w, a, x in p["atomics"]],
                    "exit": p["exit"]})
    return out


def jit_paths(jm, v, d, s):
    """-> (paths, problems)"""
    paths, problems = [], []
    for tp in jm.templates(v, d, s):
        if tp["err"] == "panic":
            # map_register asserts etc.: only reachable for register numbers >= 11
            continue
        if tp["err"] == "Err" or tp["unrec"]:
            problems.append("template: %s %s" % (tp["err"], tp["unrec"][:2]))
            continue
        try:
            insns = X.decode(tp["items"])
            finals = X.run(insns, jm.initial_machine())
        except X.Unsupported as e:
            problems.append("x86: %s" % e)
            continue
        init = jm.initial_machine()
        for m in finals:
            conds = list(tp["conds"]) + list(m.conds)
            fits = jitmodel.fit_rewrites(conds)
            regs = {}
            for k, r in enumerate(jm.regmap):
                val = jitmodel.apply_fits(m.regs[r], fits)
                if val != init.regs[r]:
                    regs[T.K(64, k)] = val
            bad = []
            if m.regs[X.R10] != init.regs[X.R10]:
                bad.append("packet base register changed")
            if m.depth != 0 or m.stack:
                bad.append("unbalanced push/pop (%d bytes)" % m.depth)
            if m.regs[X.RSP] != init.regs[X.RSP]:
                bad.append("rsp modified")
            if m.exit is None:
                pc = tp["pc"]
            elif m.exit[0] == "jump":
                pc = m.exit[1]
            else:
                pc = None
            paths.append({"conds": conds, "regs": regs, "pc": pc, "exit": m.exit,
                          "stores": [(w, jitmodel.apply_fits(a, fits), jitmodel.apply_fits(x, fits)) for w, a, x in m.stores],
                          "atomics": [(w, jitmodel.apply_fits(a, fits), jitmodel.apply_fits(x, fits)) for w, a, x in m.atomics],
                          "bad": bad, "calls": m.calls})
    return paths, problems


def eq_substitution(conds):
    """`field == K` atoms of a joint path condition -> substitution on terms"""
    sub = {}
    for c in jitmodel._atoms(conds):
        if c[0] == "cmp" and c[1] == "eq" and T.is_k(c[3]):
            x, k = c[4], c[3]
            while x[0] in ("sext", "zext") and x[2][0] in ("v", "sext", "zext"):
                inner = x[2]
                kk = T.K(T.width(inner), k[2])
                back = T.sext(x[1], kk) if x[0] == "sext" else T.zext(x[1], kk)
                if back != k:
                    break
                x, k = inner, kk
            if x[0] == "v":
                sub[x] = k
        elif c[0] == "cmp" and c[1] == "eq":
            # `x == ext(trunc(x))` (the value fits the narrower type, e.g. from i32::try_from): the round trip is x
            for a, b in ((c[3], c[4]), (c[4], c[3])):
                if isinstance(b, tuple) and b[0] in ("sext", "zext") and isinstance(b[2], tuple) and b[2][0] == "trunc" and b[2][2] == a:
                    sub[b] = a
    if not sub:
        return lambda t: t
    return lambda t: T.rebuild(t, lambda x: sub.get(x))


def strength_reduction(conds):
    """a compiler may replace `x * c` / `x / c` by a shift when it has tested that c is a power of two: under a path
    condition `is_power_of_two(c)`, `shl(x, ilog2(c))` is rewritten back to `mul(x, c)` and `lshr(x, ilog2(c))` to
    `udiv(x, c)`.  When the logarithm is taken of the *signed* view (it panics for c <= 0, which is C12's business),
    c > 0 on this path and its sign- and zero-extensions coincide."""
    pow2 = set()
    for c in jitmodel._atoms(conds):
        if isinstance(c, tuple) and c and c[0] == "call" and isinstance(c[1], str) and c[1].endswith("::is_power_of_two") and len(c[2]) == 1:
            pow2.add(c[2][0])
    if not pow2:
        return lambda t: t
    positive = set()

    def rw(x):
        if isinstance(x, tuple) and x and x[0] == "sh" and x[1] in ("shl", "lshr") and isinstance(x[4], tuple) and x[4][0] == "amt":
            a = x[4][2]
            if isinstance(a, tuple) and a and a[0] == "call" and isinstance(a[1], str) and a[1].endswith("::ilog2") and a[2][0] in pow2:
                c, w = a[2][0], x[2]
                if re.search(r"impl i\d+>::ilog2$", a[1]):
                    positive.add(c)
                cw = c if T.width(c) == w else T.zext(w, c)
                return T.op("mul", w, x[3], cw) if x[1] == "shl" else T.op("udiv", w, x[3], cw)
        return None

    def f(t):
        t2 = T.rebuild(t, rw)
        if positive:
            t2 = T.rebuild(t2, lambda x: T.zext(x[1], x[2]) if isinstance(x, tuple) and x and x[0] == "sext" and x[2] in positive else None)
        return t2
    f.positive = positive
    return f


def specialise(p, f):
    return {"conds": p["conds"], "regs": {f(k): f(v) for k, v in p["regs"].items()}, "pc": f(p["pc"]) if p["pc"] is not None else None,
            "stores": [(w, f(a), f(x)) for w, a, x in p["stores"]], "atomics": [(w, f(a), f(x)) for w, a, x in p["atomics"]],
            "exit": p["exit"], "bad": p.get("bad", [])}


def compare(ips, jps, legacy_load=False):
    """every compatible (interpreter path, JIT path) pair must agree; every interpreter path must be covered"""
    diffs = []
    jps = [jp for jp in jps if T.FALSE not in jp["conds"]]
    for ip0 in ips:
        covered = False
        for jp0 in jps:
            if jitmodel.contradictory(ip0["conds"], jp0["conds"]):
                continue
            covered = True
            f = eq_substitution(list(ip0["conds"]) + list(jp0["conds"]))
            if legacy_load:
                g = f
                # assumption A-size: the displacement of a legacy load never reaches 2^31 on an in-bounds access
                f = lambda t, g=g: T.rebuild(g(t), lambda x: ("v", "disp(imm)", 64) if x in (T.zext(64, ("v", "imm", 32)), T.sext(64, ("v", "imm", 32))) else None)
            sr = strength_reduction(list(jp0["conds"]))
            f2 = (lambda t, f=f, sr=sr: sr(f(t)))
            jp = specialise(jp0, f2)        # first: learns which constants are known positive on this path
            ip = specialise(ip0, f2)
            if jp["bad"]:
                diffs.append("; ".join(jp["bad"]))
            keys = set(ip["regs"]) | set(jp["regs"])
            for k in keys:
                a = ip["regs"].get(k, ("sel", jitmodel.REG, k, 64))
                b = jp["regs"].get(k, ("sel", jitmodel.REG, k, 64))
                if not jitmodel.same_value(a, b):
                    diffs.append("r%s: interpreter %s, JIT %s" % (T.show(k), T.show(a), T.show(b)))
            if ip["pc"] is not None and jp["pc"] is not None and ip["pc"] != jp["pc"]:
                diffs.append("next pc: interpreter %s, JIT %s" % (T.show(ip["pc"]), T.show(jp["pc"])))
            if len(ip["stores"]) != len(jp["stores"]) or any(
                    sw != jw or not jitmodel.same_value(sa, ja) or not jitmodel.same_value(sx, jx)
                    for (sw, sa, sx), (jw, ja, jx) in zip(ip["stores"], jp["stores"])):
                diffs.append("stores: interpreter %s, JIT %s" % ([(w, T.show(a), T.show(x)) for w, a, x in ip["stores"]],
                                                                 [(w, T.show(a), T.show(x)) for w, a, x in jp["stores"]]))
            if len(ip["atomics"]) != len(jp["atomics"]) or any(
                    sw != jw or not jitmodel.same_value(sa, ja) or not jitmodel.same_value(sx, jx)
                    for (sw, sa, sx), (jw, ja, jx) in zip(ip["atomics"], jp["atomics"])):
                diffs.append("atomic adds differ: interpreter %s, JIT %s" % (len(ip["atomics"]), len(jp["atomics"])))
        if not covered:
            diffs.append("no JIT path for interpreter condition %s" % [T.show(c) for c in ip0["conds"]])
    return sorted(set(diffs))


def run(rep, tier):
    cx = Ctx(rep, "std")
    rep.where_by_opcode = cx.opcode_where(cx.roles.jit())
    im = imodel.InterpModel(cx)
    jm = jitmodel.JitModel(cx)
    if not (im.ok and jm.ok):
        return
    rep.analysed(im.fn, jm.fn)
    pairs = [(d, s) for d in range(11) for s in range(11)] if tier == "thorough" else QUICK_PAIRS
    ra = rep.rule("R03.a", "per-opcode x86 template == interpreter term, for each register pair", floor=100 * 10)
    nt = 0
    bad_keys = 0
    for v, desc in sorted(isa.TABLE.items()):
        if desc["kind"] in ("call", "tail_call", "exit"):
            continue
        fails = {}
        for d, s in pairs:
            dd = d if not (isa.is_store(desc)) else d
            if d == 10 and not isa.is_store(desc):
                dd = 9  # r10 is a destination only for stores (verified programs)
            ips = interp_paths(im, v, dd, s)
            jps, problems = jit_paths(jm, v, dd, s)
            nt += 1
            diffs = problems + (compare(ips, jps, legacy_load=desc["kind"] in ("ldabs", "ldind")) if not problems else [])
            if diffs and v in UNSIGNED_IMM_JMP64 and not problems:
                zx, sx = T.zext(64, ("v", "imm", 32)), T.sext(64, ("v", "imm", 32))
                alt = [specialise(p, lambda t: T.rebuild(t, lambda x: sx if x == zx else None)) for p in ips]
                for a, p in zip(alt, ips):
                    a["conds"] = [T.rebuild(c, lambda x: sx if x == zx else None) for c in p["conds"]]
                if not compare(alt, jps):
                    diffs = ["F01: the JIT compares against sext64(imm), the interpreter against zext64(imm)"]
            if not ips:
                diffs.append("interpreter has no live path")
            if diffs:
                fails.setdefault(tuple(diffs[:3]), []).append((dd, s))
        if not fails:
            rep.bulk(ra, len(pairs), "opcode %#04x: %d register pairs validated" % (v, len(pairs))) if False else None
            rep.ob(ra, "opc=%#04x" % v, True, "opcode %#04x (%s): x86 templates of %d register pairs agree with the interpreter" % (v, desc["kind"], len(pairs)),
                   sample=(v in (0x0f, 0x3c, 0x69)))
            rep.rules[ra]["count"] += len(pairs) - 1
            continue
        for diffs, prs in fails.items():
            if v in UNSIGNED_IMM_JMP64 and all(x.startswith("F01:") for x in diffs):
                rep.ob(ra, "opc=JMP64_IMM/imm-ext", False, "opcode %#04x: JIT compares against sext64(imm), interpreter against zext64(imm)" % v,
                       expected="same comparison operand", found=list(diffs)[:2])
            else:
                rep.ob(ra, "opc=%#04x/%s" % (v, _h(diffs)), False,
                       "opcode %#04x (%s): JIT template differs from the interpreter for register pairs %s" % (v, desc["kind"], prs[:6]),
                       expected="equal effect summaries", found=list(diffs))
    rep.info("programs", nt)
    rep.info("templates_validated", nt)
    rep.info("register_pairs", len(pairs))
    # scratch registers are not eBPF registers
    rb = rep.rule("R03.g", "scratch x86 registers (rcx, r10, r11, rsp) are not mapped to eBPF registers", floor=1)
    rep.ob(rb, "scratch", not ({X.RCX, X.R10, X.R11, X.RSP} & set(jm.regmap)) and len(set(jm.regmap)) == 11,
           "REGISTER_MAP", expected="11 distinct registers, none of rcx/r10/r11/rsp", found=jm.regmap)
    rc = rep.rule("R03.e", "eBPF r6-r10 live in SysV callee-saved registers", floor=1)
    rep.ob(rc, "callee-saved", all(jm.regmap[k] in X.CALLEE_SAVED for k in (6, 7, 8, 9, 10)), "REGISTER_MAP[6..=10]",
           expected=sorted(X.CALLEE_SAVED), found=[jm.regmap[k] for k in (6, 7, 8, 9, 10)])
    # the execution context each VM kind hands to the x86-64 JIT code is part of "the same result for each kind
    # of VM": the context rules of C09 that concern this engine are obligations here too
    import props.c09 as c09
    c09.run(rep, tier, parts=("jit", "ctor"))
    # local calls and helper calls are compiled code too: the JIT-side rules of C07 (native call sequence) and
    # C08 (argument registers, result, alignment, lookup key) are obligations of "same result as the interpreter"
    import props.c07 as c07
    import props.c08 as c08
    c07.run(rep, tier, parts=("jit",))
    c08.run(rep, tier, parts=("jit",))
    rep.trust("rustc front end / typed THIR", "x86model.py: decoder and semantics of the opcode subset, written from the Intel SDM",
              "the hardware", "imodel: the interpreter summaries validated against the ISA under C01")
    rep.assume("all memory accesses of the compared paths are in bounds (the JIT performs no checks by documented design)",
               "A-size: no region is 2 GiB or longer (legacy-load displacement sign)")


def _h(diffs):
    import hashlib
    return hashlib.sha256(repr(diffs).encode()).hexdigest()[:8]
