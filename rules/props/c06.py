"""C06 - the default verifier accepts exactly the well-formed programs; a refusal is an Err value.

Decides: (R06.a-g) for each of the 256 opcode bytes, the verifier's accepting paths through one
loop iteration - their path conditions as canonical terms and the instruction-pointer advance -
equal the paths the property statement prescribes (vmodel.reference_paths); the checks made
before and after the loop equal the statement's length / last-instruction clauses.  (R06.h) panic
inventory of the verifier: no reachable panic site on any path.
The induction over loop iterations (one instruction per iteration, wide loads consume two slots)
is the paper argument; its per-iteration obligations are what is checked."""
import isa
import terms as T
import vmodel
from common import Ctx, Row, sites_to_obligations

LEVEL = "proof"


def run(rep, tier):
    cx = Ctx(rep, "std")
    rep.where_by_opcode = cx.opcode_where(cx.roles.verifier())
    vm = vmodel.VerifierModel(cx)
    if not vm.ok:
        return
    rep.analysed(vm.fn)
    ra = rep.rule("R06.a", "accepted opcode set == supported opcodes (ISA table minus tail call)", floor=256)
    rb = rep.rule("R06.b", "per-opcode accepting paths (conditions, pc advance) == statement's rule table", floor=122)
    accepted = set()
    for v in range(256):
        r = vm.per_opcode(v)
        ref = vmodel.reference_paths(v)
        if r["accept"]:
            accepted.add(v)
        should = v in isa.SUPPORTED
        rep.ob(ra, "opc=%#04x" % v, bool(r["accept"]) == should and not r["unrec"],
               "opcode %#04x is %s by the verifier" % (v, "accepted" if r["accept"] else "refused"),
               expected="accepted" if should else "refused",
               found=("accepted" if r["accept"] else "refused") + ("; unrecognised-construct: %s" % r["unrec"][:2] if r["unrec"] else ""))
        if not should:
            continue
        got = sorted((tuple(vmodel.show_atoms(a)), T.show(p) if p is not None else "?") for a, p in r["accept"])
        exp = sorted((tuple(vmodel.show_atoms(a)), T.show(p)) for a, p in ref)
        same = got == exp
        if not same and not r["unrec"] and all(p is not None for _a, p in r["accept"]):
            same, _why = vmodel.equivalent(r["accept"], ref)      # the same condition split into paths differently
        rep.ob(rb, "opc=%#04x" % v, same and not r["unrec"],
               "accepting paths of opcode %#04x (%s)" % (v, isa.TABLE[v]["kind"]),
               expected=exp, found=got if not r["unrec"] else ["unrecognised-construct"] + list(r["unrec"][:3]),
               sample=(v in (0x18, 0x05, 0x85, 0x63)))
    rep.info("accepted_opcodes", len(accepted))
    # prelude / postlude
    rc = rep.rule("R06.d", "length predicate and last-instruction rule == statement; loop ends exactly at the end", floor=1)
    acc, rej, unrec = vm.prelude()
    F = cx.F
    max_size = F.const("ebpf::PROG_MAX_SIZE")
    exit_opc = next(v for v, d in isa.TABLE.items() if d["kind"] == "exit")
    ja_opc = next(v for v, d in isa.TABLE.items() if d["kind"] == "ja")
    ref = set(vmodel.reference_prelude(max_size if isinstance(max_size, int) else 8000000, exit_opc, ja_opc))
    post = T.cmp("eq", 64, ("v", "pc'", 64), vmodel.NINSN)
    ok = len(acc) == 1 and not unrec
    got = set()
    if acc:
        got = {vm.canon(a) for a in acc[0]}
        # the loop counter after the loop is the primed symbol
        got = {_unprime(a, vm.pcname) for a in got}
    exp = ref | {post}
    rep.ob(rc, "prelude", ok and got == exp,
           "conditions under which the verifier returns Ok outside the per-instruction loop",
           expected=vmodel.show_atoms(exp), found=vmodel.show_atoms(got) if ok else ["%d Ok paths" % len(acc)] + list(unrec[:3]))
    rep.ob(rc, "limit", isinstance(max_size, int) and max_size == 8 * 1000000,
           "program size limit is 1,000,000 instructions of 8 bytes", expected=8000000, found=max_size)
    # R06.i the length and last-instruction rules hold *before* the per-instruction loop starts: the loop's
    # fetches (the second slot of a wide load in particular) rely on them
    ri = rep.rule("R06.i", "the length predicate and the last-instruction rule are established before the per-instruction loop (they dominate every fetch of the loop)", floor=1)
    pre, pprob = vmodel.pre_loop_atoms(vm)
    pre = {vm.canon(a) for a in pre}
    missing = [x for x in ref if x not in pre]
    rep.ob(ri, "pre-loop", not missing and not pprob, "conditions on the only path that reaches the loop",
           expected=vmodel.show_atoms(ref), found=(["missing before the loop: %s" % vmodel.show_atoms(missing)] if missing else []) + list(pprob[:2]) or "all established before the loop")
    # R06.h panic inventory
    rh = rep.rule("R06.h", "panic inventory of the verifier: a refusal is a value, never a panic", floor=50)
    inv = cx.inventory()
    sites, reach = inv.run([vm.fn])
    rep.analysed(*sorted(reach))
    rows = [
        Row("R06.h/wide-load-not-last", r".", r"^precond:(ebpf::get_insn|[\w:]+@ebpf::get_insn|verifier::\w+)<-panic!(panic|assert|debug_assert)@", "D3",
            "the wide load's second slot exists: the last instruction is EXIT or JA (checked before the loop, R06.d), "
            "so an LD_DW_IMM at index i has i + 1 < n", cites=("R06.d", "R06.i")),
    ]
    stats = sites_to_obligations(rep, rh, sites, rows)
    rep.info("site_stats", stats)
    rep.info("reachable_functions", sorted(reach))
    rep.trust("rustc front end / MIR / const-eval", "the C06 statement itself is the rule table (vmodel.reference_paths)",
              "byteorder::LittleEndian::read_i16/read_i32 (slice length preconditions are checked, decoding is trusted)")
    rep.assume("one loop iteration consumes one instruction (two for a wide load): checked through the pc advance of every accepting path")


def _unprime(t, pcname):
    if isinstance(t, tuple):
        if len(t) == 3 and t[0] == "v" and t[1] == (pcname + "'"):
            return ("v", "pc'", t[2])
        return tuple(_unprime(x, pcname) for x in t)
    return t
