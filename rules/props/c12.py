"""C12 - compiling any verified program returns Ok or Err and never panics or overruns.

Decided: (R12.a) panic inventory of the x86-64 JIT (std facts) and of the Cranelift compiler
(cranelift facts) with assume-guarantee rows citing the verifier rules; (R12.b) the counting and the
emitting pass of the JIT call the code generator with identical arguments and the buffer size comes
from the counting pass; (R12.c) raw writes into the code buffer happen only behind the bounds
assert of the emit macro or in jump fix-up; (R12.d) every opcode whose Cranelift translation emits
a block terminator also has its follow-up block prepared by the CFG pass; (R12.e) no clock / RNG /
environment access is reachable from either compiler (repeatability).
Not decided: panics inside Cranelift on IR it rejects, beyond R12.d."""
import re

import symex
import terms as T

import models
import terms as T
from common import Ctx, Row, sites_to_obligations
from facts import walk, strip, callee_path, norm_path

JIT_ROOTS = ["EbpfVmMbuff::jit_compile", "EbpfVmFixedMbuff::jit_compile", "EbpfVmRaw::jit_compile", "EbpfVmNoData::jit_compile"]
CL_ROOTS = ["EbpfVmMbuff::cranelift_compile", "EbpfVmFixedMbuff::cranelift_compile", "EbpfVmRaw::cranelift_compile",
            "EbpfVmNoData::cranelift_compile"]
IMPURE = re.compile(r"time::|Instant|SystemTime|rand|thread::current|env::|getrandom|RandomState")


def field_by_type(F, adt, ty_re):
    """name of the one field of `adt` whose type matches (fields are found by what they hold, not by what they are
    called); None when there is no such field or more than one"""
    a = (F.adts or {}).get(adt) or {}
    hits = [f["name"] for v in a.get("variants", []) for f in v.get("fields", []) if re.search(ty_re, f.get("ty") or "")]
    return hits[0] if len(hits) == 1 else None


def jit_rows(F=None, counter=None):
    # the table of code offsets per instruction (a vector of usize in the compiler state) and the write position of
    # the code memory (its one usize field)
    LOCS = re.escape((field_by_type(F, "jit::JitCompiler", r"^(std|alloc)::vec::Vec<usize>$") if F else None) or "pc_locs")
    POS = re.escape((field_by_type(F, "jit::JitMemory", r"^usize$") if F else None) or "offset")
    CNT = re.escape(counter or "insn_ptr")      # the generator's instruction index (the variable its loop guard bounds)
    return [
        Row("emit-bound", r"^jit::(JitCompiler|JitMemory)::emit", r"^panic!assert@$", "D3",
            "the emit macro's bounds assert cannot fire in the writing pass: the buffer was sized by the counting pass, "
            "which runs the same generator on the same arguments (R12.b) and the generator is deterministic (R12.e)",
            cites=("R12.b", "R12.e")),
        Row("emit-offset", r"^jit::(JitCompiler|JitMemory)::emit", r"^Overflow\(Add\)\(\*arg[12]<&mut jit::JitMemory<'_>>\." + POS + r",mem::size_of\(\)\)$", "A",
            "code size is below 2^32: at most 1,000,000 instructions (C06) of a bounded number of bytes each"),
        Row("rex-bits", r"^jit::JitCompiler::emit_(rex|modrm)$", r"^panic!assert_eq@$", "D1",
            "no arm, for any register pair, reaches the assert with other values: decided by evaluating every arm (R12.f)",
            cites=("R12.f",)),
        Row("pc-locs", r"^jit::JitCompiler::jit_compile$", r"^index:IndexMut<I>>::index_mut\(&\*arg1<&mut jit::JitCompiler>\." + LOCS + r",mut<usize>\)$", "D1",
            "pc_locs has n+1 entries (R12.m) and the loop guard keeps the index below n", cites=("R12.m",)),
        Row("pc-locs-assert", r"^jit::JitCompiler::jit_compile$", r"^panic!debug_assert@\[" + CNT + r" < self\." + LOCS + r"\.len\(\)\]$", "D1",
            "the same fact as the indexing it precedes: pc_locs has n+1 entries (R12.m) and the loop guard keeps the index below n", cites=("R12.m",)),
        Row("map-register", r"^jit::JitCompiler::jit_compile$", r"^precond:jit::map_register<-", "D3",
            "register numbers of a verified program are <= 10, and the loop only decodes verified slots", cites=("C06/R06.b", "R12.k")),
        Row("tail-call", r"^jit::JitCompiler::jit_compile$", r"^panic!unimplemented@u8=141$", "D3",
            "the verifier refuses TAIL_CALL", cites=("C06/R06.a",)),
        Row("endian", r"^jit::JitCompiler::jit_compile$", r"^panic!unreachable@u8=(212|220)(,(212|220))?;i32!in\[16,32,64\]$", "D3",
            "LE/BE immediates of a verified program are 16/32/64", cites=("C06/R06.b",)),
        Row("fixup-index", r"^jit::JitCompiler::resolve_jumps(::\{closure#\d+\})?$", r"^index:Index<I>>::index\(&\*(arg1<&mut jit::JitCompiler>\." + LOCS + r"|upvar<&self\." + LOCS + r">),", "D3",
            "recorded jump targets are either special anchors or instruction indexes the verifier validated (< n <= len(pc_locs)-1)",
            cites=("C06/R06.b", "R12.j")),
        Row("fixup-arith", r"^jit::JitCompiler::resolve_jumps$", r"^Overflow\((Add|Sub)\)\(", "A",
            "code offsets are below 2^31 (code size bound as above)"),
        Row("page-round", r"^jit::JitMemory::\w+$", r"^precond:jit::round_up_to_page<-", "A", "code size is far below usize::MAX - 4096"),
        Row("fetch", r"^EbpfVm\w+::\w+$", r"^precond:(jit::)?JitMemory::new(@ebpf::get_insn)?<-", "D3",
            "the program is the verified one stored by set_program/new: 8 | len, pc < n under the loop guard, wide loads are not last",
            cites=("C06/R06.d", "C10/R10.b")),
    ]


def two_pass(F, gen, ctor="jit::JitMemory::new"):
    """evaluate the constructor of the code memory with the generator opaque: -> (ok, description)"""
    import symex
    fn = F.fns.get(ctor)
    if not fn or not fn.get("thir"):
        return False, "%s not found" % ctor
    ev = symex.Evaluator(F, opaque_calls=lambda q: q == gen or q.endswith("resolve_jumps") or q.endswith("round_up_to_page"))
    args = [ev.sym_for((q["pat"].get("name") if q.get("pat") and q["pat"].get("k") == "bind" else None) or "p%d" % i, q["ty"]) for i, q in enumerate(fn["thir"]["params"])]
    outs = ev.run_fn(ctor, args) or []
    oks = [(v, s) for v, s in outs if isinstance(v, tuple) and len(v) > 2 and v[0] == "struct" and v[2] == "Ok"]
    if not oks:
        return False, "no evaluable Ok path"
    probs, sigs = [], []
    for v, s in oks:
        g = [e for e in s.effects if e[0] == "call" and e[1] == gen]
        sig = [tuple(e[2][2:]) for e in g]
        sigs.append([[repr(a)[:40] for a in x] for x in sig])
        if len(g) != 2:
            probs.append("%d generator runs on a path that returns code memory" % len(g))
        elif sig[0] != sig[1]:
            probs.append("the two passes get different arguments")
        elif not all(any(a == p_ for p_ in args) for a in sig[0]):
            probs.append("a pass does not get the constructor's own arguments")
    # the size must come from the counting pass: its `offset` is read in the constructor or a helper of it
    from dispatch import thir_reach
    pos = field_by_type(F, "jit::JitMemory", r"^usize$")     # the write position of the code memory (its one usize field)
    readers = [p for p in thir_reach(F, [ctor]) if p != gen and not p.startswith(gen + "::") and p.startswith("jit::JitMemory") and F.fns[p].get("thir")
               and any(n.get("k") == "field" and n.get("name") == pos for n in walk(F.fns[p]["thir"]["body"]))]
    if not readers:
        probs.append("the counting pass's offset is never read")
    return not probs, sorted(set(probs)) or {"passes": sigs[0], "size_read_in": readers}


def cl_rows():
    return [
        Row("jump-target", r"^cranelift::CraneliftCompiler::\w+$", r"^unwrap:Result<T, E>::unwrap\(TryInto<U>>::try_into\(", "D3",
            "jump targets of a verified program are non-negative instruction indexes below 1,000,000, hence fit u32", cites=("C06/R06.b",)),
        Row("pc-u32", r"build_cfg$", r"^Overflow\(Add\)\(\(mut<usize> as u32\),1\)$|^precond:.*prepare_jump_blocks<-Overflow", "D3",
            "pc < 1,000,000", cites=("C06/R06.d",)),
        Row("box-ubcheck", r"^cranelift::", r"^(MisalignedPointerDereference\(4,\(\(\(Box<T>::new_uninit|NullPointerDereference\(\))", "A",
            "debug-only UB checks on a freshly allocated Box (vec! expansion)"),
        Row("cl-api", r"^cranelift::", r"^unwrap:.*(declare_function|define_function|finalize_definitions|Configurable>::(set|enable)|IsaBuilder<T>::finish|current_block|TryInto<U>>::try_into\(Iterator::collect)", "A",
            "Cranelift API contract: fixed flag names, a declared-once function, a well-formed function body (block structure checked by R12.d, sealing by R12.s), "
            "an 11-element collection converted to [Variable; 11]"),
        Row("cl-host", r"^cranelift::CraneliftCompiler::new::\{closure#0\}$", r"^panic!panic@$", "A", "unsupported host ISA: environment, not input"),
        Row("cl-params", r"^cranelift::", r"^BoundsCheck\(PtrMetadata\(FunctionBuilder::(block_params|inst_results)", "A",
            "the entry block has the 4 parameters appended by append_block_params_for_function_params; a call to a helper signature has 1 result"),
        Row("cl-params-assert", r"build_function_prelude$", r"^panic!debug_assert_eq@\[.*\[T\]::len\(&\*FunctionBuilder::block_params\(.*<>.*\]$", "A",
            "the same Cranelift API contract as cl-params, stated as an assertion: the entry block has the 4 parameters appended for the function signature"),
        Row("access-type-assert", r"insert_bounds_check$", r"^panic!debug_assert@\[\[I8, I16, I32, I64\]\.contains\(&ty\)\]$", "D1",
            "every access the translator emits has the width of its instruction, 1/2/4/8 bytes: decided per opcode by C11/R11.a", cites=("C11/R11.a",)),
        Row("regs", r"^cranelift::", r"^BoundsCheck\(11,\(.*\.(dst|src) as usize\)\)$", "D3", "register numbers <= 10", cites=("C06/R06.b",)),
        Row("tail-call", r"translate_program$", r"^panic!unimplemented@u8=141$", "D3", "TAIL_CALL is refused by the verifier", cites=("C06/R06.a",)),
        Row("unknown-opc", r"translate_program$", r"^panic!unimplemented@u8!in\[\d+ values\]$", "D3", "every accepted opcode has an arm", cites=("R12.g",)),
        Row("inner-matches", r"translate_program$", r"^panic!unreachable@u8=[\d,\.]+;u8!in\[", "D1",
            "inner match over the same opcode set as the enclosing or-pattern"),
        Row("translate-closure-unreachable", r"translate_program::\{closure#\d+\}$", r"^panic!unreachable@$", "D1",
            "a fallback closure of a table lookup in the translator (`find(..).unwrap_or_else(|| unreachable!())`): no supported opcode "
            "reaches it - decided by evaluating the translation of every supported opcode (R12.n)", cites=("R12.n",)),
        Row("jmp-cc", r"translate_program$", r"^panic!unreachable@u8=21,22,29,30", "D1", "the condition-code ladder covers every jump operation of the enclosing or-pattern (R12.g)"),
        Row("endian", r"translate_program$", r"^panic!unreachable@u8=212,220;i32!in\[16,32,64\]$", "D3", "LE/BE immediates are 16/32/64", cites=("C06/R06.b",)),
        Row("targets-map", r"translate_program$", r"^index:Index<&Q>>::index\(&\*arg1<&mut cranelift::CraneliftCompiler>\.insn_targets", "D1",
            "the CFG pass inserted an entry for every jump instruction (R12.d)", cites=("R12.d",)),
        Row("fetch", r"^EbpfVm\w+::\w+$", r"^precond:(cranelift::)?CraneliftCompiler::compile_function(@ebpf::get_insn)?<-", "D3",
            "verified program: 8 | len, pc < n, wide loads not last", cites=("C06/R06.d",)),
    ]


def _lin(t):
    """linear form {symbol term: coefficient, "": constant} of a 64-bit term (atoms are opaque symbols)"""
    if T.is_k(t):
        return {"": T.sval(t) if t[2] >= 1 << 63 else t[2]}
    if isinstance(t, tuple) and t and t[0] == "op" and t[1] in ("add", "sub"):
        a, b = _lin(t[3]), _lin(t[4])
        return _lin_add(a, b, -1 if t[1] == "sub" else 1)
    if isinstance(t, tuple) and t and t[0] == "call" and t[1] == "len":
        return {("len", t[2][0]): 1}
    return {t: 1}


def _lin_add(a, b, k=1):
    if a is None or b is None:
        return None
    out = dict(a)
    for x, c in b.items():
        out[x] = out.get(x, 0) + k * c
    return {x: c for x, c in out.items() if c != 0 or x == ""} if any(x == "" for x in out) else {x: c for x, c in out.items() if c != 0}


def _lin_le(c):
    """`a <= b` / `a < b` (unsigned, no wrap assumed) as the linear form of a - b (+1) <= 0"""
    if not (isinstance(c, tuple) and c and c[0] == "cmp" and c[1] in ("ule", "ult", "uge", "ugt")):
        return None
    a, b = c[3], c[4]
    if c[1] in ("uge", "ugt"):
        a, b = b, a
    l = _lin_add(_lin(a), _lin(b), -1)
    if c[1] in ("ult", "ugt"):
        l = _lin_add(l, {"": 1})
    l.setdefault("", 0)
    return l


def _split_base(addr):
    """as_ptr(buf) + x -> (buf, x)"""
    if isinstance(addr, tuple) and addr and addr[0] == "op" and addr[1] == "add":
        for a, b in ((addr[3], addr[4]), (addr[4], addr[3])):
            if isinstance(a, tuple) and a and a[0] == "call" and a[1] == "as_ptr":
                return a[2][0], b
    return None, None


def run(rep, tier):
    cx = Ctx(rep, "std")
    F = cx.F
    ra = rep.rule("R12.a", "panic inventory of the x86-64 JIT", floor=50)
    inv = cx.inventory()
    roots = [r for r in JIT_ROOTS if r in F.fns]
    sites, reach = inv.run(roots)
    rep.analysed(*sorted(reach))
    gen = cx.roles.jit()
    try:
        counter = models.loop_counter_name(F, gen)[0] if gen else None
    except Exception:
        counter = None
    stats = sites_to_obligations(rep, ra, sites, jit_rows(F, counter))
    rep.info("jit_site_stats", stats)

    # R12.b two-pass sizing
    rb = rep.rule("R12.b", "counting pass and emitting pass run the generator on identical arguments", floor=1)
    gen = cx.roles.jit()
    ok, found = two_pass(F, gen)
    rep.ob(rb, "two-pass", ok, "generator calls made while building the code memory (helper functions followed)",
           expected="every path that returns code memory ran the generator exactly twice, on identical program / flags / helpers; the size is read from the counting pass",
           found=found)

    # R12.c raw writes into the code buffer
    rc = rep.rule("R12.c", "raw writes into the code buffer only behind the emit bounds assert or in jump fix-up", floor=2)
    import jitmodel as _jm
    emitters = set(_jm.emit_functions(F))
    writers = {}
    for p in reach:
        fn = F.fns[p]
        if not fn.get("thir"):
            continue
        for n in walk(fn["thir"]["body"]):
            if n.get("k") == "call" and re.search(r"(write_unaligned|ptr::write|copy_nonoverlapping|copy_from_slice)$", callee_path(n) or ""):
                writers.setdefault(p, []).append(n)
    for p, ns in sorted(writers.items()):
        fn = F.fns[p]
        has_assert = any(n.get("k") == "call" and (callee_path(n) or "").startswith("core::panicking") and "assert" in (n.get("mac") or [])
                         for n in walk(fn["thir"]["body"]))
        via_macro = all("emit_bytes" in (n.get("mac") or []) for n in ns) or p in emitters
        fixup = any(callee_path(n).endswith("copy_nonoverlapping") for n in ns)
        rep.ob(rc, "writer=%s" % p, (via_macro and has_assert) or (fixup and p.endswith("resolve_jumps")),
               "raw buffer write in %s" % p, expected="the emission primitive (macro or function) with its assert, or the fix-up routine", found="emitter=%s assert=%s fixup=%s" % (via_macro, has_assert, fixup))

    # R12.i the emit bounds predicate is exact
    ri = rep.rule("R12.i", "emit: a write of n bytes at contents+offset happens exactly when offset + n <= contents.len() (not weaker: overrun; not stronger: spurious panic)", floor=1)
    # subjects: functions with one expansion of the emit macro, or - when the primitive is a generic function - its
    # direct callers (there the written width is concrete)
    subjects = [p for p in sorted(writers) if all("emit_bytes" in (n.get("mac") or []) for n in writers[p]) and len(writers[p]) == 1]
    for e_ in sorted(emitters):
        for q in sorted(reach):
            fq = F.fns[q]
            if fq.get("thir") and q not in emitters and sum(1 for n in walk(fq["thir"]["body"]) if n.get("k") == "call" and callee_path(n) == e_) == 1 \
                    and len(fq["thir"]["params"]) <= 3:
                subjects.append(q)
    for p in subjects:
        if False:
            continue  # several expansions of the same macro in one function: same predicate by construction
        fn = F.fns[p]
        ev = symex.Evaluator(F)
        args = [ev.sym_for("a%d" % i, q["ty"]) for i, q in enumerate(fn["thir"]["params"])]
        outs = ev.run_fn(p, args) or []
        probs, nw = [], 0
        for v, st in outs:
            if any(T.lnot(c) in st.conds for c in st.conds):
                continue  # infeasible: the evaluator does not track the flag across inlined emit calls
            stores = [e for e in st.effects if e[0] == "store"]
            lins = [_lin_le(c) for c in st.conds]
            if stores:
                nw += 1
                for e in stores:
                    base, x = _split_base(e[2])
                    ref = _lin_add(_lin(x), {"": e[1] // 8}) if base is not None else None
                    ref = _lin_add(ref, {("len", base): -1}) if ref is not None else None
                    if ref is None or ref not in lins:
                        probs.append("write of %d bytes at %s under %s" % (e[1] // 8, T.show(e[2])[:60], [T.show(c) for c in st.conds]))
            elif st.exit and st.exit[0] == "panic":
                # a panic path must be the exact complement: offset + n > len  <=>  len - offset - n + 1 <= 0
                neg = [l for l in lins if l is not None and any(isinstance(k, tuple) and k[0] == "len" for k in l)]
                want = None
                for l in neg:
                    n_bytes = l.get("", 0)
                    want = l
                sizes = {e[1] // 8 for _v2, st2 in outs for e in st2.effects if e[0] == "store"}
                ok = False
                for l in neg:
                    ln = [k for k in l if isinstance(k, tuple) and k[0] == "len"]
                    others = {k: c for k, c in l.items() if k != "" and k not in ln}
                    if len(ln) == 1 and l[ln[0]] == 1 and all(c == -1 for c in others.values()) and (1 - l.get("", 0)) in sizes:
                        ok = True
                if not ok:
                    probs.append("panic path under %s" % [T.show(c) for c in st.conds])
        rep.ob(ri, "writer=%s" % p, nw >= 1 and not probs, "bounds predicate of the raw write in %s" % p,
               expected="offset + n <= contents.len() on the writing path, its exact complement on the panic path", found=probs or "%d writing paths" % nw)

    # R12.j jump targets recorded for fix-up
    rj = rep.rule("R12.j", "x86 JIT: every jump target recorded for fix-up is a constant anchor, pc+1, or the target the verifier validates for that opcode (pc+1+off for jumps, pc+1+imm for a local call)", floor=30)
    import imodel
    import isa
    import jitmodel
    im, jm = imodel.InterpModel(cx), jitmodel.JitModel(cx)
    if im.ok and jm.ok:
        nxt = T.op("add", 64, ("v", "pc", 64), T.K(64, 1))
        for v, d in sorted(isa.TABLE.items()):
            variants = [(1, 2)] if d["kind"] != "call" else [(1, 0), (1, 1)]
            for dd, ss in variants:
                tps = jm.templates(v, dd, ss)
                targets = {it[2][1] for t in tps for it in t["items"] if it[2] is not None and it[2][0] == "reloc"}
                if not targets:
                    continue
                # the targets the default verifier validates (the statement of C06): pc+1+off for jumps,
                # pc+1+imm for a local call - not the interpreter's terms, so that a defect of the interpreter
                # is not reported against the compilers
                import vmodel
                allowed = {nxt}
                if d["kind"] in ("ja", "jcond"):
                    allowed.add(vmodel.target("off", 16))
                if d["kind"] == "call" and ss == 1:
                    allowed.add(vmodel.target("imm", 32))
                bad = sorted(T.show(t) for t in targets if not T.is_k(t) and t not in allowed)
                rep.ob(rj, "opc=%#04x%s" % (v, "/src1" if (d["kind"] == "call" and ss == 1) else ""), not bad,
                       "jump targets recorded by the JIT for opcode %#04x" % v, expected=sorted(T.show(a) for a in allowed), found=bad or sorted(T.show(t) for t in targets))

    # R12.k the compilers' loops never decode an unverified slot
    rk = rep.rule("R12.k", "every compiler loop steps over the second slot of a wide load (pc+2), and over one slot otherwise: only slots whose register fields the verifier bounded reach the register-mapping asserts", floor=2)
    if im.ok and jm.ok:
        LDDW = next(v for v, d in isa.TABLE.items() if d["kind"] == "lddw")
        pc2 = T.op("add", 64, ("v", "pc", 64), T.K(64, 2))
        adv = {T.show(t["pc"]) if t["pc"] is not None else None for t in jm.templates(LDDW, 1, 0) if not t["err"]}
        rep.ob(rk, "jit/lddw", adv == {T.show(pc2)}, "x86 JIT: pc after the wide-load arm", expected=T.show(pc2), found=sorted(str(a) for a in adv))
        other = set()
        for v, d in sorted(isa.TABLE.items()):
            if d["kind"] in ("lddw",):
                continue
            for t in jm.templates(v, 1, 2 if d["kind"] != "call" else 0):
                if not t["err"] and t["pc"] is not None and t["pc"] != nxt:
                    other.add("%#04x: %s" % (v, T.show(t["pc"])))
        rep.ob(rk, "jit/others", not other, "x86 JIT: pc after every other arm", expected="pc + 1", found=sorted(other)[:4] or "pc + 1")
    import clmodel
    ccx = Ctx(rep, "cranelift")
    cm = clmodel.ClModel(ccx)
    if cm.ok:
        LDDW = next(v for v, d in isa.TABLE.items() if d["kind"] == "lddw")
        pc2 = T.op("add", 64, ("v", "pc", 64), T.K(64, 2))
        adv = {T.show(p["pc"]) if p.get("pc") is not None else None for p in cm.paths(LDDW, 1, 0) if not p.get("err")}
        rep.ob(rk, "cranelift/lddw", adv == {T.show(pc2)}, "Cranelift translate: pc after the wide-load arm", expected=T.show(pc2), found=sorted(str(a) for a in adv))

    # an import that no registered symbol resolves makes cranelift-jit panic in finalize_definitions
    import props.c08 as c08
    c08.helper_symbol_rules(rep, ccx)

    # R12.l block map discipline
    rl = rep.rule("R12.l", "Cranelift: a block handed out for an instruction index is never replaced (the pc -> block map is only filled through entry().or_insert*), so every block a jump site recorded is the one the instruction is translated into", floor=1)
    Fc = ccx.F
    over, fills = [], 0
    for pth, fnc in Fc.fns.items():
        if not pth.startswith("cranelift::") or not fnc.get("thir"):
            continue
        for n in walk(fnc["thir"]["body"]):
            if n.get("k") != "call":
                continue
            cp = callee_path(n) or ""
            recv = repr(n["args"][0])[:3000] if n.get("args") else ""
            if "'insn_blocks'" not in recv:
                continue
            if cp.endswith("::insert"):
                over.append("%s (%s)" % (pth, n.get("line")))
            elif cp.endswith("::entry"):
                fills += 1
    rep.ob(rl, "insn_blocks", fills >= 1 and not over, "writes to the pc -> block map", expected="entry(pc).or_insert_with(create_block) only",
           found=over or "%d entry() sites, no insert()" % fills)

    # R12.f / R12.g / R12.m: the facts the "proved by reading" rows (rex-bits, unknown-opc, pc-locs) rest on
    if im.ok and jm.ok:
        rf_ = rep.rule("R12.f", "x86 JIT: evaluating the arm of every supported opcode, for each register pair, reaches no panicking call (emit_rex / emit_modrm asserts, unreachable!)", floor=100)
        import props.c03 as c03
        prs = [(d_, s_) for d_ in range(11) for s_ in range(11)] if tier == "thorough" else c03.QUICK_PAIRS
        for v, d in sorted(isa.TABLE.items()):
            if d["kind"] in ("tail_call", "end"):
                continue        # tail call: refused by the verifier; LE/BE: the width `unreachable!()` has its own row (C06/R06.b)
            bad = []
            for dd, ss in prs:
                if d["kind"] == "call":
                    ss = ss % 2
                jm.lm.keep_assert_paths = True       # the asserts of emit_rex / emit_modrm are the point of this rule
                try:
                    tps = jm.templates(v, dd, ss)
                finally:
                    jm.lm.keep_assert_paths = False
                for t in tps:
                    # an assertion written in the generator's own loop (an invariant of the loop, not of an arm's operands)
                    # is a site of the inventory R12.a, not of this rule
                    if t["err"] == "panic" and t.get("panic_in") != jm.fn:
                        bad.append((dd, ss))
                        break
            rep.ob(rf_, "opc=%#04x" % v, not bad, "JIT arm of opcode %#04x over %d register pairs" % (v, len(prs)), expected="no panicking path", found=bad[:4] or "none")
        rg_ = rep.rule("R12.g", "both compilers have an arm for every opcode the verifier accepts", floor=2)
        from dispatch import opcode_matches
        supported = {v for v, d in isa.TABLE.items() if d["kind"] != "tail_call"}
        for label, fnp, F_ in (("jit", jm.fn, F), ("cranelift", ccx.roles.cranelift_translate(), ccx.F)):
            ms = opcode_matches(F_.fns[fnp], 60) if fnp and fnp in F_.fns else []
            handled = ms[0].handled() if ms else set()
            rep.ob(rg_, label, supported <= handled, "%s: opcodes without an arm" % label, expected=[], found=sorted("%#04x" % v for v in supported - handled))
        rm_ = rep.rule("R12.m", "x86 JIT: pc_locs holds one entry per instruction plus one (indexed by pc and by validated jump targets <= n)", floor=1)
        allocs = []
        fnj = F.fns.get(jm.fn)
        locs = field_by_type(F, "jit::JitCompiler", r"^(std|alloc)::vec::Vec<usize>$")
        for n in walk(fnj["thir"]["body"]):
            lhs = strip(n["l"]) if n.get("k") == "assign" else None
            if lhs is not None and lhs.get("k") == "field" and lhs.get("name") == locs and locs is not None:
                allocs.append(n)
        okm, foundm = False, "%d assignments to the table of code offsets (%s)" % (len(allocs), locs)
        if len(allocs) == 1:
            ev_ = symex.Evaluator(F)
            owner_ = ev_.owner_of(jm.fn)
            stm = symex.St()
            for q in fnj["thir"]["params"]:
                if q["pat"] and q["pat"].get("k") == "bind" and q["ty"].endswith("[u8]"):
                    stm = stm.set((owner_, q["pat"]["id"]), ("obj", "PROG", q["ty"]))
            vals = ev_.ev(allocs[0]["r"], stm, jm.fn)
            fe = [e for _v, s2 in vals for e in s2.effects if e[0] == "call" and e[1] == "core::vec::from_elem"]
            want = T.op("add", 64, T.op("udiv", 64, ("call", "len", (("obj", "PROG", "&[u8]"),), 64), T.K(64, 8)), T.K(64, 1))
            okm = len(fe) == 1 and fe[0][2][1] == want
            foundm = [T.show(e[2][1]) for e in fe] or foundm
        rep.ob(rm_, "alloc", okm, "length of pc_locs", expected="len(prog) / 8 + 1", found=foundm)

    # R12.e repeatability
    re_ = rep.rule("R12.e", "no clock / RNG / environment access reachable from the compilers", floor=1)
    bad = sorted({e for p in reach for e in cx.cg.ext.get(p, ()) if IMPURE.search(e)})
    rep.ob(re_, "jit", not bad, "external callees of the JIT", expected="none matching time/rand/env", found=bad)

    # ---------------- Cranelift
    cc = Ctx(rep, "cranelift")
    Fc = cc.F
    rg = rep.rule("R12.a-cl", "panic inventory of the Cranelift compiler", floor=50)
    invc = cc.inventory()
    rootsc = [r for r in CL_ROOTS if r in Fc.fns]
    sitesc, reachc = invc.run(rootsc)
    rep.analysed(*sorted(reachc))
    statsc = sites_to_obligations(rep, rg, sitesc, cl_rows())
    rep.info("cranelift_site_stats", statsc)
    badc = sorted({e for p in reachc for e in cc.cg.ext.get(p, ()) if IMPURE.search(e)})
    rep.ob(re_, "cranelift", not badc, "external callees of the Cranelift compiler", expected="none matching time/rand/env", found=badc)

    # R12.n: the translation of a supported opcode has no panicking path (table lookups with an `unreachable!()` fallback,
    # inner matches over the operation bits)
    rn_ = rep.rule("R12.n", "Cranelift: the translation of every supported opcode, evaluated for sample register pairs, has no panicking path", floor=100)
    import clmodel as _clm
    import isa as _isa
    cmn = _clm.ClModel(cc)
    if cmn.ok:
        for v in sorted(_isa.SUPPORTED):
            if _isa.TABLE[v]["kind"] == "end":
                continue        # byte swaps panic for a width other than 16/32/64, which the verifier refuses (row `endian`)
            bad = []
            for d_, s_ in ((0, 1), (3, 3), (9, 10)):
                try:
                    ps = cmn.paths(v, d_ if d_ != 10 else 9, s_)
                except Exception as e:          # fail closed
                    bad.append("not evaluable: %s" % str(e)[:80])
                    continue
                if any(p["err"] == "panic" for p in ps):
                    bad.append("a path of the arm panics for registers (%d, %d)" % (d_, s_))
            rep.ob(rn_, "opc=%#04x" % v, not bad, "Cranelift translation of opcode %#04x" % v, expected="no panicking path", found=bad[:2] or "none")

    # R12.s: the assumption row `cl-api` (define_function accepts the body) rests on the frontend's SSA protocol: a block
    # is sealed only when all its predecessors are known.  The translator meets it in the simplest way - nothing is
    # sealed until every instruction is translated, then seal_all_blocks - and that is what is checked
    rs_ = rep.rule("R12.s", "Cranelift: blocks are sealed once, by seal_all_blocks after translation; no block is sealed while predecessors may still be added", floor=1)
    early = sorted({p for p in reachc if Fc.fns[p].get("thir") for n in walk(Fc.fns[p]["thir"]["body"])
                    if n.get("k") == "call" and (callee_path(n) or "").endswith("FunctionBuilder::seal_block")})
    final = sorted({p for p in reachc if Fc.fns[p].get("thir") for n in walk(Fc.fns[p]["thir"]["body"])
                    if n.get("k") == "call" and (callee_path(n) or "").endswith("FunctionBuilder::seal_all_blocks")})
    rep.ob(rs_, "sealing", not early and len(final) == 1, "calls that seal blocks in the Cranelift compiler",
           expected="one seal_all_blocks, no seal_block", found={"seal_block in": early, "seal_all_blocks in": final})

    rd = rep.rule("R12.d", "terminator-emitting opcodes have their follow-up block prepared by the CFG pass", floor=40)
    tr, cfg = cc.roles.cranelift_translate(), cc.roles.cranelift_cfg()
    if tr and cfg:
        tgt_fn = [p for p in reachc if p != cfg and Fc.fns[p].get("thir") and any(
            n.get("k") == "call" and (callee_path(n) or "").endswith("TryInto<U>>::try_into") for n in walk(Fc.fns[p]["thir"]["body"]))]
        lt = models.LoopModel(Fc, tr, min_arms=60)
        lc = models.LoopModel(Fc, cfg, min_arms=30, opaque=lambda p: p in tgt_fn)
        TERM = re.compile(r"InstBuilder::(jump|brif|return_|br_table|trap)$")
        PREP = re.compile(r"(BTreeMap<K, V, A>::entry|BTreeMap<K, V, A>::insert|create_block)$|^(%s)$" % "|".join(re.escape(x) for x in tgt_fn))
        import isa
        for v in sorted(isa.TABLE):
            tcalls = _calls(lt, v)
            term = any(TERM.search(c) for c in tcalls)
            if not term:
                continue
            filled = any(c.endswith("HashSet<T, S, A>::insert") for c in tcalls)
            prep = any(PREP.search(c) for c in _calls(lc, v, inline_all=True))
            rep.ob(rd, "opc=%#04x" % v, prep and filled,
                   "opcode %#04x: translation ends the block" % v,
                   expected="CFG pass prepares the next block and the block is marked filled",
                   found="prepared=%s filled=%s" % (prep, filled))
        rh = rep.rule("R12.h", "the CFG pass derives a jump target from `off` only for opcodes whose offset the verifier validates", floor=40)
        for v in sorted(isa.TABLE):
            uses = any(c in tgt_fn or c.endswith("TryInto<U>>::try_into") for c in _calls(lc, v))     # (in a helper or in the arm itself)
            if uses or isa.is_branch(isa.TABLE[v]):
                rep.ob(rh, "opc=%#04x" % v, uses == isa.is_branch(isa.TABLE[v]),
                       "opcode %#04x: CFG pass computes pc+off+1" % v, expected=isa.is_branch(isa.TABLE[v]), found=uses)
    rep.trust("rustc front end / MIR / const-eval", "Cranelift 0.127 (IR verifier, code generation)", "hashbrown / alloc")
    rep.assume("code size of a program of at most 1,000,000 instructions is below 2^31 bytes")


def _calls(lm, v, inline_all=False):
    out = []
    for _val, s in lm.run(v, keep=lambda stmt: stmt["k"] == "let"):
        for e in s.effects:
            if e[0] == "call" and isinstance(e[1], str):
                out.append(e[1])
    return out
