"""C01 - the interpreter returns the value the eBPF ISA defines, for every program and input.

Decided: (R01.a/b) for every opcode byte, the interpreter arm's effect summary (register writes,
memory stores, branch condition and target, error exits, all as normalised bit-vector terms over
dst/src/off/imm) equals the ISA reference (isaref) - parametric in the operands, hence valid for
all 2^64 x 2^64 operand values; (R01.c) the loop fetches insn[pc] once and advances pc by one before
dispatch; (R01.d) every pc-derived value keeps the full 64-bit width; (R01.f) initial register
state.  Call / exit arms are decided under C07 / C08.  Known finding F01: the six unsigned JMP64
immediate comparisons zero-extend the immediate (pinned by an existing repository test)."""
import imodel
import isa
import isaref
import terms as T
from common import Ctx

UNSIGNED_IMM_JMP64 = {v for v, d in isa.TABLE.items()
                      if d["kind"] == "jcond" and d["width"] == 64 and d["src"] == "K"
                      and d["op"] in ("jeq", "jne", "jgt", "jge", "jlt", "jle")}


def show_path(p):
    def sh(x):
        try:
            return T.show(x)
        except Exception:
            return repr(x)[:100]
    return {"if": sorted(sh(c) if c[0] != "inbounds" and not (c[0] == "not" and c[1][0] == "inbounds") else
                         ("inbounds(%s, %s)" % (sh(c[1]), c[2]) if c[0] == "inbounds" else "!inbounds(%s, %s)" % (sh(c[1][1]), c[1][2]))
                         for c in p["conds"]),
            "regs": {sh(k): sh(v) for k, v in p["regs"].items()},
            "pc": sh(p["pc"]) if p["pc"] is not None else None,
            "stores": [(w, sh(a), sh(v)) for w, a, v in p["stores"]],
            "atomics": [(w, sh(a), sh(v)) for w, a, v in p["atomics"]],
            "exit": p["exit"][0] if p["exit"] else None}


def key_of_path(p):
    return (tuple(sorted(repr(c) for c in p["conds"])), tuple(sorted((repr(k), repr(v)) for k, v in p["regs"].items())), repr(p["pc"]) if p["exit"] is None else None,
            tuple(repr(s) for s in p["stores"]), tuple(repr(s) for s in p["atomics"]), p["exit"][0] if p["exit"] else None)


def same_paths(got, ref):
    return sorted(map(repr, map(key_of_path, got))) == sorted(map(repr, map(key_of_path, ref)))


def run(rep, tier):
    cx = Ctx(rep, "std")
    rep.where_by_opcode = cx.opcode_where(cx.roles.interpreter())
    im = imodel.InterpModel(cx)
    if not im.ok:
        return
    rep.analysed(im.fn)
    ra = rep.rule("R01.a", "per-opcode effect summary of the interpreter == ISA reference", floor=110)
    n = 0
    for v in sorted(isa.TABLE):
        ref = isaref.reference(v)
        if ref is None:
            continue
        got = [p for p in im.summary(v) if not (p["exit"] and p["exit"][0] == "panic")]   # panic paths: C05
        unrec = [u for p in got for u in p["unrec"] if "field write on symbolic" not in u]
        ok = same_paths(got, ref) and not unrec
        key = "opc=%#04x" % v
        if not ok and v in UNSIGNED_IMM_JMP64 and same_paths(got, isaref.reference(v, imm_sext_in_unsigned_cmp=False)) and not unrec:
            # exactly the known deviation: one finding for the six opcodes
            rep.ob(ra, "opc=JMP64_IMM/imm-ext", False,
                   "opcode %#04x compares against zext64(imm); the ISA sign-extends the immediate" % v,
                   expected=[show_path(p) for p in ref][:1], found=[show_path(p) for p in got][:1])
            continue
        rep.ob(ra, key, ok, "interpreter arm of opcode %#04x (%s %s)" % (v, isa.TABLE[v]["kind"], isa.TABLE[v].get("op", "")),
               expected=[show_path(p) for p in ref], found=[show_path(p) for p in got] if not unrec else ["unrecognised-construct"] + unrec[:3],
               sample=(v in (0x04, 0x69, 0xc4)))
        n += 1
    rep.info("opcodes_compared", n)

    # R01.c loop discipline: one fetch at pc, one increment before dispatch
    rc = rep.rule("R01.c", "one fetch of insn[pc] and one pc increment per iteration before dispatch", floor=1)
    p0 = im.per_opcode(0x07)
    fetches = [e for e in (p0[0]["effects"] if p0 else []) if e[0] == "get_insn"]
    rep.ob(rc, "fetch", bool(p0) and len(fetches) == 1 and fetches[0][2] == isaref.PC and p0[0]["pc"] == isaref.NEXT,
           "loop body of the interpreter for a straight-line opcode", expected="get_insn(PROG, pc) once; pc := pc + 1",
           found=[(T.show(e[2]) if isinstance(e[2], tuple) else e[2]) for e in fetches])

    # R01.d pc width: no narrowing of pc-derived values
    rd = rep.rule("R01.d", "values derived from pc keep the full width (no narrowing cast)", floor=40)
    for v in sorted(isa.TABLE):
        for p in im.per_opcode(v):
            if p["pc"] is None or p["exit"] is not None:
                continue
            narrow = _narrowed_pc(p["pc"])
            if isa.is_branch(isa.TABLE[v]) or isa.TABLE[v]["kind"] == "call":
                rep.ob(rd, "opc=%#04x/%s" % (v, T.show(p["pc"])[:50]), not narrow,
                       "new pc of opcode %#04x" % v, expected="no trunc of a pc-derived term", found=T.show(p["pc"]))

    # ... and the return address a local call saves for its matching exit
    for v, d in sorted(isa.TABLE.items()):
        if d["kind"] != "call":
            continue
        for p in im.per_opcode(v):
            if p["exit"] is not None:
                continue
            for k, val in p["env"].items():
                cv = im.canon(val)
                if isinstance(cv, tuple) and cv and cv[0] == "upd" and _mentions_pc(cv):
                    rep.ob(rd, "opc=%#04x/saved-pc" % v, not _narrowed_pc(cv), "pc-derived values the call arm saves for the return",
                           expected="no trunc of a pc-derived term", found=[T.show(x)[:80] for x in _pc_truncs(cv)][:2] or "full width")

    # R01.f initial state
    rf = rep.rule("R01.f", "initial registers: r10 = stack top, r1 by the mbuff/mem/0 cascade, others 0; stack is 512 zero bytes", floor=1)
    ok, found = _initial_state(cx, im)
    rep.ob(rf, "init", ok, "register file initialiser and r1 selection", expected="[0 x10, stack+len]; r1 = mbuff if non-empty else mem if non-empty else 0", found=found)
    # what the program finds in the metadata buffer at entry is part of "the value the ISA prescribes for
    # this input": the interpreter-side context rules of C09 are obligations here too
    import props.c09 as c09
    c09.run(rep, tier, parts=("interp", "ctor"))
    # the call and exit arms are part of what the interpreter computes: their frame rules (C07, interpreter side) are obligations here too
    import props.c07 as c07
    c07.run(rep, tier, parts=("interp",))
    # the helper-call arm is part of the interpreter's semantics: C08's interpreter-side rule is an obligation here too
    import props.c08 as c08
    c08.run(rep, tier, parts=("interp",))
    rep.trust("rustc front end / typed THIR", "core integer primitives (wrapping_*, to_le/to_be, read/write_unaligned)",
              "isaref.py: the ISA reference written from the specification")
    rep.assume("little-endian target", "results that depend on never-written registers/stack or raw addresses are outside the claim")


def _narrowed_pc(t):
    if not isinstance(t, tuple):
        return False
    if t[0] == "trunc" and _mentions_pc(t[2]):
        return True
    return any(_narrowed_pc(x) for x in t if isinstance(x, tuple))


def _pc_truncs(t):
    out = []
    if isinstance(t, tuple):
        if t and t[0] == "trunc" and _mentions_pc(t[2]):
            out.append(t)
        for x in t:
            if isinstance(x, tuple):
                out.extend(_pc_truncs(x))
    return out


def _mentions_pc(t):
    if t == ("v", "pc", 64):
        return True
    return isinstance(t, tuple) and any(_mentions_pc(x) for x in t if isinstance(x, tuple))


def _initial_state(cx, im):
    """entry state by symbolic evaluation of the statements that precede the main loop: on every path that reaches
    the loop, r0 and r2..r9 are 0, r10 = end of a fresh 512-byte zeroed vector, r1 = mbuff / mem / 0 by emptiness"""
    from facts import walk, strip
    import symex
    F = cx.F
    fn = F.fns[im.fn]
    top = strip(fn["thir"]["body"])
    if top.get("k") != "block":
        return False, "body is not a block"
    at = [i for i, st in enumerate(top["stmts"]) if any(x is im.lm.match.node for x in walk(st))]
    upto = at[0] if at else len(top["stmts"])
    regid = [st_["pat"]["id"] for n in walk(top) if n.get("k") == "block" for st_ in n["stmts"]
             if st_["k"] == "let" and st_["pat"].get("k") == "bind" and st_["pat"]["ty"] == "[u64; 11]"]
    if len(regid) != 1:
        return False, "register initialiser not found"
    ev = symex.Evaluator(F)
    owner = ev.owner_of(im.fn)
    st = symex.St()
    for q in fn["thir"]["params"]:
        if q["pat"] and q["pat"].get("k") == "bind":
            st = st.set((owner, q["pat"]["id"]), ev.sym_for(q["pat"]["name"], q["ty"]))
    acc = [st]
    for stmt in top["stmts"][:upto]:
        fake = {"k": "block", "stmts": [stmt], "tail": None, "ty": "()"}
        nxt = []
        for s_ in acc:
            if s_.exit is not None:
                nxt.append(s_)
                continue
            nxt.extend(s2 for _, s2 in ev.ev(fake, s_, im.fn))
        acc = [s_ for s_ in nxt if s_.feasible]
    live = [s_ for s_ in acc if s_.exit is None]
    if not live or any(s_.unrec for s_ in live):
        return False, "prologue not evaluable: %s" % [u for s_ in live for u in s_.unrec][:2]
    MB, ME = im.param_role.get("MBUFF"), im.param_role.get("MEM")
    mb, me = ("obj", MB, "&[u8]"), ("obj", ME, "&[u8]")
    e_mb = T.cmp("eq", 64, ("call", "len", (mb,), 64), T.K(64, 0))
    e_me = T.cmp("eq", 64, ("call", "len", (me,), 64), T.K(64, 0))
    want_r1 = {(T.lnot(e_mb),): ("call", "as_ptr", (mb,), 64), (e_mb, T.lnot(e_me)): ("call", "as_ptr", (me,), 64), (e_mb, e_me): T.K(64, 0)}
    seen, probs, r10s = set(), [], set()
    for s_ in live:
        val = s_.env.get((owner, regid[0]))
        regs = [ev.index_of(val, T.K(64, k), "u64") for k in range(11)]
        if any(regs[k] != T.K(64, 0) for k in (0, 2, 3, 4, 5, 6, 7, 8, 9)):
            probs.append("a register other than r1 / r10 does not start at 0")
        key = tuple(c for c in s_.conds if c in (e_mb, e_me, T.lnot(e_mb), T.lnot(e_me)))
        if key not in want_r1 or regs[1] != want_r1[key]:
            probs.append("r1 = %s under %s" % (_tshow(regs[1]), [_tshow(c) for c in key]))
        seen.add(key)
        top10 = regs[10]
        vecs = [e for e in s_.effects if e[0] == "call" and isinstance(e[1], str) and e[1].endswith("vec::from_elem") and e[2] == (T.K(8, 0), T.K(64, 512))]
        ok10 = any(top10 == T.op("add", 64, ("call", "as_ptr", (e[3],), 64), ("call", "len", (e[3],), 64)) for e in vecs)
        if not ok10:
            probs.append("r10 = %s (want the end of a fresh vec![0u8; 512])" % _tshow(top10))
        r10s.add(_tshow(top10))
    if seen != set(want_r1):
        probs.append("r1 cases: %d of 3" % len(seen))
    return not probs, sorted(set(probs)) or {"zeros": True, "r10": sorted(r10s)[0], "r1": "mbuff if non-empty, else mem if non-empty, else 0"}


def _tshow(t):
    try:
        return T.show(t)
    except Exception:
        return repr(t)[:80]
