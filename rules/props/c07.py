"""C07 - eBPF-to-eBPF calls preserve the caller's frame and callee-saved registers.

Decided from the per-opcode summaries of the call and exit arms: (R07.a) the interpreter saves
r6..r9 and the return pc into frame[i] and lowers r10 by usage(frame[i]); the exit arm restores
from frame[i'] with i' = i after the call's increment (mirror), raises r10 by the same usage
function of the same frame, and neither arm writes r0..r5; (R07.b) the depth guard `i < N` dominates
the frame write and N is the frame array's length; (R07.c) the saved return pc is pc+1 and the new
pc is pc+1+sext(imm) at full width; (R07.d) the frame-size table is populated only for targets of
instructions that every engine classifies as local calls (`opc == CALL && src == 1`), the same
discriminator in verifier, interpreter, JIT and the stack-usage pass; (R07.e) JIT: the native call
sequence pushes and pops mirror, r6..r9 are saved around the call.
Known finding F19: the JIT does not lower the frame pointer for the callee (callee and caller
stack slots alias); lowering it inside the JIT's single 512-byte area is not a small repair."""
import re

import imodel
import isa
import jitmodel
import symex
import terms as T
import vmodel
import x86model as X
from common import Ctx
from facts import walk, strip, callee_path

CALL = next(v for v, d in isa.TABLE.items() if d["kind"] == "call")
EXIT = next(v for v, d in isa.TABLE.items() if d["kind"] == "exit")
IDX = ("v", "stack_frame_idx", 64)


def _conj(c):
    out, st = [], [c]
    while st:
        x = st.pop()
        if isinstance(x, tuple) and x and x[0] == "land":
            st.extend([x[1], x[2]])
        else:
            out.append(x)
    return out


def _calculator_answer(F):
    """evaluate the function that consults the stored calculator (found as the callee the scan treats as `the calculator is
    asked`; written inline in the scan it is covered by R07.h's evaluation of the inserted value): on every feasible
    non-panicking path the value is Ok(Custom(<the indirect call's result>)) when the calculator is present, whatever
    the result is, and Ok(Default) when it is absent"""
    cands = [p for p in F.fns if p.endswith("::calculate_stack_usage_for_local_func") and F.fns[p].get("thir")]
    if not cands:
        # no separate helper: is the calculator consulted at all?  (inline form: R07.h compares the inserted value)
        scan = [p for p in F.fns if p.endswith("::stack_validate") and F.fns[p].get("thir")]
        inline = any("calculator" in repr(F.fns[p]["thir"]["body"]) for p in scan)
        return inline, "no helper function; the scan consults the calculator inline: %s" % inline
    if len(cands) != 1:
        return False, "candidates: %s" % cands
    path = cands[0]
    fn = F.fns[path]
    ev = symex.Evaluator(F)
    args = [ev.sym_for(q["pat"]["name"] if q["pat"] and q["pat"].get("k") == "bind" else "self", q["ty"]) for q in fn["thir"]["params"]]
    outs = [(v, st) for v, st in (ev.run_fn(path, args) or []) if st.feasible and not (st.exit is not None and st.exit[0] == "panic")]
    probs, n_some, n_none = [], 0, 0
    for v, st in outs:
        if st.unrec:
            probs.append("unrecognised: %s" % (st.unrec[0],))
            continue
        cs = [_shc(c) for c in st.conds]
        on_calc = [c for c in cs if "calculator" in c and re.match(r"^!?\(?(is_Some|is_None)\(", c.replace("!(", "!(", 1))]
        extra = [c for c in cs if c not in on_calc]
        some = any(c.startswith("is_Some(") for c in on_calc)
        if not (isinstance(v, tuple) and len(v) >= 4 and v[0] == "struct" and v[1].endswith("Result") and v[2] == "Ok"):
            if some and not extra:
                probs.append("with a calculator the result is %s" % _shc(v)[:80])
            continue
        inner = dict(v[3]).get("0")
        variant = inner[2] if isinstance(inner, tuple) and len(inner) >= 4 and inner[0] == "struct" else None
        if extra:
            probs.append("the recorded size depends on a further condition: %s -> %s" % (extra[0][:120], variant))
            continue
        if some:
            n_some += 1
            payload = dict(inner[3]).get("0") if variant == "Custom" else None
            is_call = isinstance(payload, tuple) and payload[:2] == ("call", "indirect") and "calculator" in repr(payload[2])[:400]
            if not is_call:
                probs.append("with a calculator the recorded size is %s(%s), not Custom(its result)" % (variant, _shc(payload)[:80] if payload is not None else ""))
        else:
            n_none += 1
            if variant != "Default":
                probs.append("without a calculator the recorded size is %s" % variant)
    if not n_some:
        probs.append("no path on which the calculator is consulted")
    if not n_none:
        probs.append("no path for the absent calculator")
    return not probs, sorted(set(probs))[:4] or "%d path(s) with a calculator: Custom(result); %d without: Default" % (n_some, n_none)


def _usage_pass(F):
    import models
    cands = [p for p in F.fns if p.endswith("::stack_validate") and F.fns[p].get("thir")]
    if len(cands) != 1:
        return False, "stack_validate candidates: %s" % cands
    path = cands[0]
    fn = F.fns[path]
    ev = symex.Evaluator(F, opaque_calls=lambda q: q.endswith("calculate_stack_usage_for_local_func"))
    owner = ev.owner_of(path)
    st0 = symex.St()
    prog = None
    for q in fn["thir"]["params"]:
        if q["pat"] and q["pat"].get("k") == "bind":
            v = ev.sym_for(q["pat"]["name"], q["ty"])
            st0 = st0.set((owner, q["pat"]["id"]), v)
            if q["ty"].startswith("&[u8]"):
                prog = v
    # one iteration of the scan, for a symbolic index I (a `for idx in 0..n`, a `while`, or a range pushed through
    # map / filter adaptors)
    info, why = models.counting_loop(F, ev, path, st0)
    if info is None:
        return False, "scan loop of %s: %s" % (path, why)
    n_insns = T.op("udiv", 64, ("call", "len", (prog,), 64), T.K(64, 8)) if prog is not None else None
    if info["start"] != T.K(64, 0) or info["bound"] != n_insns or not info["step_ok"]:
        return False, "the scan does not visit the instructions 0..len/8 one by one (start %s, bound %s)" % (_shc(info["start"]), _shc(info["bound"]))

    class _V:       # the variable the canonicaliser treats as the loop counter
        pass
    idxv = {"name": "I"}
    pre = info["pre"]
    n_eff, n_cond = len(pre.effects), len(pre.conds)
    pre_maps = {k: v for k, v in pre.env.items() if isinstance(v, tuple) and v and v[0] == "map"}
    outs = []
    for s2 in info["states"]:
        eff = list(s2.effects[n_eff:])
        # insertions into a table the evaluator holds concretely show up as a changed map, not as an effect
        for k, v in s2.env.items():
            if isinstance(v, tuple) and v and v[0] == "map" and k in pre_maps:
                for kv in v[1]:
                    if kv not in pre_maps[k][1]:
                        eff.append(("call", "HashMap::insert", (("map", k), kv[0], kv[1]), None))
        outs.append((None, s2.fork(effects=tuple(eff), conds=tuple(s2.conds[n_cond:]))))
    cn = lambda t: models.canon(t, idxv["name"])
    target = T.op("add", 64, T.op("add", 64, ("v", "pc", 64), T.K(64, 1)), T.sext(64, ("v", "imm", 32)))
    is_call = T.land(T.cmp("eq", 8, ("v", "src", 8), T.K(8, 1)), T.cmp("eq", 8, ("v", "opc", 8), T.K(8, CALL)))
    probs, n_ins = [], 0
    for _v, st in outs:
        conds = [cn(c) for c in st.conds]
        flat = set()
        for c in conds:
            stack = [c]
            while stack:
                x = stack.pop()
                if isinstance(x, tuple) and x and x[0] == "land":
                    stack.extend([x[1], x[2]])
                else:
                    flat.add(x)
        local = {T.cmp("eq", 8, ("v", "src", 8), T.K(8, 1)), T.cmp("eq", 8, ("v", "opc", 8), T.K(8, CALL))} <= flat
        # the calculator is asked either through the private helper that wraps it or directly (the helper written inline):
        # an indirect call through the stored `calculator`, whose second argument is the function's first instruction
        asked = [cn(e[2][-1]) for e in st.effects if e[0] == "call" and isinstance(e[1], str) and e[1].endswith("calculate_stack_usage_for_local_func")]
        asked += [cn(e[3][1]) for e in st.effects if e[0] == "call" and e[1] == "indirect" and "calculator" in repr(e[2])[:300] and len(e[3]) >= 2]
        calc = asked
        no_calc = any(isinstance(c, tuple) and c and ((c[0] == "call" and c[1] == "is_None") or (c[0] == "not" and isinstance(c[1], tuple) and c[1][:2] == ("call", "is_Some")))
                      and "calculator" in repr(c)[:300] for c in flat)
        ins = [e for e in st.effects if e[0] == "call" and isinstance(e[1], str) and e[1].endswith("::insert")]
        failed = any(isinstance(c, tuple) and c and c[0] == "not" and "is_ok" in repr(c)[:40] for c in conds)
        if st.unrec:
            probs.append("unrecognised: %s" % (st.unrec[0],))
        if local:
            if failed:
                continue        # the calculator's own error is propagated
            extra = [c for c in flat if c not in (T.cmp("eq", 8, ("v", "src", 8), T.K(8, 1)), T.cmp("eq", 8, ("v", "opc", 8), T.K(8, CALL))) and "is_ok" not in repr(c)[:60]
                     and not (("is_Some" in repr(c)[:40] or "is_None" in repr(c)[:40]) and "calculator" in repr(c)[:300])]
            if extra:
                probs.append("a local call is subject to a further condition: %s" % _shc(extra[0]))
            if no_calc:
                if calc:
                    probs.append("a calculator is called although none is registered")
            elif not (len(calc) == 1 and calc[0] == target):
                probs.append("calculator asked about %s" % ([_shc(x) for x in calc] or "nothing"))
            if not (len(ins) == 1 and cn(ins[0][2][1]) == target):
                probs.append("table entry under %s" % ([_shc(cn(e[2][1])) for e in ins] or "nothing"))
            n_ins += 1
        elif ins or calc:
            probs.append("an instruction that is not a local call adds an entry")
    if n_ins == 0:
        probs.append("no path handles a local call")
    return not probs, sorted(set(probs)) or "one entry per local call at %s" % T.show(target)


def _shc(t):
    try:
        return T.show(t)[:90]
    except Exception:
        return repr(t)[:90]


CALLEE_SAVED = frozenset((6, 7, 8, 9))


def _range_members(t):
    """the register numbers a constant range expression selects (None when it is not one): the half-open and the
    inclusive forms denote different sets for the same two bounds"""
    if not (isinstance(t, tuple) and t and t[0] == "struct"):
        return None
    f = dict(t[3])
    lo, hi = f.get("start"), f.get("end")
    if not (T.is_k(lo) and T.is_k(hi)):
        return None
    lo, hi = lo[2], hi[2]
    if t[2] == "Range":
        return frozenset(range(lo, hi))
    if t[2] == "RangeInclusive":
        return frozenset(range(lo, hi + 1))
    return None


def run(rep, tier, parts=("interp", "api", "jit")):
    cx = Ctx(rep, "std")
    F = cx.F
    im = imodel.InterpModel(cx)
    jm = jitmodel.JitModel(cx)
    if not (im.ok and jm.ok):
        return
    rep.analysed(im.fn, jm.fn)
    src1 = T.cmp("eq", 64, T.zext(64, ("v", "src", 8)), T.K(64, 1))
    callp = [p for p in im.per_opcode(CALL) if src1 in p["conds"]]
    exitp = im.per_opcode(EXIT)
    # the frame counter: the usize local compared against the depth limit
    idxs = set()
    for p in callp:
        for c in p["conds"]:
            if c[0] == "cmp" and c[1] in ("ult", "ule") and (T.is_k(c[3]) or T.is_k(c[4])):
                idxs.add(c[3] if not T.is_k(c[3]) else c[4])
    ra = rep.rule("R07.a", "interpreter: save in the call arm mirrors restore in the exit arm (same frame, same registers, inverse r10 adjustment)", floor=4)
    rb = rep.rule("R07.b", "depth guard dominates the frame write; bound == frame array length", floor=2)
    rc = rep.rule("R07.c", "return pc saved == pc+1; callee pc == pc+1+sext(imm) at full width", floor=2)
    ok_idx = len(idxs) == 1
    rep.ob(rb, "counter", ok_idx, "frame counter compared against the depth limit", expected="one counter", found=[T.show(i) for i in idxs])
    if not ok_idx:
        return
    idx = idxs.pop()
    depth = F.const("ebpf::MAX_CALL_DEPTH")
    frames_ty = [l for l in re.findall(r"\[stack::StackFrame; (\d+)\]", repr([p["env"] for p in callp[:1]]))]
    guard_err = [p for p in callp if p["exit"] == ("err",) and T.cmp("ule", 64, T.K(64, depth), idx) in p["conds"]]
    live = [p for p in callp if p["exit"] is None]
    rep.ob(rb, "guard", len(guard_err) == 1 and not guard_err[0]["regs"] and all(T.cmp("ult", 64, idx, T.K(64, depth)) in p["conds"] for p in live) and bool(live)
           and (not frames_ty or int(frames_ty[0]) == depth),
           "local call beyond the depth limit returns Err before touching the frame", expected="Err path `idx >= %s`; every saving path has `idx < %s` = frame array length" % (depth, depth),
           found={"err_paths": len(guard_err), "live_paths": len(live), "array_len": frames_ty[:1]})
    owner = im.lm.ev.owner_of(im.fn)

    def frame_effects(p):
        out = {"copy": [], "ret": None, "idx_new": None, "r10": None, "other_regs": []}
        for e in p["effects"]:
            if e[0] == "call" and isinstance(e[1], str) and e[1].endswith("copy_from_slice"):
                out["copy"].append((e[2][0], e[2][1]))
        for i, v in p["regs"]:
            if i == T.K(64, 10):
                out["r10"] = v
            else:
                out["other_regs"].append(T.show(i))
        for k, val in p["env"].items():
            if k[0] == owner and isinstance(val, tuple) and val:
                cv = im.canon(val)
                if cv[0] == "upd" and "FRAMES" in repr(cv)[:200]:
                    out["frames"] = cv
                if cv != idx and cv in (T.op("add", 64, idx, T.K(64, 1)), T.op("add", 64, idx, T.K(64, -1))):
                    out["idx_new"] = cv
        return out

    next_pc = T.op("add", 64, ("v", "pc", 64), T.K(64, 1))
    for p in live:
        fe = frame_effects(p)
        usage_kind = "default" if any("is_Default" in repr(c) and c[0] != "not" for c in p["conds"]) else "custom"
        fr = fe.get("frames")
        saved_ret = fr is not None and fr[0] == "upd" and fr[2] == idx and isinstance(fr[3], tuple) and fr[3][0] == "updf" and fr[3][2] == "return_address" and fr[3][3] == next_pc
        copy_ok = len(fe["copy"]) == 1 and "saved_registers" in repr(fe["copy"][0][0]) and repr(idx) in repr(fe["copy"][0][0])
        rng_ok = any(e[0] == "call" and e[1].endswith("::index") and _range_members(e[2][1]) == CALLEE_SAVED and "REG" in repr(e[2][0])
                     for e in p["effects"])
        r10 = fe["r10"]
        r10_ok = r10 is not None and (r10 == T.op("add", 64, ("sel", imodel.REG, T.K(64, 10), 64), T.K(64, -F.const("ebpf::LOCAL_FUNCTION_STACK_SIZE")))
                                      if usage_kind == "default" else (r10[0] == "op" and r10[1] == "sub" and "stack_usage" in repr(r10)))
        rep.ob(ra, "call/%s" % usage_kind, saved_ret and copy_ok and rng_ok and r10_ok and not fe["other_regs"] and fe["idx_new"] == T.op("add", 64, idx, T.K(64, 1)),
               "call arm (%s frame size): saves r6..r9 and pc+1 into frame[idx], r10 -= usage(frame[idx]), idx += 1" % usage_kind,
               expected="frame[idx].saved := r6..r9; frame[idx].ret := pc+1; r10 lowered; no write to r0-r9",
               found={"ret_saved": saved_ret, "copy": copy_ok, "range_6_9": rng_ok, "r10": T.show(r10) if r10 else None, "other": fe["other_regs"], "idx": T.show(fe["idx_new"]) if fe["idx_new"] else None})
        rep.ob(rc, "call-pc/%s" % usage_kind, p["pc"] == T.op("add", 64, next_pc, T.sext(64, ("v", "imm", 32))) and saved_ret,
               "callee pc and saved return pc", expected="pc := pc+1+sext64(imm); frame.ret := pc+1", found=T.show(p["pc"]) if p["pc"] else None)
    idx_m1 = T.op("add", 64, idx, T.K(64, -1))
    retp = [p for p in exitp if p["exit"] is None]
    for p in retp:
        fe = frame_effects(p)
        usage_kind = "default" if any("is_Default" in repr(c) and c[0] != "not" for c in p["conds"]) else "custom"
        frame_name = "[%s]" % T.show(idx_m1)
        copy_ok = len(fe["copy"]) == 1 and frame_name in repr(fe["copy"][0][1]) and "saved_registers" in repr(fe["copy"][0][1])
        rng_ok = any(e[0] == "call" and e[1].endswith("::index_mut") and _range_members(e[2][1]) == CALLEE_SAVED for e in p["effects"])
        pc_ok = p["pc"] is not None and frame_name in repr(p["pc"]) and "return_address" in repr(p["pc"])
        r10 = fe["r10"]
        r10_ok = r10 is not None and (r10 == T.op("add", 64, ("sel", imodel.REG, T.K(64, 10), 64), T.K(64, F.const("ebpf::LOCAL_FUNCTION_STACK_SIZE")))
                                      if usage_kind == "default" else (r10[0] == "op" and r10[1] == "add" and frame_name in repr(r10) and "stack_usage" in repr(r10)))
        rep.ob(ra, "exit/%s" % usage_kind, copy_ok and rng_ok and pc_ok and r10_ok and not fe["other_regs"] and fe["idx_new"] == idx_m1 and
               any(c in p["conds"] for c in (T.cmp("ult", 64, T.K(64, 0), idx), T.cmp("ne", 64, idx, T.K(64, 0)), T.lnot(T.cmp("eq", 64, idx, T.K(64, 0))))),
               "exit arm inside a callee (%s frame size): restores r6..r9, pc and r10 from frame[idx-1]" % usage_kind,
               expected="idx > 0; idx -= 1; r6..r9 := frame[idx].saved; pc := frame[idx].ret; r10 raised by usage(frame[idx])",
               found={"copy": copy_ok, "range_6_9": rng_ok, "pc": pc_ok, "r10": T.show(r10)[:120] if r10 else None, "other": fe["other_regs"]})
    top = [p for p in exitp if p["exit"] and p["exit"][0] == "ok"]
    rep.ob(ra, "exit/top", len(top) == 1 and top[0]["exit"][1] == ("sel", imodel.REG, T.K(64, 0), 64) and T.cmp("eq", 64, idx, T.K(64, 0)) in top[0]["conds"],
           "exit at depth 0 returns r0", expected="idx == 0 -> Ok(r0)", found=[T.show(p["exit"][1]) for p in top])

    # R07.f frame-size bookkeeping at the loop head
    rf = rep.rule("R07.f", "frame-size bookkeeping at the loop head writes only the current depth's own slot (never a saved frame), from the usage table entry of the current pc", floor=1)
    MOV = next(v for v, d in isa.TABLE.items() if d["kind"] == "alu" and d.get("op") == "mov" and d.get("src") == "K" and d.get("width") == 64)
    outs = im.lm.run(MOV, keep=lambda st: True)
    nwr, bad = 0, []
    for _v, s in outs:
        for k, val in s.env.items():
            val = im.canon(val)
            chain = []
            while isinstance(val, tuple) and val and val[0] == "upd":
                chain.append(val)
                val = val[1]
            if not (isinstance(val, tuple) and val and val[0] == "obj" and val[1] == "FRAMES"):
                continue
            for u in chain:
                nwr += 1
                w = u[3]
                fld = w[2] if isinstance(w, tuple) and w and w[0] == "updf" else None
                src = repr(w[3]) if fld else repr(w)
                guard = any(T.cmp("ult", 64, idx, T.K(64, depth)) in _conj(im.canon(c)) for c in s.conds)
                if u[2] != idx:
                    bad.append("slot index %s (expected %s)" % (T.show(u[2]), T.show(idx)))
                if fld != "stack_usage":
                    bad.append("field %s written" % fld)
                if "HashMap" not in src or "get" not in src:
                    bad.append("value not taken from the usage table")
                if not guard:
                    bad.append("write not guarded by idx < %d" % depth)
        for e in s.effects:
            e = im.canon(e)
            if e[0] == "call" and isinstance(e[1], str) and e[1].endswith("HashMap<K, V, S, A>::get") and e[2][1] != ("v", "pc", 64):
                bad.append("usage table looked up at %s (expected pc)" % T.show(e[2][1]))
    rep.ob(rf, "loop-head", nwr >= 1 and not bad, "writes to the frame array before the opcode dispatch",
           expected="stacks[idx].stack_usage := usage_table[pc] under idx < %d" % depth, found=sorted(set(bad)) or "%d guarded writes to slot idx" % nwr)

    if "api" in parts:
        # R07.g the registered calculator is the one whose frame sizes are used
        rg = rep.rule("R07.g", "frame sizes come from the registered stack-usage calculator: registering stores it (and re-validates a loaded program with it); loading a program validates with the stored one", floor=3)
        import props.c10 as c10
        for path in ("EbpfVmMbuff::set_stack_usage_calculator", "EbpfVmMbuff::set_program"):
            fn = F.fns.get(path)
            if not fn:
                rep.ob(rg, path, False, "%s exists" % path, found="missing")
                continue
            ev = symex.Evaluator(F, opaque_calls=lambda p: p.endswith("stack_validate"))
            extra = [ev.sym_for("new_" + (q["pat"]["name"] if q["pat"] and q["pat"]["k"] == "bind" else "arg%d" % i), q["ty"])
                     for i, q in enumerate(fn["thir"]["params"][1:])]
            key, sv, outs = c10.run_method(ev, F, path, extra)
            base = c10.flat(sv)
            probs, n_ok = [], 0
            for v, st in outs:
                if c10.result_kind(v) != "Ok":
                    continue
                n_ok += 1
                cur = c10.flat(st.env.get(key))
                vals = [e for e in st.effects if e[0] == "call" and isinstance(e[1], str) and e[1].endswith("stack_validate")]
                su = cur.get("stack_usage")
                if path.endswith("set_stack_usage_calculator"):
                    if cur.get("stack_verifier.calculator") != symex.some(extra[0]) or cur.get("stack_verifier.data") != symex.some(extra[1]):
                        probs.append("an Ok path does not store the new calculator and its data")
                    loaded = any(isinstance(c, tuple) and c[0] == "call" and c[1] == "is_Some" and "self.prog" in repr(c) for c in st.conds)
                    if loaded:
                        recv_local = len(vals) == 1 and vals[0][2][0][0] == "ref" and vals[0][2][0][1][0] == "pv"
                        if not (recv_local and "self.prog" in repr(vals[0][2][1]) and su != base.get("stack_usage") and "stack_validat" in repr(su)):
                            probs.append("a loaded program is not re-validated with the new calculator")
                else:
                    recv_field = len(vals) == 1 and "'stack_verifier'" in repr(vals[0][2][0]) and vals[0][2][1] == extra[0]
                    if not (recv_field and su != base.get("stack_usage") and "stack_validat" in repr(su)):
                        probs.append("the new program's frame sizes are not computed by the stored stack verifier")
            rep.ob(rg, path, n_ok >= 1 and not probs, "%s: Ok paths" % path,
                   expected="calculator stored / used on every Ok path", found=sorted(set(probs)) or "%d Ok paths" % n_ok)
        wrappers = [k + "::set_stack_usage_calculator" for k in ("EbpfVmFixedMbuff", "EbpfVmRaw", "EbpfVmNoData")]
        deleg = []
        for w in wrappers:
            fnw = F.fns.get(w)
            calls = [callee_path(n) for n in walk(fnw["thir"]["body"]) if n.get("k") == "call"] if fnw else []
            deleg.append(any((c or "").endswith("::set_stack_usage_calculator") for c in calls))
        rep.ob(rg, "wrappers", all(deleg) and len(deleg) == 3, "the other VM kinds delegate set_stack_usage_calculator", expected=[True] * 3, found=deleg)

        # R07.h the frame-size table gets an entry for the target of every local call
        rh = rep.rule("R07.h", "stack-usage pass: for every instruction with opc == CALL && src == 1 the calculator is asked about, and the table receives an entry for, pc + 1 + sext(imm) (full width, either direction); no other instruction adds entries", floor=1)
        okh, foundh = _usage_pass(F)
        rep.ob(rh, "stack_validate", okh, "loop body of the stack-usage pass", expected="insert(pc + 1 + sext64(imm), calculator(prog, pc + 1 + sext64(imm))) exactly under opc == 0x85 && src == 1",
               found=foundh)

        # R07.q what the table receives is the calculator's answer itself
        rq = rep.rule("R07.q", "the frame size recorded for a function is exactly what the registered calculator returned for it (Custom(result), for every u16 including 0), and the default only when no calculator is registered", floor=1)
        okq, foundq = _calculator_answer(F)
        rep.ob(rq, "calculator-answer", okq, "value of the helper that asks the calculator, on each of its paths",
               expected="calculator is Some: Ok(Custom(calculator(prog, pc, data))) under no further condition; None: Ok(Default)", found=foundq)

        # R07.d discriminator agreement
        rd = rep.rule("R07.d", "is-a-local-call discriminator (opc == CALL && src == 1) agrees in verifier, interpreter, JIT and stack-usage pass", floor=4)
        vm = vmodel.VerifierModel(cx)
        vsrc = sorted({T.show(a) for atoms, _ in vm.per_opcode(CALL)["accept"] for a in atoms if "src" in T.show(a) and "eq" in T.show(a)})
        rep.ob(rd, "verifier", vsrc == ["eq8(0, src)", "eq8(1, src)"], "verifier call kinds", expected=["eq8(0, src)", "eq8(1, src)"], found=vsrc)
        rep.ob(rd, "interpreter", bool(callp) and all(src1 in p["conds"] for p in callp), "interpreter local-call paths require src == 1", expected=True, found=len(callp))
        jl = [t for t in jm.templates(CALL, 0, 1) if not t["err"]]
        jl_other = [t for t in jm.templates(CALL, 0, 2)]
        rep.ob(rd, "jit", len(jl) == 1 and all(t["err"] == "Err" for t in jl_other), "JIT: src == 1 emits a native call, src >= 2 is an error",
               expected="1 template / Err", found=(len(jl), [t["err"] for t in jl_other]))
        # decided semantically by the evaluation of the scan loop (R07.h): entries are added exactly under opc == CALL && src == 1
        okd = _usage_pass(F)[0]
        rep.ob(rd, "stack-usage", okd, "stack-usage pass classifies local calls", expected="insn.opc == CALL && insn.src == 1", found=okd)

    if "jit" in parts:
        # R07.e JIT native call sequence
        re_ = rep.rule("R07.e", "JIT local call: pushes/pops mirror around the native call, r6-r9 saved; frame pointer lowered for the callee", floor=2)
        jl = [t for t in jm.templates(CALL, 0, 1) if not t["err"]]
        if len(jl) == 1:
            ins = X.decode_lenient(jl[0]["items"])
            pushes = [i.reg for i in ins if i.mn == "push"]
            pops = [i.reg for i in ins if i.mn == "pop"]
            calls = [i for i in ins if i.mn == "call_rel"]
            mirror = pops == list(reversed(pushes)) and len(calls) == 1 and set(pushes) >= {jm.regmap[k] for k in (6, 7, 8, 9)}
            tgt = calls[0].tag[1] if calls and calls[0].tag else None
            rep.ob(re_, "mirror", mirror and tgt == T.op("add", 64, T.op("add", 64, ("v", "pc", 64), T.K(64, 1)), T.sext(64, ("v", "imm", 32))),
                   "x86 local-call template", expected="push r6..r9(+r10 scratch); call pc+1+imm; pops in reverse", found={"pushes": pushes, "pops": pops, "target": T.show(tgt) if tgt else None})
            ms = X.run_lenient(ins, jm.initial_machine())
            ev = [e for m in ms for e in m.events if e[0] == "local_call"]
            lowered = False
            if ev:
                regs_at_call = ev[0][5]
                fp = regs_at_call[jm.regmap[10]]
                lowered = fp != jm.initial_machine().regs[jm.regmap[10]]
            rep.ob(re_, "jit/frame-pointer", lowered, "eBPF r10 seen by the callee of a JIT-compiled local call",
                   expected="lower than the caller's by the caller's frame size", found="unchanged: callee and caller stack slots alias")
    rep.trust("rustc front end / typed THIR", "x86model.py", "slice copy_from_slice / range indexing semantics")
    rep.assume("behaviour past the native stack in the JIT (depth > 8) is outside the JIT's documented guarantees")
