"""C16 - assembling the disassembler's output reproduces the program.

Decided per opcode, symbolically in the instruction's fields: the disassembler's rendered text
(name and format pieces from its format strings, with each hole tied to the field it prints) is
tokenised with the assembler's operand grammar (register `rN`, integer with optional sign and `0x`
prefix, memory `[rN+off]`), the mnemonic is looked up in the assembler's folded table, and the
operands go through `encode`; the resulting instruction must have the same opcode and the same
value in every field the instruction uses, unused fields zero.  `{:#x}` of a signed field prints its
two's-complement bit pattern, so the parsed value is the zero-extension of the field: a negative
32-bit immediate fails the assembler's range check (an error, never a different instruction), which
is exactly the statement's carve-out.  Opcodes the assembler cannot express (atomic add, tail call)
must not resolve to any mnemonic of the table."""
import re

import asmmodel
import isa
import models
import symex
import terms as T
from common import Ctx
from facts import walk, strip

FIELDW = {"dst": 8, "src": 8, "off": 16, "imm": 32}


def tokenise(pieces):
    """pieces: tuple of str | ('arg', spec, value, type) -> (mnemonic pieces, [operand token lists])"""
    flat = []
    for p in pieces:
        if isinstance(p, str):
            flat.extend(list(p))
        elif len(p) > 3 and p[3] == "char" and p[1] == "" and T.is_k(p[2]) and 32 <= p[2][2] < 127:
            flat.append(chr(p[2][2]))       # a `{}` hole filled with a character known on this path (e.g. the sign)
        else:
            flat.append(p)
    # mnemonic: up to the first space
    mn, i = [], 0
    while i < len(flat) and flat[i] != " ":
        mn.append(flat[i])
        i += 1
    rest = flat[i + 1:] if i < len(flat) else []
    ops, cur = [], []
    j = 0
    while j < len(rest):
        if rest[j] == "," and j + 1 < len(rest) and rest[j + 1] == " ":
            ops.append(cur)
            cur = []
            j += 2
            continue
        cur.append(rest[j])
        j += 1
    if cur or rest:
        ops.append(cur)
    return mn, ops


def parse_int(tok):
    """integer token: optional sign, then a `{:#x}` hole -> parsed i64 term"""
    sign = 1
    if tok and tok[0] in ("+", "-"):
        sign = -1 if tok[0] == "-" else 1
        tok = tok[1:]
    if len(tok) != 1 or isinstance(tok[0], str) or tok[0][1] != "#x":
        return None
    val = tok[0][2]
    w = T.width(val)
    v64 = val if w == 64 else T.zext(64, val)       # hex of a signed field prints the bit pattern
    return T.neg(64, v64) if sign < 0 else v64


def parse_reg(tok):
    if len(tok) == 2 and tok[0] == "r" and not isinstance(tok[1], str) and tok[1][1] == "":
        return T.zext(64, tok[1][2]) if T.width(tok[1][2]) < 64 else tok[1][2]
    return None


def parse_operand(tok):
    r = parse_reg(tok)
    if r is not None:
        return symex.struct(asmmodel.OPERAND, "Register", (("0", r),))
    if tok and tok[0] == "[" and tok[-1] == "]":
        inner = tok[1:-1]
        # rN then optional signed integer
        k = None
        for i, x in enumerate(inner):
            if x in ("+", "-") and i > 0:
                k = i
                break
        if k is None:
            rr = parse_reg(inner)
            return symex.struct(asmmodel.OPERAND, "Memory", (("0", rr), ("1", T.K(64, 0)))) if rr is not None else None
        rr, off = parse_reg(inner[:k]), parse_int(inner[k:])
        if rr is None or off is None:
            return None
        return symex.struct(asmmodel.OPERAND, "Memory", (("0", rr), ("1", off)))
    v = parse_int(tok)
    if v is not None:
        return symex.struct(asmmodel.OPERAND, "Integer", (("0", v),))
    return None


def run(rep, tier):
    cx = Ctx(rep, "std")
    rep.where_by_opcode = cx.opcode_where(cx.roles.api("disassembler::to_insn_vec"))
    F = cx.F
    tab = asmmodel.reference_table()          # documented names (used by R16.p only); resolution goes through the assembler
    root = cx.roles.api("disassembler::to_insn_vec")
    lm = models.LoopModel(F, root, min_arms=60)
    pcn, pcid = models.loop_counter_name(F, root)
    ev = symex.Evaluator(F)
    ev.unroll = True
    ra = rep.rule("R16.a", "rendered text of every assembler-expressible opcode assembles back to the same opcode and used fields", floor=110)
    rn = rep.rule("R16.n", "opcodes the assembler cannot express do not resolve to a mnemonic", floor=0)
    spell = {}
    for v, d in sorted(isa.TABLE.items()):
        variants = [None]
        if d["kind"] == "end":
            variants = [16, 32, 64]
        if d["kind"] == "call":
            variants = ["src0", "src1", "srcN"]      # srcN: the call kind left symbolic (kinds 2..15 must not be given a spelling of another kind)
        for var in variants:
            fields = {}
            if d["kind"] == "end":
                fields["imm"] = T.K(32, var)
            if d["kind"] == "call" and var != "srcN":
                fields["src"] = T.K(8, 0 if var == "src0" else 1)
            outs = lm.run(v, fields=fields)
            key = "opc=%#04x%s" % (v, "" if var is None else "/%s" % var)
            problems = []
            n_ok = 0
            expressible = None
            for _val, s in outs:
                if any(e[0] == "call" and isinstance(e[1], str) and e[1].startswith("core::panicking") for e in s.effects):
                    continue
                pushes = [e for e in s.effects if e[0] == "call" and isinstance(e[1], str) and e[1].endswith("Vec<T, A>::push")]
                if len(pushes) != 1:
                    problems.append("no HLInsn pushed")
                    continue
                hl = pushes[0][2][1]
                desc = symex.sfield(hl, "desc")
                if isinstance(desc, tuple) and desc and desc[0] == "lit":
                    pieces = (desc[1],)
                elif isinstance(desc, tuple) and desc and desc[0] == "fmt":
                    pieces = tuple(p if isinstance(p, str) else ("arg", p[1], models.canon(p[2], pcn), p[3]) for p in desc[1])
                else:
                    problems.append("desc is not a rendered string: %r" % (desc,)[:1])
                    continue
                mn, optoks = tokenise(pieces)
                mname = "".join(x if isinstance(x, str) else (str(T.sval(x[2])) if T.is_k(x[2]) else "?") for x in mn)
                ops = [parse_operand(t) for t in optoks]
                kinds = tuple({"Register": "R", "Integer": "I", "Memory": "M"}.get(o[2], "?") if o is not None else "?" for o in ops)
                # is `mname <operand kinds>` something the assembler can spell at all (for some operand values)?
                ck = (mname, kinds)
                if ck not in spell:
                    if "?" in kinds:
                        # the operand text is not in the grammar: the instruction still counts as expressible
                        # when the assembler knows the mnemonic with some operand shape
                        spell[ck] = any(any(x["res"] == "Ok" for x in (asmmodel.resolve(F, ev, mname, sh) or [])) for sh in asmmodel.SHAPES)
                    else:
                        spell[ck] = any(x["res"] == "Ok" for x in (asmmodel.resolve(F, ev, mname, kinds) or []))
                if not spell[ck]:
                    expressible = False if expressible is None else expressible
                    continue
                expressible = True
                if any(o is None for o in ops):
                    problems.append("operand text outside the assembler grammar: %s" % ["".join(x if isinstance(x, str) else "{%s}" % x[1] for x in t) for t in optoks])
                    continue
                conds0 = [models.canon(c, pcn) for c in s.conds]
                st0 = symex.St(conds=tuple(conds0))
                res = asmmodel.resolve(F, ev, mname, ops=ops, st=st0)
                if res is None:
                    problems.append("the assembler's resolution is not evaluable")
                    continue
                if any(x["res"] in ("panic", "?") for x in res):
                    problems.append("a path of the assembler neither returns Ok nor Err")
                oks = [(x["insns"], x["conds"]) for x in res if x["res"] == "Ok"]
                # the carve-out of the statement is "32-bit immediates that are non-negative": for those - and for every
                # offset and register - the printed text must be accepted.  Decided at the boundaries of each field.
                refused = _refused_samples(conds0, [c for _i, c in oks], d)
                if refused:
                    problems.append("the assembler refuses the printed text for %s" % refused[0])
                if not oks:
                    # rejected text is allowed only through a range check (e.g. negative immediates)
                    continue
                for insns, conds2 in oks:
                    if not insns:
                        problems.append("accepted but nothing emitted")
                        continue
                    f = insns[0]
                    exp = {"opc": T.K(8, v)}
                    used = _used_fields(d, var)
                    for fld, w in FIELDW.items():
                        if fld in used:
                            exp[fld] = fields.get(fld, ("v", fld, w))
                        else:
                            exp[fld] = T.K(w, 0)
                    if d["kind"] == "lddw":
                        exp["imm"] = ("v", "imm", 32)
                    from props.c03 import eq_substitution
                    fsub = eq_substitution(list(conds0))      # `field == K` facts of the disassembler's path
                    for fld, e in exp.items():
                        g = f.get(fld)
                        e = fsub(e)
                        if g != e and not _same_under(g, e, list(conds2)):
                            problems.append("field %s: reassembled %s, original %s" % (fld, _sh(g), _sh(e)))
                    if d["kind"] == "lddw":
                        # the wide load's second slot: the printed 64-bit value must give back the upper half the
                        # program had there (and nothing else in that slot)
                        if len(insns) != 2:
                            problems.append("%d slots reassembled for a wide load" % len(insns))
                        else:
                            exp2 = {"opc": T.K(8, 0), "dst": T.K(8, 0), "src": T.K(8, 0), "off": T.K(16, 0), "imm": ("v", "next.imm", 32)}
                            for fld, e in exp2.items():
                                g = insns[1].get(fld)
                                if g != e and not _same_under(g, e, list(conds2)):
                                    problems.append("second slot, field %s: reassembled %s, original %s" % (fld, _sh(g), _sh(e)))
                    n_ok += 1
            if expressible:
                rep.ob(ra, key, not problems and n_ok > 0, "opcode %#04x%s: disassemble then assemble" % (v, "" if var is None else " (%s)" % var),
                       expected="same opcode, same used fields, unused fields zero", found=sorted(set(problems))[:3] or "%d accepting paths agree" % n_ok,
                       sample=(v in (0x07, 0x61, 0x18)))
            else:
                rep.ob(rn, key, d["kind"] in ("xadd", "tail_call") and not problems, "opcode %#04x (%s) has no assembler spelling" % (v, d["kind"]),
                       expected="only atomic add and tail call are inexpressible", found=d["kind"])
    # the round trip is about whole programs: the disassembler has to produce one line per instruction (two slots for a
    # wide load) with that instruction's own fields - C15's rules are obligations here too
    import props.c15 as c15
    c15.run(rep, tier)
    rp = rep.rule("R16.p", "consecutive rendered instructions parse as separate instructions (operand-less line followed by a mnemonic starting like a register)", floor=1)
    okp, foundp = asmmodel.register_vs_mnemonic(F, tab)
    rep.ob(rp, "register-vs-mnemonic", okp, "`exit` followed by `rsh64 ...` in the disassembler's output", expected="the register parser backtracks", found=foundp)
    rg = rep.rule("R16.g", "assembler operand grammar facts used by the tokeniser", floor=1)
    lits = set()
    for p, fn in F.fns.items():
        if p.startswith("asm_parser::") and fn.get("thir"):
            for n in walk(fn["thir"]["body"]):
                if n.get("k") == "lit" and isinstance(n.get("v"), str):
                    lits.add(n["v"])
    rep.ob(rg, "literals", {"r", "[", "]", ",", "0x", "-+"} <= lits, "literal tokens of the assembler's grammar",
           expected=["r", "[", "]", ",", "0x", "-+"], found=sorted(x for x in lits if len(x) <= 2))
    rep.trust("rustc front end / typed THIR", "alloc::fmt: `{}` prints decimal, `{:#x}` prints 0x + the two's-complement bit pattern",
              "combine: whitespace handling and the accepted language of the combinators")


def _refused_samples(conds0, ok_conds, d):
    """field valuations (non-negative immediate) on this rendering path for which no accepting path of the assembler has
    all its conditions true; valuations whose conditions cannot be evaluated are skipped"""
    import itertools
    FV = {"dst": ("v", "dst", 8), "src": ("v", "src", 8), "off": ("v", "off", 16), "imm": ("v", "imm", 32), "next.imm": ("v", "next.imm", 32)}
    doms = {"dst": (0, 9, 10), "src": (0, 10), "off": (0, 1, 0x7ffe, 0x7fff, 0x8000, 0x8001, 0xffff),
            "imm": (0, 1, 0x7fffffff), "next.imm": (0, 0x7fffffff, 0x80000000, 0xffffffff)}
    if d["kind"] == "lddw":
        doms["imm"] = (0, 1, 0x7fffffff, 0x80000000, 0xffffffff)
    out = []
    names = list(doms)
    for vals in itertools.product(*[doms[n] for n in names]):
        env = {FV[n]: x for n, x in zip(names, vals)}
        env[("v", "pc", 64)] = 3
        try:
            if not all(T.ceval(c, env) for c in conds0):
                continue
        except ValueError:
            continue
        verdict = False
        unknown = False
        for cs in ok_conds:
            try:
                if all(T.ceval(c, env) for c in cs):
                    verdict = True
                    break
            except ValueError:
                unknown = True
        if not verdict and not unknown:
            out.append(", ".join("%s=%#x" % (n, x) for n, x in zip(names, vals) if n in ("off", "imm")))
            if len(out) > 2:
                break
    return out


def _used_fields(d, var):
    k = d["kind"]
    if k == "alu":
        return {"dst", "src"} if d["src"] == "X" else {"dst", "imm"}
    if k == "neg":
        return {"dst"}
    if k == "end":
        return {"dst", "imm"}
    if k == "lddw":
        return {"dst", "imm"}
    if k == "ldabs":
        return {"imm"}
    if k == "ldind":
        return {"src", "imm"}
    if k in ("ldx", "stx", "xadd"):
        return {"dst", "src", "off"}
    if k == "st":
        return {"dst", "off", "imm"}
    if k == "ja":
        return {"off"}
    if k == "jcond":
        return {"dst", "src", "off"} if d["src"] == "X" else {"dst", "imm", "off"}
    if k == "call":
        return {"imm", "src"}
    return set()


def _sh(t):
    try:
        return T.show(t)
    except Exception:
        return repr(t)[:80]


def _same_under(g, e, conds):
    """equality of field values, allowing lane equality (exact bit provenance)"""
    if not isinstance(g, tuple) or not isinstance(e, tuple):
        return False
    try:
        lg, le = T.lanes(g), T.lanes(e)
        return None not in lg and lg == le
    except Exception:
        return False
