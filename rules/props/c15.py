"""C15 - disassembly reports every instruction's true fields and never panics (on whole
instructions with supported opcodes, wide loads followed by their second half, call kinds 0/1).

Decided here: (R15.a) the opcode->(name, renderer) table covers every supported opcode; (R15.d)
panic inventory of to_insn_vec: every site is proved unable to fire, or lies outside the stated
precondition (D4 rows quoting the clause); (R15.b/e) HLInsn field provenance and one push per
instruction, from the per-opcode summary of the loop body."""
import re

import isa
import models
import symex
import terms as T
from common import Ctx, Row, sites_to_obligations


SHAPE = {  # kind -> operand denotations in the assembler's order
    "neg": ["Rdst"], "end": ["Rdst"], "lddw": ["Rdst", "I64"], "ldabs": ["Iimm"], "ldind": ["Rsrc", "Iimm"],
    "ldx": ["Rdst", "Msrc"], "st": ["Mdst", "Iimm"], "stx": ["Mdst", "Rsrc"], "xadd": ["Mdst", "Rsrc"], "ja": ["Ioff"],
    "call": ["Iimm"], "exit": [], "tail_call": [],
}


def _text_denotes(d, v, flds, exp):
    """None when the rendered text denotes the instruction's fields, else a description of the mismatch"""
    from props.c16 import tokenise, parse_operand
    desc, nm = flds.get("desc"), flds.get("name")
    name = nm[1] if isinstance(nm, tuple) and nm and nm[0] == "lit" else None
    if name is None:
        return "name is not a literal"
    if isinstance(desc, tuple) and desc and desc[0] == "lit":
        pieces = (desc[1],)
    elif isinstance(desc, tuple) and desc and desc[0] == "fmt":
        pieces = desc[1]
    else:
        return "text is not a rendered string"
    mn, optoks = tokenise(pieces)
    mtxt = "".join(x if isinstance(x, str) else "{}" for x in mn)
    k = d["kind"]
    if k == "end":
        if not (mtxt == name + "{}" and mn[-1][2] == ("v", "imm", 32) and mn[-1][1] == ""):
            return "mnemonic %r is not %s<imm>" % (mtxt, name)
    elif mtxt != name:
        return "text starts with %r, name is %r" % (mtxt, name)
    if k == "alu":
        shape = ["Rdst", "Rsrc"] if d["src"] == "X" else ["Rdst", "Iimm"]
    elif k == "jcond":
        shape = ["Rdst", "Rsrc", "Ioff"] if d["src"] == "X" else ["Rdst", "Iimm", "Ioff"]
    else:
        shape = SHAPE.get(k)
    if shape is None:
        return "no operand shape for kind %s" % k
    if len(optoks) != len(shape):
        return "%d operands rendered, %d expected" % (len(optoks), len(shape))
    F = {"dst": ("v", "dst", 8), "src": ("v", "src", 8), "off": ("v", "off", 16), "imm": ("v", "imm", 32)}
    for tok, sh in zip(optoks, shape):
        op = parse_operand(tok)
        if op is None:
            return "operand outside the assembler's grammar"
        kind, vals = op[2], [x for _, x in op[3]]
        if sh[0] == "R":
            if kind != "Register" or vals[0] != T.zext(64, F[sh[1:]]):
                return "operand should be register %s" % sh[1:]
        elif sh[0] == "M":
            if kind != "Memory" or vals[0] != T.zext(64, F[sh[1:]]) or T.trunc(16, vals[1]) != F["off"]:
                return "operand should be [%s+off], offset rendered as %s" % (sh[1:], _sh(vals[1]) if len(vals) > 1 else "?")
        elif sh == "I64":
            if kind != "Integer" or vals[0] != exp["imm"]:
                return "operand should be the merged 64-bit immediate"
        else:
            f = sh[1:]
            w = 16 if f == "off" else 32
            if kind != "Integer" or T.trunc(w, vals[0]) != F[f]:
                return "operand should be %s, rendered as %s" % (f, _sh(vals[0]))
    return None


def run(rep, tier):
    cx = Ctx(rep, "std")
    rep.where_by_opcode = cx.opcode_where(cx.roles.api("disassembler::to_insn_vec"))
    root = cx.roles.api("disassembler::to_insn_vec")
    if root is None:
        return
    F = cx.F
    lm = models.LoopModel(F, root, min_arms=60)
    pcn, pcid = models.loop_counter_name(F, root)
    extra = {}
    p0 = F.fns[root]["thir"]["params"][0]["pat"]
    if p0 and p0["k"] == "bind":
        extra[p0["name"]] = "PROG"
    ra = rep.rule("R15.a", "every supported opcode has a disassembler arm with a name and a rendered text", floor=123)
    rc = rep.rule("R15.c", "the text is the opcode's mnemonic followed by operands that denote the instruction's own fields, in the assembler's operand order", floor=123)
    rb = rep.rule("R15.b", "HLInsn fields are the decoded fields; imm is sext(imm) or the merged wide immediate; one push per instruction", floor=123)
    PC = ("v", "pc", 64)
    owner = lm.ev.owner_of(root)
    for v in sorted(isa.TABLE):
        d = isa.TABLE[v]
        outs = lm.run(v)
        live, dead = [], []
        for _val, s in outs:
            if any(e[0] == "call" and isinstance(e[1], str) and e[1].startswith("core::panicking") for e in s.effects):
                dead.append(s)
                continue
            live.append(s)
        # a supported opcode is disassembled for every value of its other fields: no path of its arm may end in the
        # panicking catch-all (a match guard on the immediate, say); only call kinds other than 0 / 1 are outside the
        # property's precondition
        from props.c05 import incompatible
        bad_dead = []
        for s in dead:
            cs = [models.canon(c, pcn, extra) for c in s.conds]
            if d["kind"] == "call" and incompatible(cs, [T.cmp("eq", 8, ("v", "src", 8), T.K(8, 0))]) and incompatible(cs, [T.cmp("eq", 8, ("v", "src", 8), T.K(8, 1))]):
                continue
            bad_dead.append([T.show(c)[:60] for c in cs][-2:])
        ok = bool(live) and not bad_dead
        rep.ob(ra, "opc=%#04x" % v, ok, "disassembler arm for supported opcode %#04x" % v,
               expected="a non-panicking arm for every value of the other fields", found="%d paths, %d live%s" % (len(outs), len(live), ("; panics under %s" % bad_dead[:2]) if bad_dead else ""))
        if not ok:
            continue
        good = True
        why = ""
        text_bad = []
        for s in live:
            pushes = [e for e in s.effects if e[0] == "call" and isinstance(e[1], str) and e[1].endswith("Vec<T, A>::push")]
            if len(pushes) != 1:
                good, why = False, "%d pushes" % len(pushes)
                break
            hl = pushes[0][2][1]
            if not (isinstance(hl, tuple) and hl and hl[0] == "struct"):
                good, why = False, "pushed value is not an HLInsn literal"
                break
            flds = {k: models.canon(x, pcn, extra) for k, x in hl[3]}
            exp = {"opc": T.K(8, v), "dst": ("v", "dst", 8), "src": ("v", "src", 8), "off": ("v", "off", 16)}
            if d["kind"] == "lddw":
                exp["imm"] = T.op("or", 64, T.zext(64, ("v", "imm", 32)),
                                  T.shift("shl", 64, T.sext(64, ("v", "next.imm", 32)), T.K(64, 32)))
                exp_pc = T.op("add", 64, PC, T.K(64, 2))
            else:
                exp["imm"] = T.sext(64, ("v", "imm", 32))
                exp_pc = T.op("add", 64, PC, T.K(64, 1))
            for k, e in exp.items():
                if flds.get(k) != e:
                    good, why = False, "field %s = %s, expected %s" % (k, _sh(flds.get(k)), T.show(e))
            pcv = s.env.get((owner, pcid))
            if pcv is None or models.canon(pcv, pcn, extra) != exp_pc:
                good, why = False, "pc advance %s, expected %s" % (_sh(models.canon(pcv, pcn, extra)) if pcv else None, T.show(exp_pc))
            nm = flds.get("name")
            if not nm:
                good, why = False, "no name"
            tw = _text_denotes(d, v, flds, exp)
            if tw:
                text_bad.append(tw)
        rep.ob(rb, "opc=%#04x" % v, good, "HLInsn produced for opcode %#04x" % v, expected="decoded fields, one push, pc advance",
               found=why or "as expected", sample=(v in (0x18, 0x07)))

        rep.ob(rc, "opc=%#04x" % v, not text_bad, "rendered text of opcode %#04x" % v,
               expected="mnemonic followed by the instruction's own operands in the assembler's syntax", found=sorted(set(text_bad))[:3] or "denotes the fields")

    rd = rep.rule("R15.d", "panic inventory of to_insn_vec under the stated precondition", floor=15)
    inv = cx.inventory()
    sites, reach = inv.run([root])
    rep.analysed(*sorted(reach))
    R = re.escape(root)
    from common import loop_reach
    in_loop = loop_reach(F, lm.block)       # what runs per instruction; the rest of the reachable set runs before / after the loop
    rows = [
        Row("len-multiple", r"^disassembler::", r"^panic!(panic|assert)@$", "D4", "precondition: the input consists of whole instructions "
            "(that this is the only panic outside the per-instruction loop, taken exactly when 8 does not divide the length, is R15.e)", cites=("R15.e",),
            pred=lambda site: site.fn == root or (site.fn in reach and site.fn not in in_loop)),
        Row("scan-ends-at-end", R, r"^panic!debug_assert(_eq)?@\[.*Mul\(mut<usize>,8\).*(<>|==|<=).*\[T\]::len\(&\*arg1<&\[u8\]>\).*\]$", "D4",
            "precondition: whole instructions and wide loads followed by their second half - the scan advances by one slot "
            "(two for a wide load) from 0 and so ends exactly at the end of the input"),
        Row("unknown-opcode", R, r"^panic!panic@u8!in\[\d+ values\]$", "D4", "precondition: supported opcodes only"),
        Row("call-kind", R, r"^panic!panic@u8=133(;.*)?$", "D4", "precondition: call kinds 0/1 only (that the arm of the call opcode panics for no "
            "instruction whose source field is 0 or 1, however the kind is told apart, is R15.a)", cites=("R15.a",)),
        Row("fetch", R, r"^precond:ebpf::get_insn<-", "D4",
            "precondition: whole instructions (8 | len, with the loop guard pc*8 < len) and wide loads followed by their second half"),
    ]
    stats = sites_to_obligations(rep, rd, sites, rows)
    rep.info("site_stats", stats)
    # R15.e: outside the per-instruction loop the function panics exactly when the length is not a multiple of 8
    re_ = rep.rule("R15.e", "outside the per-instruction loop, to_insn_vec panics exactly when the length is not a multiple of the slot size", floor=1)
    eve = symex.Evaluator(F)
    PROG = ("obj", "PROG", "&[u8]")
    outs = eve.run_fn(root, [PROG]) or []
    ln = ("call", "len", (PROG,), 64)
    notmult = T.cmp("ne", 64, T.op("urem", 64, ln, T.K(64, 8)), T.K(64, 0))
    pan = []
    accepted = [[T.show(notmult)], [T.show(T.lnot(T.cmp("eq", 64, T.op("urem", 64, ln, T.K(64, 8)), T.K(64, 0))))]]
    for v, st in outs:
        if not st.feasible:
            continue
        if (st.exit is not None and st.exit[0] == "panic") or any(e[0] == "call" and isinstance(e[1], str) and e[1].startswith("core::panicking") for e in st.effects):
            import vmodel
            cs = sorted(T.show(c) for c in vmodel.simplify_atoms(models.canon(c, pcn, extra) for c in st.conds))
            if models._assertion_failure(st) and cs not in accepted:
                continue        # other assertions are sites of the inventory (R15.d); an assertion that states the
                                # length condition itself is the prelude panic written as assert!
            pan.append(cs)
    oke = len(pan) == 1 and pan[0] in accepted
    rep.ob(re_, "prelude", oke, "panicking paths of to_insn_vec outside the loop", expected=[[T.show(notmult)]], found=pan[:3])
    rep.trust("rustc front end / MIR / const-eval", "alloc::fmt formatting of integers", "byteorder decoding")
    rep.assume("rendered text vs assembler syntax is decided under C16")


def _sh(t):
    try:
        return T.show(t)
    except Exception:
        return repr(t)[:80]
