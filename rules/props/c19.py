"""C19 - the built-in helpers compute their documented functions and never panic for arguments
that respect their pointer preconditions.

Decided: (R19.a) panic inventory of every public helper; (R19.b) closed forms: gather_bytes is the
documented lane expression, sqrti is `(x as f64).sqrt() as u64`, memfrob's loop body XORs exactly
`*(ptr + i)` with 0x2a for i in 0..len and returns 0, strcmp returns all-ones on a null pointer.
Not decided (no sound static argument in reach): exactness of the f64 square root below 2^52, the
byte count of bpf_trace_printf, the range of rand."""
import re

import symex
import terms as T
from common import Ctx, Row, sites_to_obligations
from facts import walk, strip, callee_path

HELPERS = ["gather_bytes", "memfrob", "strcmp", "sqrti", "bpf_trace_printf", "rand", "bpf_time_getns"]


def run(rep, tier):
    cx = Ctx(rep, "std")
    F = cx.F
    roots = ["helpers::" + h for h in HELPERS if ("helpers::" + h) in F.fns]
    rep.ob("anchor", "helpers", len(roots) >= 6, "public helpers present", expected=HELPERS, found=roots)
    ra = rep.rule("R19.a", "panic inventory of the helpers", floor=15)
    inv = cx.inventory()
    sites, reach = inv.run(roots)
    rep.analysed(*sorted(reach))
    rows = [
        Row("ptr-ubcheck", r"^helpers::(memfrob|strcmp)$", r"^NullPointerDereference\(\)$", "D4",
            "pointer precondition: the helper's pointer arguments address readable (memfrob: writable) memory"),
        Row("ptr-walk", r"^helpers::(memfrob|strcmp)$", r"^Overflow\(Add\)\((arg1<u64>|mut<u64>),", "D4",
            "pointer precondition: ptr .. ptr+len (resp. the NUL-terminated string) lies in the address space, so the address does not wrap"),
        Row("stdout", r"^helpers::bpf_trace_printf$", r"^stdout:", "A",
            "println! panics only when stdout cannot be written: an environment failure, not an argument value"),
        Row("printf-count", r"^helpers::bpf_trace_printf", r"^Overflow\(Add\)\(", "A",
            "each addend is at most 17 (hex digits of a u64 + 1) and the constant is 30: the sum is far below 2^64; "
            "the f64 digit count itself is not decided (DESIGN section 7)"),
        Row("tls", r"^helpers::rand", r"^tls-with:", "A",
            "LocalKey::with panics only during thread teardown"),
        Row("wyrand-mul", r"^helpers::rand::\{closure#0\}$", r"^Overflow\(Mul\)\(From<u64 for u128>::from", "A",
            "the product of two u64 values widened to u128 cannot overflow u128"),
        Row("rand-span", r"^helpers::rand$", r"^Overflow\(Add\)\((Sub\(arg2<u64>,arg1<u64>\)\.0,1|Rem\()", "D1",
            "guarded by `span != u64::MAX` (span + 1) and by `n % (span+1) <= span = max - min` (… + min <= max)"),
    ]
    stats = sites_to_obligations(rep, ra, sites, rows)
    rep.info("site_stats", stats)

    rb = rep.rule("R19.b", "closed forms of gather_bytes, sqrti, memfrob, strcmp(null)", floor=4)
    ev = symex.Evaluator(F)
    a = [T.V("a%d" % i, 64) for i in range(1, 6)]
    # gather_bytes
    outs = ev.run_fn("helpers::gather_bytes", list(a)) or []
    want = T.K(64, 0)
    for i, sh in enumerate((32, 24, 16, 8, 0)):
        want = T.op("or", 64, want, T.shift("shl", 64, a[i], T.K(64, sh)))
    rep.ob(rb, "gather_bytes", len(outs) == 1 and outs[0][0] == want and not outs[0][1].unrec,
           "gather_bytes(a1..a5)", expected=T.show(want), found=[_sh(v) for v, _ in outs])
    # sqrti: the body is literally cast -> sqrt -> cast
    fn = F.fns.get("helpers::sqrti")
    ok = False
    if fn:
        body = strip(fn["thir"]["body"])
        calls = [n for n in walk(body) if n.get("k") == "call"]
        casts = [n for n in walk(body) if n.get("k") == "cast"]
        ok = (len(calls) == 1 and (callee_path(calls[0]) or "").endswith("f64>::sqrt") and
              sorted((c["from"], c["ty"]) for c in casts) == [("f64", "u64"), ("u64", "f64")] and
              strip(body.get("tail") or body).get("k") == "cast")
    rep.ob(rb, "sqrti", ok, "sqrti is `(arg1 as f64).sqrt() as u64`", expected="u64->f64, sqrt, f64->u64", found=ok)
    # strcmp: null pointer -> all ones
    outs = ev.run_fn("helpers::strcmp", list(a)) or []
    nullc = T.lor(T.cmp("eq", 64, a[0], T.K(64, 0)), T.cmp("eq", 64, a[1], T.K(64, 0)))
    hit = [(v, s) for v, s in outs if any(c == nullc for c in s.conds)]
    rep.ob(rb, "strcmp-null", len(hit) == 1 and hit[0][0] == T.K(64, (1 << 64) - 1) and not hit[0][1].effects,
           "strcmp returns all-ones when either pointer is null, before touching memory",
           expected="path cond `a1 == 0 || a2 == 0` -> 0xffff_ffff_ffff_ffff, no effects", found=[(_sh(v), [_sh(c) for c in s.conds][:2]) for v, s in hit][:2])
    # memfrob: loop `for i in 0..len { *(ptr+i) ^= 0x2a }`, result 0
    fn = F.fns.get("helpers::memfrob")
    ok, why = _memfrob_shape(F, fn)
    rep.ob(rb, "memfrob", ok, "memfrob XORs exactly the bytes ptr+i, i in 0..len, with 0x2a and returns 0",
           expected="for i in 0..len: *(ptr+i as *mut u8) ^= 42; 0", found=why)
    rep.trust("rustc front end / MIR", "f64 arithmetic of the platform (sqrt, log)", "std thread-locals and hashing used by rand")
    rep.assume("pointer preconditions of memfrob / strcmp as documented")


def _sh(t):
    try:
        return T.show(t)
    except Exception:
        return repr(t)[:120]


def _memfrob_shape(F, fn):
    if not fn:
        return False, "missing"
    th = fn["thir"]
    names = [p["pat"]["name"] for p in th["params"] if p["pat"] and p["pat"]["k"] == "bind"]
    if len(names) < 2:
        return False, "parameters"
    ptr, ln = names[0], names[1]
    body = strip(th["body"])
    # range 0..len feeding the loop
    ranges = [n for n in walk(body) if n.get("k") == "adt" and n["path"].endswith("ops::Range")]
    if len(ranges) != 1:
        return False, "%d ranges" % len(ranges)
    r = ranges[0]
    s, e = strip(r["fields"]["start"]), strip(r["fields"]["end"])
    if not (s.get("k") == "lit" and s.get("v") == 0 and e.get("k") == "var" and e["name"] == ln):
        return False, "range is not 0..len"
    ops = [n for n in walk(body) if n.get("k") == "assignop"]
    if len(ops) != 1 or ops[0]["op"] != "BitXorAssign":
        return False, "%d compound assignments" % len(ops)
    o = ops[0]
    rhs = strip(o["r"])
    if not (rhs.get("k") == "lit" and rhs.get("v") == 0x2a):
        return False, "xor constant"
    lhs = strip(o["l"])
    if lhs.get("k") != "deref" or lhs.get("ty") != "u8":
        return False, "target is not a u8 dereference"
    # pointer = (ptr + i) as *mut u8 where i is the loop variable
    adds = [n for n in walk(body) if n.get("k") == "bin" and n["op"] == "Add"]
    if len(adds) != 1:
        return False, "%d additions" % len(adds)
    l, r2 = strip(adds[0]["l"]), strip(adds[0]["r"])
    if not (l.get("k") == "var" and l["name"] == ptr and r2.get("k") == "var" and r2["name"] not in (ptr, ln)):
        return False, "address is not ptr + i"
    tail = strip(body.get("tail")) if body.get("k") == "block" else None
    if not (tail and tail.get("k") == "lit" and tail.get("v") == 0):
        return False, "result is not 0"
    stores = [n for n in walk(body) if n.get("k") in ("assign",) ]
    return True, "shape matches"
