"""C19 - the built-in helpers compute their documented functions and never panic for arguments
that respect their pointer preconditions.

Decided: (R19.a) panic inventory of every public helper; (R19.b) closed forms: gather_bytes is the
documented lane expression, sqrti is `(x as f64).sqrt() as u64`, memfrob's loop body XORs exactly
`*(ptr + i)` with 0x2a for i in 0..len and returns 0, strcmp returns all-ones on a null pointer.
Not decided (no sound static argument in reach): exactness of the f64 square root below 2^52, the
byte count of bpf_trace_printf, the range of rand."""
import re

import symex
import terms as T
from common import Ctx, Row, sites_to_obligations
from facts import walk, strip, callee_path

HELPERS = ["gather_bytes", "memfrob", "strcmp", "sqrti", "bpf_trace_printf", "rand", "bpf_time_getns"]


def run(rep, tier):
    cx = Ctx(rep, "std")
    F = cx.F
    roots = ["helpers::" + h for h in HELPERS if ("helpers::" + h) in F.fns]
    rep.ob("anchor", "helpers", len(roots) >= 6, "public helpers present", expected=HELPERS, found=roots)
    ra = rep.rule("R19.a", "panic inventory of the helpers", floor=8)
    inv = cx.inventory()
    sites, reach = inv.run(roots)
    rep.analysed(*sorted(reach))
    from dispatch import thir_reach
    ptr_helpers = thir_reach(F, ["helpers::memfrob", "helpers::strcmp"])      # the two helpers that take pointers, and private functions they read through
    rows = [
        Row("ptr-ubcheck", r"^helpers::\w+$", r"^NullPointerDereference\(\)$", "D4",
            "pointer precondition: the helper's pointer arguments address readable (memfrob: writable) memory",
            pred=lambda site: site.fn in ptr_helpers),
        Row("ptr-walk", r"^helpers::(memfrob|strcmp)$", r"^Overflow\(Add\)\((arg1<u64>|mut<u64>),", "D4",
            "pointer precondition: ptr .. ptr+len (resp. the NUL-terminated string) lies in the address space, so the address does not wrap"),
        Row("stdout", r"^helpers::bpf_trace_printf$", r"^stdout:", "A",
            "println! panics only when stdout cannot be written: an environment failure, not an argument value"),
        Row("printf-count", r"^helpers::bpf_trace_printf", r"^Overflow\(Add\)\(", "A",
            "each addend is at most 17 (hex digits of a u64 + 1) and the constant is 30: the sum is far below 2^64; "
            "the f64 digit count itself is not decided (DESIGN section 7)"),
        Row("tls", r"^helpers::rand", r"^tls-with:", "A",
            "LocalKey::with panics only during thread teardown"),
        Row("wyrand-mul", r"^helpers::rand::\{closure#0\}$", r"^Overflow\(Mul\)\(From<u64 for u128>::from", "A",
            "the product of two u64 values widened to u128 cannot overflow u128"),
        Row("rand-span", r"^helpers::rand$", r"^Overflow\(Add\)\((Sub\(arg2<u64>,arg1<u64>\)\.0,1|Rem\()", "D1",
            "guarded by `span != u64::MAX` (span + 1) and by `n % (span+1) <= span = max - min` (… + min <= max)"),
    ]
    stats = sites_to_obligations(rep, ra, sites, rows)
    rep.info("site_stats", stats)

    rb = rep.rule("R19.b", "closed forms of gather_bytes, sqrti, memfrob, strcmp, rand's range reduction", floor=7)
    ev = symex.Evaluator(F)
    a = [T.V("a%d" % i, 64) for i in range(1, 6)]
    # gather_bytes
    outs = ev.run_fn("helpers::gather_bytes", list(a)) or []
    want = T.K(64, 0)
    for i, sh in enumerate((32, 24, 16, 8, 0)):
        want = T.op("or", 64, want, T.shift("shl", 64, a[i], T.K(64, sh)))
    rep.ob(rb, "gather_bytes", len(outs) == 1 and outs[0][0] == want and not outs[0][1].unrec,
           "gather_bytes(a1..a5)", expected=T.show(want), found=[_sh(v) for v, _ in outs])
    # sqrti: the body is literally cast -> sqrt -> cast
    fn = F.fns.get("helpers::sqrti")
    ok = False
    if fn:
        body = strip(fn["thir"]["body"])
        calls = [n for n in walk(body) if n.get("k") == "call"]
        casts = [n for n in walk(body) if n.get("k") == "cast"]
        ok = (len(calls) == 1 and (callee_path(calls[0]) or "").endswith("f64>::sqrt") and
              sorted((c["from"], c["ty"]) for c in casts) == [("f64", "u64"), ("u64", "f64")] and
              strip(body.get("tail") or body).get("k") == "cast")
    rep.ob(rb, "sqrti", ok, "sqrti is `(arg1 as f64).sqrt() as u64`", expected="u64->f64, sqrt, f64->u64", found=ok)
    # strcmp: null pointer -> all ones
    outs = ev.run_fn("helpers::strcmp", list(a)) or []
    # every combination of (a1 null?, a2 null?): a null pointer on either side gives all-ones before memory is touched,
    # two non-null pointers reach the scan - however the test is split into guards
    Z = T.K(64, 0)

    def null_truth(c, env):
        """truth of a condition that only speaks about the two pointers being null, under env = (a1 null, a2 null);
        None for any other condition"""
        if not isinstance(c, tuple) or not c:
            return None
        if c[0] == "cmp" and c[1] in ("eq", "ne") and Z in (c[3], c[4]):
            x = c[4] if c[3] == Z else c[3]
            if x in (a[0], a[1]):
                v = env[0] if x == a[0] else env[1]
                return v if c[1] == "eq" else (not v)
            return None
        if c[0] in ("lor", "land"):
            l, r = null_truth(c[1], env), null_truth(c[2], env)
            if l is None or r is None:
                return None
            return (l or r) if c[0] == "lor" else (l and r)
        if c[0] == "not":
            x = null_truth(c[1], env)
            return None if x is None else (not x)
        return None

    def covers(st, env):
        return all(null_truth(c, env) is not False for c in st.conds)
    ALL1 = T.K(64, (1 << 64) - 1)
    envs = [(p_, q_) for p_ in (False, True) for q_ in (False, True)]
    nullp = [(v, s) for v, s in outs if s.feasible and not covers(s, (False, False))]
    live = [(v, st) for v, st in outs if st.feasible and covers(st, (False, False))]
    null_ok = bool(nullp) and all(v == ALL1 and not s.effects for v, s in nullp) \
        and all(any(covers(s, e) for _v, s in nullp) for e in envs if e != (False, False)) \
        and not any(covers(st, e) for _v, st in live for e in envs if e != (False, False))
    rep.ob(rb, "strcmp-null", null_ok,
           "strcmp returns all-ones when either pointer is null, before touching memory",
           expected="a1 == 0 or a2 == 0 -> 0xffff_ffff_ffff_ffff, no effects; the scan only with both non-null", found=[(_sh(v), [_sh(c) for c in s.conds][:2]) for v, s in nullp][:3])
    # strcmp: result after the scan, and the scan itself
    forms = set()
    for v, st in live:
        cs = [c for c in st.conds if null_truth(c, (False, False)) is None and not (isinstance(c, tuple) and c[0] == "land")]
        if len(cs) == 1 and cs[0][0] == "cmp" and isinstance(v, tuple) and v[0] == "zext" and v[2][0] == "op" and v[2][1] == "sub":
            hi, lo = v[2][3], v[2][4]
            c = cs[0]
            # a >= b -> a - b ; a < b -> b - a   (an absolute difference, operands are the two scanned bytes)
            if (c[1] == "ule" and c[3] == lo and c[4] == hi) or (c[1] == "uge" and c[3] == hi and c[4] == lo):
                forms.add("ge")
            elif (c[1] == "ult" and c[3] == lo and c[4] == hi) or (c[1] == "ugt" and c[3] == hi and c[4] == lo):
                forms.add("lt")
    rep.ob(rb, "strcmp-result", len(live) == 2 and forms == {"ge", "lt"}, "strcmp returns the absolute difference of the two bytes the scan stopped at",
           expected="x >= y -> (x - y) as u64; x < y -> (y - x) as u64", found=[(_sh(v), [_sh(c) for c in st.conds][-1:]) for v, st in live][:3])
    ok, why = _strcmp_scan(F, ev)
    rep.ob(rb, "strcmp-scan", ok, "strcmp's scan starts at the two pointers, advances both by one byte per step and stops at the first difference or NUL",
           expected="x0 = *a1, y0 = *a2; while x == y && x != 0 && y != 0 { a += 1; b += 1; x = *a; y = *b }", found=why)
    # rand: the reduction into [min, max]
    evr = symex.Evaluator(F, opaque_calls=lambda q: "LocalKey" in q)
    outs = evr.run_fn("helpers::rand", list(a)) or []
    good, found = len(outs) == 3, []
    for v, st in outs:
        cs = set(st.conds)
        span = T.op("sub", 64, a[1], a[0])
        found.append(([_sh(c) for c in st.conds], _sh(v)[:60]))
        if T.cmp("ult", 64, a[0], a[1]) in cs and T.cmp("ne", 64, T.K(64, (1 << 64) - 1), span) in cs:
            ok1 = isinstance(v, tuple) and v[0] == "op" and v[1] == "add" and a[0] in (v[3], v[4])
            other = (v[4] if v[3] == a[0] else v[3]) if ok1 else None
            ok1 = ok1 and isinstance(other, tuple) and other[0] == "op" and other[1] == "urem" and other[4] == T.op("add", 64, span, T.K(64, 1)) \
                and "a1" not in repr(other[3]) and "a2" not in repr(other[3])
            good = good and ok1
    rep.ob(rb, "rand-range", good, "rand(min, max) with min < max is n % (max - min + 1) + min (so min <= result <= max), or any u64 when the span is the whole range",
           expected="min < max && max - min != u64::MAX -> n % (max - min + 1) + min", found=found[:3])
    # memfrob: loop `for i in 0..len { *(ptr+i) ^= 0x2a }`, result 0
    fn = F.fns.get("helpers::memfrob")
    ok, why = _memfrob_shape(F, fn)
    rep.ob(rb, "memfrob", ok, "memfrob XORs exactly the bytes ptr+i, i in 0..len, with 0x2a and returns 0",
           expected="for i in 0..len: *(ptr+i as *mut u8) ^= 42; 0", found=why)
    # R19.c bpf_trace_printf: the returned count is the length of the fixed text plus the exact number of
    # hex digits of each printed argument (an integer computation; a floating-point logarithm is not exact)
    rc = rep.rule("R19.c", "bpf_trace_printf returns len(fixed text) + exact hex-digit count of each printed argument", floor=2)
    okc, foundc = _trace_printf_count(F)
    for kk, (okk, ff) in foundc.items():
        rep.ob(rc, kk, okk, "bpf_trace_printf: %s" % kk, expected={"digits": "1 for 0, else ilog(16)+1 (or (64 - leading_zeros + 3) / 4)", "fixed-text": "the println! template with each hole replaced by `0x`, plus the newline"}[kk], found=ff)

    rep.trust("rustc front end / MIR", "f64 arithmetic of the platform (sqrt, log)", "std thread-locals and hashing used by rand")
    rep.assume("pointer preconditions of memfrob / strcmp as documented")


def _sh(t):
    try:
        return T.show(t)
    except Exception:
        return repr(t)[:120]


def _flat_sum(t, consts, terms):
    if isinstance(t, tuple) and t and t[0] == "op" and t[1] == "add":
        _flat_sum(t[3], consts, terms)
        _flat_sum(t[4], consts, terms)
    elif T.is_k(t):
        consts.append(t[2])
    else:
        terms.append(t)


def _digit_term(t, x):
    """(constant contribution, True) when t is an exact count-of-hex-digits-minus-constant term of x"""
    txt = _sh(t)
    xs = _re_escape(_sh(x))
    import re as _re
    if _re.fullmatch(r"zext64\(core::num::<impl u64>::ilog\(%s, 0x10\)\)" % xs, txt) or \
            _re.fullmatch(r"udiv64\(zext64\(core::num::<impl u64>::ilog2\(%s\)\), 4\)" % xs, txt) or \
            _re.fullmatch(r"zext64\(udiv32\(core::num::<impl u64>::ilog2\(%s\), 4\)\)" % xs, txt):
        return 1          # digits = 1 + term
    if _re.fullmatch(r"udiv64\(sub64\(0x43, zext64\(core::num::<impl u64>::leading_zeros\(%s\)\)\), 4\)" % xs, txt) or \
            _re.fullmatch(r"udiv64\(add64\(0x43, neg64\(zext64\(core::num::<impl u64>::leading_zeros\(%s\)\)\)\), 4\)" % xs, txt):
        return 0          # digits = term
    return None


def _re_escape(s_):
    import re as _re
    return _re.escape(s_)


def _trace_printf_count(F):
    """the value bpf_trace_printf returns, by evaluating the function: on every path it is the length of the fixed text
    (the println! template with each hole replaced by `0x`, plus the newline) plus, for each printed argument, 1 when the
    argument is 0 and an exact integer count of hexadecimal digits otherwise - wherever that count is computed (closure,
    helper function, inline)"""
    import re as _re
    path = "helpers::bpf_trace_printf"
    fn = F.fns.get(path)
    out = {"digits": (False, "missing"), "fixed-text": (False, "missing")}
    if not fn or not fn.get("thir"):
        return False, out
    byc = _printed_line_length(F, fn, path)
    if byc is not None:
        return True, {"digits": (True, byc), "fixed-text": (True, byc)}
    tmpl = None
    for n in walk(fn["thir"]["body"]):
        if n.get("k") == "call" and n.get("snip") and "println" in (n.get("snip") or "")[:12]:
            m = symex._FMT_RE.match(n["snip"])
            if m:
                tmpl = m.group(1)
    want = (_re.sub(r"\{[^{}]*:#x\}", "0x", tmpl) + "\n") if tmpl is not None else None
    holes = _re.findall(r"\{(\w*):#x\}", tmpl or "")
    pnames = [q["pat"]["name"] if q["pat"] and q["pat"].get("k") == "bind" else None for q in fn["thir"]["params"]]
    args = [T.V("a%d" % (k + 1), 64) for k in range(len(pnames))]
    printed = [args[pnames.index(h)] for h in holes if h in pnames]
    if want is None or "{" in want or len(printed) != len(holes) or not printed:
        out["fixed-text"] = (False, {"template": tmpl})
        return False, out
    fixed = len(want.encode())
    # the function(s) / closure(s) that count the digits of one argument
    helpers_ = [p for p in F.fns if (p.startswith(path + "::{closure") or (p.startswith("helpers::") and p != path and F.fns[p].get("thir")
                and len(F.fns[p]["thir"]["params"]) == 1 and F.fns[p]["thir"]["params"][0].get("ty") == "u64"
                and any(callee_path(c) == p for c in walk(fn["thir"]["body"]) if c.get("k") == "call"))) and F.fns[p].get("thir")]
    uses_float = any(("'f64'" in repr(F.fns[p]["thir"]["body"]) or "'f32'" in repr(F.fns[p]["thir"]["body"])) for p in helpers_ + [path])
    ev = symex.Evaluator(F, opaque_calls=lambda q: q.endswith("_print") or "std::io" in q)
    loop_helper = None
    for h in helpers_:
        if any(n.get("k") == "loop" for n in walk(F.fns[h]["thir"]["body"])):
            lp = _digit_loop(F, symex.Evaluator(F), h)
            if lp is True:
                loop_helper = h
            else:
                out["digits"] = (False, {"loop": lp})
                out["fixed-text"] = (True, {"template": tmpl, "length": fixed})
                return False, out
    if loop_helper:
        ev = symex.Evaluator(F, opaque_calls=lambda q: q == loop_helper or q.endswith("_print") or "std::io" in q)
    outs = [(v, s) for v, s in (ev.run_fn(path, list(args)) or []) if s.feasible and not (s.exit is not None and s.exit[0] == "panic")]
    probs, fixed_seen = [], set()
    if uses_float:
        probs.append("floating point in the digit count")
    if not outs:
        probs.append("the function is not evaluable")
    for v, s in outs:
        consts, terms = [], []
        _flat_sum(v, consts, terms)
        c = sum(consts) & ((1 << 64) - 1)
        left = list(terms)
        for a in printed:
            zero = T.cmp("eq", 64, a, T.K(64, 0)) in s.conds or T.cmp("eq", 64, T.K(64, 0), a) in s.conds
            hit = None
            for t in left:
                if loop_helper and isinstance(t, tuple) and t[0] == "call" and t[1] == loop_helper and t[2] == (a,):
                    hit = (t, 0)
                    break
                k = _digit_term(t, a)
                if k is not None:
                    hit = (t, k)
                    break
            if hit:
                left.remove(hit[0])
                c -= hit[1]
            elif zero:
                c -= 1
            else:
                probs.append("no exact digit count for %s in %s" % (_sh(a), _sh(v)[:120]))
        if left:
            probs.append("extra summand %s" % _sh(left[0])[:100])
        fixed_seen.add(c)
    okd = not probs
    out["digits"] = (okd, sorted(set(probs))[:3] or ("per argument: 1 for 0, else an integer base-16 logarithm + 1 (%d paths)" % len(outs)))
    okt = fixed_seen == {fixed}
    out["fixed-text"] = (okt, {"template": tmpl, "length of the fixed text": fixed, "constant in the returned sum": sorted(fixed_seen)})
    return okd and okt, out


def _printed_line_length(F, fn, path):
    """the by-construction idiom: `let line = format!(<template whose holes are {argN:#x}>); print!("{line}"); line.len() as u64`.
    The count returned is the length of the very String that is printed, so no digit arithmetic is needed.  Accepted only
    when the line is bound once, never mutated, written by exactly one `print!` whose template is the single hole (no
    extra text, no newline of its own) and the function's value on its only path is String::len of that binding.
    None when the function is not of this form (the general evaluation then decides)."""
    body = strip(fn["thir"]["body"])
    if body.get("k") != "block" or not body.get("tail"):
        return None
    lets = [st for st in body["stmts"] if st["k"] == "let"]
    exprs = [st for st in body["stmts"] if st["k"] != "let"]
    if len(lets) != 1 or len(exprs) != 1 or body["stmts"][0] is not lets[0]:
        return None
    let = lets[0]
    if let["pat"].get("k") != "bind" or let["pat"].get("ty") != "std::string::String" or "Not)" not in (let["pat"].get("mode") or ""):
        return None
    lid, lname = let["pat"]["id"], let["pat"].get("name")
    init = let.get("init") or {}
    snip = (strip(init).get("snip") or init.get("snip") or "")
    m = symex._FMT_RE.match(snip)
    if not (m and snip.lstrip().startswith("format!")):
        return None
    tmpl = m.group(1)
    pnames = [q["pat"]["name"] for q in fn["thir"]["params"] if q["pat"] and q["pat"].get("k") == "bind"]
    holes = re.findall(r"\{([^{}]*)\}", tmpl)
    if not holes or any(not re.fullmatch(r"(\w+):#x", h) or h.split(":")[0] not in pnames for h in holes):
        return None
    if any(n.get("k") in ("return", "loop", "if", "match", "assign", "assignop") for n in walk(body) ):
        return None
    uses = [n for n in walk(body) if n.get("k") == "var" and n.get("id") == lid]
    prints = [n for n in walk(body) if n.get("k") == "call" and (callee_path(n) or "").endswith("io::_print")]
    if len(prints) != 1 or len(uses) != 2:
        return None
    pm = re.match(r'^\s*(?:\w+::)*print!\s*\(\s*"((?:[^"\\\\]|\\\\.)*)"\s*(?:,\s*(\w+)\s*)?\)\s*$', prints[0].get("snip") or "", re.S)
    if not pm or not ((pm.group(1) == "{%s}" % lname and pm.group(2) is None) or (pm.group(1) == "{}" and pm.group(2) == lname)):
        return None
    if not any(n is u for u in uses for n in walk(prints[0])):
        return None
    tail = strip(body["tail"])
    if tail.get("k") == "cast" and tail.get("ty") == "u64":
        tail = strip(tail["e"])
    if not (tail.get("k") == "call" and (callee_path(tail) or "").endswith("string::String::len")):
        return None
    if not any(n is u for u in uses for n in walk(tail)):
        return None
    return {"form": "returns String::len of the formatted line that the single print! writes", "template": tmpl, "holes": holes}


def _digit_loop(F, ev, path):
    """True when the closure is `let mut d = 1; while x >= 16 { x /= 16 (or x >>= 4); d += 1 }; d`;
    otherwise a description of what differs (None when there is no loop at all)"""
    fn = F.fns[path]
    body = fn["thir"]["body"]
    loops = [n for n in walk(body) if n.get("k") == "loop"]
    if len(loops) != 1:
        return None
    lb = strip(loops[0]["body"])
    if lb.get("k") != "if":
        return "loop is not a `while`"
    owner = ev.owner_of(path)
    # the two variables: the closure parameter and the counter
    params = [q for q in fn["thir"]["params"] if q["pat"] and q["pat"].get("k") == "bind"]
    lets = [st for n in walk(body) if n.get("k") == "block" for st in n["stmts"] if st["k"] == "let" and st["pat"].get("k") == "bind"]
    if len(params) != 1 or len(lets) != 1:
        return "expected one parameter and one counter"
    xid, did = params[0]["pat"]["id"], lets[0]["pat"]["id"]
    init = strip(lets[0]["init"]) if lets[0].get("init") else {}
    if not (init.get("k") == "lit" and init.get("v") == 1):
        return "counter does not start at 1"
    X, D = T.V("X", 64), T.V("D", 64)
    st = symex.St().set((owner, xid), X).set((owner, did), D)
    conds = ev.ev_cond(lb["c"], st, path)
    if len(conds) != 1 or conds[0][0] not in (T.cmp("ule", 64, T.K(64, 16), X), T.cmp("ult", 64, T.K(64, 15), X)):
        return "loop guard %s (expected x >= 16)" % [_sh(c) for c, _ in conds]
    outs = [(v, s2) for v, s2 in ev.ev(lb["t"] if "t" in lb else lb.get("then"), st, path) if s2.feasible]
    if len(outs) != 1:
        return "%d paths through the loop body" % len(outs)
    s2 = outs[0][1]
    nx, nd = s2.env.get((owner, xid)), s2.env.get((owner, did))
    if nx not in (T.op("udiv", 64, X, T.K(64, 16)), T.shift("lshr", 64, X, T.K(64, 4))):
        return "step x := %s" % _sh(nx)
    if nd != T.op("add", 64, D, T.K(64, 1)):
        return "step d := %s" % _sh(nd)
    tail = strip(strip(body).get("tail")) if strip(body).get("k") == "block" and strip(body).get("tail") else None
    if not (tail and tail.get("k") in ("var", "upvar") and tail.get("id") == did):
        return "the closure does not return the counter"
    return True


def _strcmp_scan(F, ev):
    fn = F.fns.get("helpers::strcmp")
    if not fn:
        return False, "missing"
    body = fn["thir"]["body"]
    ids = {}
    inits = {}
    for n in walk(body):
        if n.get("k") == "block":
            for st in n["stmts"]:
                if st["k"] == "let" and st["pat"].get("k") == "bind":
                    ids[st["pat"]["name"]] = st["pat"]["id"]
    loops = [n for n in walk(body) if n.get("k") == "loop"]
    if len(loops) != 1:
        return False, "%d loops" % len(loops)
    # the four scan variables: two u64 cursors and two u8 values
    full = ev.run_fn("helpers::strcmp", [T.V("a%d" % i, 64) for i in range(1, 6)]) or []
    owner = ev.owner_of("helpers::strcmp")
    A, B, X, Y = T.V("A", 64), T.V("B", 64), T.V("X", 8), T.V("Y", 8)
    # the scan variables are found by role, not by name: two u64 cursors initialised from the first two parameters,
    # two u8 values initialised by reading through the cursors
    pnames0 = [q["pat"]["name"] for q in fn["thir"]["params"] if q["pat"] and q["pat"]["k"] == "bind"]
    lets = []
    for n in walk(body):
        if n.get("k") == "block":
            for st_ in n["stmts"]:
                if st_["k"] == "let" and st_["pat"].get("k") == "bind" and st_.get("init"):
                    vs = [x.get("name") for x in walk(st_["init"]) if x.get("k") in ("var", "upvar")]
                    lets.append((st_["pat"]["name"], st_["pat"].get("ty"), vs, any(x.get("k") == "deref" for x in walk(st_["init"]))))
    cur = [next((nm for nm, ty, vs, d in lets if ty == "u64" and vs == [pn] and not d), None) for pn in pnames0[:2]]
    # a byte variable is one whose initialiser, evaluated with its cursor at A, is the byte at A (read directly or
    # through a small private function)
    def reads_through(init, c):
        if c is None or c not in ids:
            return False
        try:
            r = [v for v, s2 in ev.ev(init, symex.St().set((owner, ids[c]), T.V("A", 64)), "helpers::strcmp") if s2.feasible]
        except Exception:
            return False
        return r == [("load", 8, T.V("A", 64))]
    inits_by_name = {}
    for n in walk(body):
        if n.get("k") == "block":
            for st_ in n["stmts"]:
                if st_["k"] == "let" and st_["pat"].get("k") == "bind" and st_.get("init"):
                    inits_by_name[st_["pat"]["name"]] = st_["init"]
    val = [next((nm for nm, ty, vs, d in lets if ty == "u8" and vs == [c] and (d or reads_through(inits_by_name.get(nm), c))), None) for c in cur]
    if None not in cur:
        okb = _strcmp_scan_reading_loop(F, ev, fn, loops[0], ids, cur)
        if okb is not None:
            return okb
    if None in cur or None in val:
        return False, "scan variables not found: cursors %s, bytes %s" % (cur, val)
    want_names = (cur[0], cur[1], val[0], val[1])
    st = symex.St()
    for nm, val in zip(want_names, (A, B, X, Y)):
        st = st.set((owner, ids[nm]), val)
    outs = ev.ev(loops[0]["body"], st, "helpers::strcmp")
    cont = [s2 for _v, s2 in outs if s2.exit is None or s2.exit[0] == "continue"]
    brk = [s2 for _v, s2 in outs if s2.exit is not None and s2.exit[0] == "break"]
    if len(cont) != 1 or not brk:
        return False, "%d continuing / %d leaving paths" % (len(cont), len(brk))
    c = cont[0]
    env = {nm: c.env.get((owner, ids[nm])) for nm in want_names}
    a1, b1 = T.op("add", 64, A, T.K(64, 1)), T.op("add", 64, B, T.K(64, 1))
    want_env = {want_names[0]: a1, want_names[1]: b1, want_names[2]: ("load", 8, a1), want_names[3]: ("load", 8, b1)}
    conj = set()
    for x in c.conds:
        stack = [x]
        while stack:
            y = stack.pop()
            if isinstance(y, tuple) and y and y[0] == "land":
                stack.extend([y[1], y[2]])
            else:
                conj.add(y)
    want_c = {T.cmp("eq", 8, X, Y), T.cmp("ne", 8, X, T.K(8, 0)), T.cmp("ne", 8, Y, T.K(8, 0))}
    if env != want_env:
        return False, "step: %s" % {k: _sh(v) for k, v in env.items()}
    nul = {T.cmp("ne", 8, X, T.K(8, 0)), T.cmp("ne", 8, Y, T.K(8, 0))}
    if not (T.cmp("eq", 8, X, Y) in conj and conj & nul and conj <= want_c):   # x == y makes one NUL test enough
        return False, "continue condition: %s" % sorted(_sh(x) for x in conj)
    # initial values: cursors start at the two argument pointers, the first bytes are read through them
    pnames = [q["pat"]["name"] for q in fn["thir"]["params"] if q["pat"] and q["pat"]["k"] == "bind"]
    src = {}
    for n in walk(body):
        if n.get("k") == "block":
            for st2 in n["stmts"]:
                if st2["k"] == "let" and st2["pat"].get("k") == "bind" and st2["pat"]["name"] in want_names and st2.get("init"):
                    vs = [x.get("name") for x in walk(st2["init"]) if x.get("k") in ("var", "upvar")]
                    src[st2["pat"]["name"]] = (vs, any(x.get("k") == "deref" for x in walk(st2["init"])) or (len(vs) == 1 and reads_through(st2["init"], vs[0])))
    want_src = {want_names[0]: ([pnames[0]], False), want_names[1]: ([pnames[1]], False), want_names[2]: ([want_names[0]], True), want_names[3]: ([want_names[1]], True)}
    if src != want_src:
        return False, "initial values: %s" % src
    return True, "one-byte steps on both cursors; continues while equal and non-NUL"


def _strcmp_scan_reading_loop(F, ev, fn, loop, ids, cur):
    """the other spelling of the scan: `loop { x = *a; y = *b; if x != y || x == 0 { break (x, y) } a += 1; b += 1 }`.
    None when the loop is not of this kind (the read-ahead form is then tried)."""
    owner = ev.owner_of("helpers::strcmp")
    A, B = T.V("A", 64), T.V("B", 64)
    st = symex.St().set((owner, ids[cur[0]]), A).set((owner, ids[cur[1]]), B)
    outs = [(v, s2) for v, s2 in ev.ev(loop["body"], st, "helpers::strcmp") if s2.feasible]
    brk = [s2 for _v, s2 in outs if s2.exit is not None and s2.exit[0] == "break" and len(s2.exit) > 1]
    cont = [s2 for _v, s2 in outs if s2.exit is None or s2.exit[0] == "continue"]
    if not brk or not cont:
        return None
    X, Y = ("load", 8, A), ("load", 8, B)
    if len(cont) != 1:
        return False, "%d continuing paths" % len(cont)
    c = cont[0]
    if c.env.get((owner, ids[cur[0]])) != T.op("add", 64, A, T.K(64, 1)) or c.env.get((owner, ids[cur[1]])) != T.op("add", 64, B, T.K(64, 1)):
        return False, "the cursors do not both advance by one byte"
    conj = set()
    for x in c.conds:
        stack = [x]
        while stack:
            y = stack.pop()
            if isinstance(y, tuple) and y and y[0] == "land":
                stack.extend([y[1], y[2]])
            else:
                conj.add(y)
    nul = {T.cmp("ne", 8, X, T.K(8, 0)), T.cmp("ne", 8, Y, T.K(8, 0))}
    if not (T.cmp("eq", 8, X, Y) in conj and conj & nul and conj <= nul | {T.cmp("eq", 8, X, Y)}):
        return False, "continue condition: %s" % sorted(_sh(x) for x in conj)
    for b in brk:
        v = b.exit[1]
        vals = [x for _k, x in v[3]] if isinstance(v, tuple) and v and v[0] == "struct" else None
        if vals != [X, Y]:
            return False, "the loop does not leave with the two bytes it stopped at"
    return True, "reads both bytes, leaves with them at the first difference or NUL, otherwise advances both cursors by one"


def _memfrob_shape(F, fn):
    """one iteration of memfrob's loop, evaluated symbolically: exactly one byte store at ptr + i of the byte XOR 42,
    i running over 0..len in steps of one (either loop spelling); the function returns 0"""
    import models
    if not fn:
        return False, "missing"
    path = "helpers::memfrob"
    ev = symex.Evaluator(F)
    owner = ev.owner_of(path)
    st = symex.St()
    syms = []
    for k, q in enumerate(fn["thir"]["params"]):
        v = T.V("a%d" % (k + 1), 64)
        syms.append(v)
        if q["pat"] and q["pat"].get("k") == "bind":
            st = st.set((owner, q["pat"]["id"]), v)
    info, why = models.counting_loop(F, ev, path, st)
    if info is None:
        return False, why
    ptr, ln, I = syms[0], syms[1], info["I"]
    if info["start"] != T.K(64, 0) or info["bound"] != ln or not info["step_ok"]:
        return False, "the counter does not run over 0..len in steps of one (start %s, bound %s)" % (_sh(info["start"]), _sh(info["bound"]))
    live = [s2 for s2 in info["states"] if not (s2.exit is not None and s2.exit[0] == "panic")]
    if len(live) != 1 or (live[0].exit is not None and live[0].exit[0] != "continue"):
        return False, "%d paths through one iteration" % len(live)
    addr = T.op("add", 64, ptr, I)
    stores = [e for e in live[0].effects if e[0] in ("store", "atomic_add")]
    want = ("store", 8, addr, T.op("xor", 8, ("load", 8, addr), T.K(8, 42)))
    if stores != [want]:
        return False, "stores of one iteration: %s" % [(_sh(e[2]), _sh(e[3])) for e in stores if len(e) > 3][:2]
    body = strip(fn["thir"]["body"])
    tail = strip(body.get("tail")) if body.get("k") == "block" and body.get("tail") is not None else None
    if not (tail and tail.get("k") == "lit" and tail.get("v") == 0):
        return False, "result is not 0"
    return True, "for i in 0..len: *(ptr + i) ^= 42; 0"
