"""C05 - a program accepted by the default verifier can never crash the interpreter.

Assume-guarantee closure: (R05.a) every panic-capable site reachable from the interpreter entry is
proved unable to fire by the MIR analysis, or discharged by a row that cites a guarantee; (R05.b-f)
each cited guarantee is checked against the verifier's extracted accept conditions (vmodel) and the
interpreter's per-opcode path summaries (imodel)."""
import re

import imodel
import isa
import terms as T
import vmodel
from common import Ctx, Row, sites_to_obligations


def contradicts(path_conds, vatoms):
    """do the verifier's accept atoms (a conjunction, atoms may be disjunctions) exclude the path?"""
    pset = set()
    for c in path_conds:
        st = [c]
        while st:
            x = st.pop()
            if isinstance(x, tuple) and x and x[0] == "land":
                st.extend([x[1], x[2]])
            else:
                pset.add(x)
    for a in vatoms:
        disj, st = [], [a]
        while st:
            x = st.pop()
            if isinstance(x, tuple) and x and x[0] == "lor":
                st.extend([x[1], x[2]])
            else:
                disj.append(x)
        if all(T.lnot(d) in pset for d in disj):
            return True
    return False


def _const_facts(conds):
    """`x == K` / `x != K` facts of a conjunction, through zero/sign extensions of x"""
    eq, ne = {}, {}
    st = list(conds)
    while st:
        c = st.pop()
        if not (isinstance(c, tuple) and c):
            continue
        if c[0] == "land":
            st.extend([c[1], c[2]])
            continue
        if c[0] == "cmp" and c[1] in ("eq", "ne"):
            for k, x in ((c[3], c[4]), (c[4], c[3])):
                if not T.is_k(k) or T.is_k(x):
                    continue
                kv = k[2]
                while isinstance(x, tuple) and x[0] in ("zext", "sext"):
                    inner = x[2]
                    kk = T.K(T.width(inner), kv)
                    back = T.zext(x[1], kk) if x[0] == "zext" else T.sext(x[1], kk)
                    if back[2] != kv:
                        x = None
                        break
                    x, kv = inner, kk[2]
                if x is None:
                    continue
                if c[1] == "eq":
                    eq[x] = kv
                else:
                    ne.setdefault(x, set()).add(kv)
    return eq, ne


def incompatible(path_conds, vatoms):
    """contradicts(), plus: the two conjunctions fix one variable to different constants, or one fixes
    it to a constant the other excludes"""
    if contradicts(path_conds, vatoms):
        return True
    e1, n1 = _const_facts(path_conds)
    e2, n2 = _const_facts(vatoms)
    for x, k in e1.items():
        if (x in e2 and e2[x] != k) or k in n2.get(x, ()):
            return True
    for x, k in e2.items():
        if k in n1.get(x, ()):
            return True
    return False


def run(rep, tier):
    cx = Ctx(rep, "std")
    rep.where_by_opcode = cx.opcode_where(cx.roles.interpreter())
    vm = vmodel.VerifierModel(cx)
    im = imodel.InterpModel(cx)
    if not (vm.ok and im.ok):
        return
    rep.analysed(vm.fn, im.fn)
    accepted = {v: vm.per_opcode(v) for v in range(256)}
    accepted = {v: r for v, r in accepted.items() if r["accept"]}

    rb = rep.rule("R05.b", "every opcode the verifier accepts has interpreter paths that do not panic", floor=100)
    rc = rep.rule("R05.c", "panic paths inside accepted arms are excluded by the verifier's conditions", floor=1)
    re_ = rep.rule("R05.e", "opcodes admitted in last position never fall through to pc+1", floor=2)
    rf = rep.rule("R05.f", "every control transfer of the interpreter targets an address the verifier validated", floor=40)
    nxt = T.op("add", 64, vmodel.PC, T.K(64, 1))
    fall = {}
    for v, r in sorted(accepted.items()):
        paths = im.per_opcode(v)
        unrec = [u for p in paths for u in p["unrec"] if "field write on symbolic" not in u]
        live = [p for p in paths if not (p["exit"] and p["exit"][0] == "panic")]
        rep.ob(rb, "opc=%#04x" % v, bool(live) and not unrec,
               "interpreter arm for accepted opcode %#04x" % v, expected="at least one non-panicking path",
               found="%d paths, %d panic; %s" % (len(paths), len(paths) - len(live), unrec[:2]))
        for p in paths:
            if p["exit"] and p["exit"][0] == "panic":
                ok = all(contradicts(p["conds"], atoms) for atoms, _ in r["accept"])
                rep.ob(rc, "opc=%#04x/%s" % (v, "&".join(sorted(T.show(c) for c in p["conds"]))[:80]), ok,
                       "panic path in the arm of accepted opcode %#04x" % v,
                       expected="excluded by a verifier condition", found=[T.show(c) for c in p["conds"]], sample=True)
        # control transfers: per accepting path of the verifier and per interpreter path compatible with
        # it, the next pc (specialised by the path's `field == K` atoms) is validated on that very path
        d = isa.TABLE.get(v)
        if d is None:
            rep.ob(rb, "opc=%#04x/not-an-instruction" % v, False, "the verifier accepts byte %#04x, which is not an eBPF opcode" % v,
                   expected="refused", found="accepted; the interpreter has no arm for it")
            continue
        from props.c03 import eq_substitution
        results = {}
        for atoms, _ in r["accept"]:
            vt = set()
            for a in atoms:
                for x in _walk(a):
                    if isinstance(x, tuple) and len(x) == 3 and x[0] == "v" and isinstance(x[1], tuple) and x[1][0] == "insn":
                        vt.add(x[1][1])
                if isinstance(a, tuple) and len(a) == 5 and a[0] == "cmp" and a[1] == "ult" and "len(" in T.show(a[4]):
                    vt.add(a[3])
            f = eq_substitution(list(atoms))
            for p in live:
                if p["exit"] is not None or p["pc"] is None or incompatible(p["conds"], atoms):
                    continue
                t = f(p["pc"])
                if d["kind"] == "exit":
                    continue  # return address: pc+1 of an earlier local call, which is never the last instruction (R05.e)
                if t == nxt:
                    fall.setdefault(v, []).append([T.show(a) for a in atoms])
                    continue
                if d["kind"] == "lddw" and t == T.op("add", 64, vmodel.PC, T.K(64, 2)):
                    continue
                k = "opc=%#04x/%s" % (v, T.show(p["pc"])[:60])
                ok = t in vt or f(t) in {f(x) for x in vt}
                prev = results.get(k)
                results[k] = (ok and (prev[0] if prev else True), t, vt if not ok else (prev[2] if prev else vt))
        for k, (ok, t, vt) in sorted(results.items()):
            rep.ob(rf, k, ok, "branch target of opcode %#04x" % v, expected=[T.show(x) for x in vt], found=T.show(t), sample=(v == 0x05))
    rep.info("accepted_opcodes", len(accepted))

    # last-position opcodes: evaluate the verifier's last-instruction atom for all 256 values
    acc, _rej, _un = vm.prelude()
    last_ok = set()
    if len(acc) == 1:
        for a in acc[0]:
            vals = _last_opcode_values(vm.canon(a))
            if vals is not None:
                last_ok = vals
    rep.ob(re_, "last-set", bool(last_ok), "set of opcodes the verifier admits as the last instruction",
           expected="non-empty, extracted", found=sorted(hex(x) for x in last_ok))
    for v in sorted(last_ok):
        paths = [p for p in im.per_opcode(v) if not (p["exit"] and p["exit"][0] == "panic")]
        bad = [p for p in paths if p["exit"] is None and p["pc"] == nxt]
        rep.ob(re_, "opc=%#04x" % v, not bad and bool(paths) and not fall.get(v),
               "opcode %#04x admitted last: every path returns or transfers control" % v,
               expected="no path continues at pc+1 under any accepting path of the verifier",
               found="%d fall-through paths; accepting paths under which the target is pc+1: %s" % (len(bad), fall.get(v, [])[:2]))

    rd = rep.rule("R05.d", "register numbers the verifier admits index inside the register file, for every opcode whose interpreter arm indexes the register file with that field", floor=100)
    rep.ob(rd, "regfile", _max_reg(accepted) is not None and _max_reg(accepted) < 11,
           "largest register index admitted by the verifier vs the interpreter's [u64; 11] register file",
           expected="< 11", found=_max_reg(accepted))
    for v, r in sorted(accepted.items()):
        used = set()
        for p in im.per_opcode(v):
            if p["exit"] and p["exit"][0] == "panic":
                continue
            blob = (p["conds"], p["regs"], p["pc"], p["effects"], p["exit"])
            txt = repr(blob)
            for f in ("dst", "src"):
                if "('sel', ('obj', 'REG', '[u64; 11]'), ('zext', 64, ('v', '%s', 8))" % f in txt or \
                        any(i == ("zext", 64, ("v", f, 8)) for i, _ in p["regs"]):
                    used.add(f)
        bad = []
        for atoms, _ in r["accept"]:
            for f in sorted(used):
                bound = None
                for a in atoms:
                    for x in _walk(a):
                        if isinstance(x, tuple) and x and x[0] == "cmp" and x[1] in ("ule", "eq") and len(x) == 5:
                            for k, y in ((x[4], x[3]), (x[3], x[4])):
                                if T.is_k(k) and y == ("v", f, 8) and (x[1] == "eq" or k is x[4]):
                                    bound = k[2] if bound is None else min(bound, k[2])
                if bound is None or bound > 10:
                    bad.append("%s unbounded on an accepting path" % f if bound is None else "%s <= %d" % (f, bound))
        rep.ob(rd, "opc=%#04x" % v, not bad, "opcode %#04x: register fields used by the interpreter arm (%s) are bounded by the verifier" % (v, ",".join(sorted(used)) or "none"),
               expected="each used field <= 10 on every accepting path", found=sorted(set(bad)) or "bounded")

    # ---- R05.a inventory
    ra = rep.rule("R05.a", "panic inventory from the interpreter entry", floor=150)
    inv = cx.inventory()
    sites, reach = inv.run(["EbpfVmMbuff::execute_program"])
    rep.analysed(*sorted(reach))
    I = re.escape(im.fn)
    rows = [
        Row("reg-index", I, r"^BoundsCheck\(11,\(ebpf::get_insn\(.*\)\.(dst|src) as usize\)\)$", "D3",
            "register numbers of a verified program are <= 10", cites=("R05.d", "C06/R06.b")),
        Row("opcode-cover", I, r"^panic!unreachable@u8!in\[\d+ values\]$", "D3",
            "the wildcard arm is unreachable: every accepted opcode has its own arm", cites=("R05.b",)),
        Row("endian-width", I, r"^panic!unreachable@u8=(212|220)(,(212|220))?;i32!in\[16,32,64\]$", "D3",
            "LE/BE immediates of a verified program are 16, 32 or 64", cites=("R05.c",)),
        Row("no-fall-off", I, r"^panic!unreachable@$", "D3",
            "execution cannot leave the loop: the last instruction is EXIT or JA and both never continue at pc+1",
            cites=("R05.e", "R05.f")),
        Row("no-fall-off-lifted", r"^EbpfVmMbuff::execute_program$", r"^precond:" + I + r"<-panic!unreachable@\(", "D3",
            "the same site seen from the interpreter's caller (the program is an argument of the interpreter): execution cannot leave the loop",
            cites=("R05.e", "R05.f")),
        Row("fetch", r".", r"^precond:(ebpf::get_insn|" + I + r"@ebpf::get_insn)<-", "D3",
            "pc < n at the loop head (loop guard and 8 | len) and a wide load is never last", cites=("R05.f", "C06/R06.d")),
        Row("pc-scale", I, r"^Overflow\(Mul\)\(mut<usize>,8\)$", "D3",
            "pc <= n <= 1,000,000 because every control transfer lands inside the program", cites=("R05.f",)),
        # pc + displacement, written inline, in the jump closure, or in a small helper taking (pc, delta): the operands are
        # the pc (a usize local / captured variable / first argument) and a sign-extended instruction field
        Row("jump-arith", I + r"(::.*)?", r"^(precond:[\w:]+<-)?Overflow\(Add\)\(\(?(\*\*arg1<&mut \{closure\}>\.\d|arg1<usize>|mut<usize>)( as isize\))?,\(?(\*\*arg1<&mut \{closure\}>\.\d|arg2<isize>)( as isize\))?\)$", "D3",
            "pc <= 1,000,000 and |off| < 2^15: the signed sum cannot overflow", cites=("R05.f",)),
        Row("call-arith", I + r"(::.*)?", r"^(precond:[\w:]+<-)?Overflow\(Add\)\(\(?(mut<usize>|arg1<usize>)( as isize\))?,\(?(.*\.(imm|off)|arg2<isize>)( as isize\))?\)$", "D3",
            "pc <= 1,000,000 and |imm| < 2^31", cites=("R05.f",)),
        Row("slice-end", r".", r"^Overflow\(Add\)\(\((\[T\]|slice\[T\]|Vec<T, A>)::as_ptr\((.*)\) as u64\),\((\[T\]|slice\[T\]|Vec<T, A>)::len\(\2\) as u64\)\)$", "A",
            "language guarantee: the end address of a live slice does not wrap"),
        Row("packet-base", I + r"(::.*)?", r"^(precond:[\w:]+<-)?Overflow\(Add\)\(\((\[T\]|slice\[T\])::as_ptr\([^()]*\) as u64\),\(\((.*) as u32\) as u64\)\)$", "A",
            "assumption A-addr: slice addresses are below 2^63, so adding a 32-bit displacement cannot wrap"),
        Row("frame-pointer", I, r"^Overflow\((Sub|Add)\)\((?:array|tmp|mut)<\[u64; 11\]>\[10\],[^,]*Stack(UsageType|Frame|Usage)::", "A",
            "assumption A-addr: r10 is not writable by verified programs (C06) and stays within 8 * 65535 bytes of the stack top"),
        Row("usage-present-assert", r"EbpfVmMbuff::execute_program$", r"^panic!debug_assert_eq@\[.*Option<T>::is_some\(&\*arg1<&EbpfVmMbuff<'_>>\.prog\).*Option<T>::is_some\(&\*arg1<&EbpfVmMbuff<'_>>\.stack_usage\).*\]$", "D3",
            "the same invariant as the next row, stated as an assertion: the stack-usage table is Some exactly when the program is (paired writes, C10/R10.d)", cites=("C10/R10.d",)),
        Row("usage-present", r"^(" + I + r"|EbpfVmMbuff::execute_program)$", r"^unwrap:Option<T>::unwrap\((arg2<Option<&stack::StackUsage>>|Option<T>::as_ref\(&\*arg1<&EbpfVmMbuff<'_>>\.stack_usage\))\)$", "D3",
            "the stack-usage table is Some whenever the program is Some (paired writes, C10/R10.d)", cites=("C10/R10.d",)),
        Row("null-ubcheck", I, r"^NullPointerDereference\(\)$", "D4",
            "debug-only UB precondition check on a pointer that passed the bounds check: null lies in no region (C02/R02.c)",
            cites=("C02/R02.a",)),
    ]
    stats = sites_to_obligations(rep, ra, sites, rows)
    rep.info("site_stats", stats)
    # a return to a wrong pc can land on a non-instruction: the interpreter-side frame rules of C07 (saved return pc at full width, callee pc) are obligations here too
    import props.c07 as c07
    c07.run(rep, tier, parts=("interp",))
    rep.trust("rustc front end / MIR / const-eval", "hashbrown, alloc (allocation failure aborts are out of scope)",
              "user-registered helpers are outside the claim")
    rep.assume("A-addr: addresses of live slices are < 2^63 and > 8*65535",
               "little-endian 64-bit target")


def _walk(t):
    st = [t]
    while st:
        x = st.pop()
        yield x
        if isinstance(x, tuple):
            st.extend(y for y in x if isinstance(y, tuple))


def _last_opcode_values(atom):
    """values v for which an atom over insn[n-1].opc holds (None if the atom is about something else)"""
    syms = [x for x in _walk(atom) if isinstance(x, tuple) and len(x) == 3 and x[0] == "v" and isinstance(x[1], tuple)
            and x[1][0] == "insn" and x[1][2] == "opc"]
    if not syms or any(s != syms[0] for s in syms):
        return None
    if syms[0][1][1] != T.op("add", 64, vmodel.NINSN, T.K(64, -1)):
        return None
    out = set()
    for v in range(256):
        if _subst_eval(atom, syms[0], T.K(8, v)) == T.TRUE:
            out.add(v)
    return out


def _subst_eval(t, sym, val):
    if t == sym:
        return val
    if not isinstance(t, tuple):
        return t
    h = t[0]
    if h == "cmp":
        return T.cmp(t[1], t[2], _subst_eval(t[3], sym, val), _subst_eval(t[4], sym, val))
    if h == "lor":
        return T.lor(_subst_eval(t[1], sym, val), _subst_eval(t[2], sym, val))
    if h == "land":
        return T.land(_subst_eval(t[1], sym, val), _subst_eval(t[2], sym, val))
    if h == "op":
        return T.op(t[1], t[2], _subst_eval(t[3], sym, val), _subst_eval(t[4], sym, val))
    if h in ("zext", "trunc", "sext"):
        f = {"zext": T.zext, "trunc": T.trunc, "sext": T.sext}[h]
        return f(t[1], _subst_eval(t[2], sym, val))
    return t


def _max_reg(accepted):
    m = None
    for v, r in accepted.items():
        for atoms, _ in r["accept"]:
            for a in atoms:
                for x in _walk(a):
                    if isinstance(x, tuple) and x and x[0] == "cmp" and x[1] in ("ule", "eq") and T.is_k(x[4]) \
                            and x[3] in (("v", "dst", 8), ("v", "src", 8)):
                        m = max(m or 0, x[4][2])
    return m
