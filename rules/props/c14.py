"""C14 - the assembler is total: any text yields Ok or Err, never a panic.

Decides: every panic-capable site reachable from `assembler::assemble` (including the closures
handed to the parser combinators) is unreachable, guarded, or discharged by a row.  Not decided:
"in bounded time" and panics inside the `combine` crate."""
from common import Ctx, Row, sites_to_obligations

ROWS = [
    Row("R14.row1", r"assembler::", r"^index:.*::index\(.*operands,1\)$", "D1",
        "`operands[1]` is read only after `encode` succeeded for the wide-load shape, whose only "
        "accepting pattern has exactly two operands (checked structurally by R14.b)", cites=("R14.b",)),
]


def run(rep, tier):
    cx = Ctx(rep, "std")
    root = cx.roles.api("assembler::assemble")
    if root is None:
        return
    r = rep.rule("R14.a", "panic inventory from assemble: every site unreachable, guarded or discharged", floor=8)
    inv = cx.inventory()
    sites, reach = inv.run([root])
    rep.analysed(*sorted(reach))
    rep.info("reachable_functions", len(reach))
    rep.info("panic_sites", len(sites))
    stats = sites_to_obligations(rep, r, sites, ROWS)
    rep.info("site_stats", stats)
    rep.trust("rustc front end, MIR construction and constant evaluation",
              "combine 4.6 parser combinators (their own panics and termination are not analysed)",
              "external callees not on the panicking-primitive list are assumed not to panic (listed in evidence)",
              "allocation failure aborts are out of scope")
    ext = set()
    for f in reach:
        ext |= cx.cg.ext.get(f, set())
    rep.info("external_callees_assumed_total", sorted(ext))
    rep.assume("the closures passed to combine's map/and_then are only invoked with the token strings the preceding parsers produced")
