"""C14 - the assembler is total: any text yields Ok or Err, never a panic.

Decides: every panic-capable site reachable from `assembler::assemble` (including the closures
handed to the parser combinators) is unreachable, guarded, or discharged by a row.  Not decided:
"in bounded time" and panics inside the `combine` crate."""
from common import Ctx, Row, sites_to_obligations

ROWS = [
    Row("R14.row1-assert", r"assembler::", r"^panic!debug_assert@\[instruction\.operands\.len\(\) >= 2\]$", "D1",
        "the same fact as the next row, stated as an assertion: reached only after `encode` succeeded for the wide-load shape, "
        "which has exactly two operands (R14.b evaluates every mnemonic with every operand shape and finds no panicking path)", cites=("R14.b",)),
    Row("R14.row1", r"assembler::", r"^index:.*::index\(.*operands,1\)$", "D1",
        "`operands[1]` is read only after `encode` succeeded for the wide-load shape, whose only "
        "accepting pattern has exactly two operands (checked structurally by R14.b)", cites=("R14.b",)),
]


def run(rep, tier):
    cx = Ctx(rep, "std")
    root = cx.roles.api("assembler::assemble")
    if root is None:
        return
    r = rep.rule("R14.a", "panic inventory from assemble: every site unreachable, guarded or discharged", floor=3)
    inv = cx.inventory()
    sites, reach = inv.run([root])
    rep.analysed(*sorted(reach))
    rep.info("reachable_functions", len(reach))
    rep.info("panic_sites", len(sites))
    stats = sites_to_obligations(rep, r, sites, ROWS)
    rep.info("site_stats", stats)
    # R14.b: the row above is backed by evaluating the assembler on every documented mnemonic with every
    # operand shape (0 to 4 operands, all kinds): no path may panic (e.g. index past the operand list)
    import asmmodel
    import symex
    rb = rep.rule("R14.b", "assemble_internal evaluated per documented mnemonic and operand shape (0-4 operands): every path returns Ok or Err", floor=92)
    F = cx.F
    if asmmodel.internal_entry(F) is None and not (F.fns.get("assembler::assemble") or {}).get("thir"):
        rep.ob(rb, "entry", False, "the function turning parsed instructions into Insn values", found="not found")
    else:
        ev = symex.Evaluator(F)
        ev.unroll = True
        for name in sorted(asmmodel.reference_table()):
            bad = []
            for sh in asmmodel.SHAPES:
                res = asmmodel.resolve(F, ev, name, sh)
                if res is None:
                    bad.append("%s: not evaluable" % ("".join(sh) or "-"))
                    continue
                for x in res:
                    if x["res"] in ("panic", "?"):
                        bad.append("%s: %s" % ("".join(sh) or "-", "a panicking path" if x["res"] == "panic" else "a path that is neither Ok nor Err"))
                        break
            rep.ob(rb, "mnemonic=%s" % name, not bad, "`%s` with every operand shape" % name, expected="Ok or Err on every path", found=bad[:4] or "%d shapes" % len(asmmodel.SHAPES))
    rep.trust("rustc front end, MIR construction and constant evaluation",
              "combine 4.6 parser combinators (their own panics and termination are not analysed)",
              "external callees not on the panicking-primitive list are assumed not to panic (listed in evidence)",
              "allocation failure aborts are out of scope")
    ext = set()
    for f in reach:
        ext |= cx.cg.ext.get(f, set())
    rep.info("external_callees_assumed_total", sorted(ext))
    rep.assume("the closures passed to combine's map/and_then are only invoked with the token strings the preceding parsers produced")
