"""C18 - atomic add really is atomic under concurrent executions.

Decided (the structural necessary condition; the atomicity of the primitives themselves is the
hardware's / core's contract): in all three engines the only memory effect of the 32- and 64-bit
XADD instructions is ONE atomic read-modify-write primitive of the instruction's width on the
address dst+off with operand trunc_w(src):
(R18.a) interpreter: `Atomic{U32,U64}::fetch_add` on the bounds-checked, alignment-tested address;
a misaligned address returns Err with no memory effect; no plain store in the arm;
(R18.b) x86-64 JIT: `lock add [dst+off], src` (lock prefix present, REX.W matches the width), for
every register pair; (R18.c) Cranelift: atomic_rmw(ty, Add, addr, val) with ty of the right width,
addr equal to the checked start, val reduced to ty."""
import clmodel
import imodel
import isa
import jitmodel
import terms as T
from common import Ctx
from props.c03 import interp_paths, jit_paths
from props.c04 import cl_paths

XADD = {v: d for v, d in isa.TABLE.items() if d["kind"] == "xadd"}


def run(rep, tier):
    cx = Ctx(rep, "std")
    rep.where_by_opcode = cx.opcode_where(cx.roles.interpreter())
    im = imodel.InterpModel(cx)
    jm = jitmodel.JitModel(cx)
    if not (im.ok and jm.ok):
        return
    ra = rep.rule("R18.a", "interpreter: one fetch_add of the right width on the checked, aligned address; misaligned -> Err, no effect", floor=2)
    rb = rep.rule("R18.b", "x86-64 JIT: lock add [dst+off], src of the right width for every register pair", floor=2)
    rc = rep.rule("R18.c", "Cranelift: atomic_rmw(ty, Add) on the checked address", floor=2)
    pairs = [(d, s) for d in range(11) for s in range(11)]
    for v, desc in sorted(XADD.items()):
        w = desc["size"] * 8
        paths = [p for p in im.summary(v, sequential=False) if not (p["exit"] and p["exit"][0] == "panic")]
        addr = T.op("add", 64, ("sel", imodel.REG, T.zext(64, ("v", "dst", 8)), 64), T.sext(64, ("v", "off", 16)))
        val = ("sel", imodel.REG, T.zext(64, ("v", "src", 8)), 64)
        val = val if w == 64 else T.trunc(32, val)
        aligned = T.cmp("eq", 64, T.op("urem", 64, addr, T.K(64, w // 8)), T.K(64, 0))
        okp = [p for p in paths if p["atomics"]]
        good = len(okp) == 1 and okp[0]["atomics"] == [(w, addr, val)] and not okp[0]["stores"] and not okp[0]["regs"] and \
            ("inbounds", addr, w // 8) in okp[0]["conds"] and aligned in okp[0]["conds"]
        others = [p for p in paths if not p["atomics"]]
        clean = all(p["exit"] == ("err",) and not p["stores"] and not p["regs"] for p in others) and len(others) >= 2
        rep.ob(ra, "opc=%#04x" % v, good and clean, "interpreter arm of the %d-bit atomic add" % w,
               expected="paths: {inbounds, aligned} -> fetch_add_%d(dst+off, trunc(src)); otherwise Err without effects" % w,
               found={"rmw_paths": len(okp), "other_paths": [(p["exit"], len(p["stores"])) for p in others]})
        bad = []
        for d, s in pairs:
            jps, problems = jit_paths(jm, v, d, s)
            bad.extend(problems)
            ips = interp_paths(im, v, d, s)
            from props.c03 import compare as cmp03
            bad.extend("pair (%d,%d): %s" % (d, s, x) for x in cmp03(ips, jps))
            for jp in jps:
                if T.FALSE in jp["conds"]:
                    continue
                if len(jp["atomics"]) != 1 or jp["atomics"][0][0] != w or jp["stores"] or jp["regs"]:
                    bad.append("pair (%d,%d): %d atomic ops, %d stores" % (d, s, len(jp["atomics"]), len(jp["stores"])))
        rep.ob(rb, "opc=%#04x" % v, not bad, "JIT templates of the %d-bit atomic add, 121 register pairs" % w,
               expected="exactly one locked add of %d bits on [dst+off]" % w, found=sorted(set(bad))[:3] or "121 pairs ok")
    cc = Ctx(rep, "cranelift")
    cm = clmodel.ClModel(cc)
    imc = imodel.InterpModel(cc)
    if cm.ok and imc.ok:
        for v, desc in sorted(XADD.items()):
            w = desc["size"] * 8
            bad = []
            for d, s in pairs:
                cps, problems = cl_paths(cm, v, d, s, sequential=False)
                bad.extend(problems)
                from props.c04 import compare as cmp04
                bad.extend("pair (%d,%d): %s" % (d, s, x) for x in cmp04(interp_paths(imc, v, d, s), cps, desc))
                for cp in cps:
                    if len(cp["atomics"]) != 1 or cp["atomics"][0][0] != w or cp["stores"] or cp["regs"]:
                        bad.append("pair (%d,%d): %d atomic ops, %d stores" % (d, s, len(cp["atomics"]), len(cp["stores"])))
            rep.ob(rc, "opc=%#04x" % v, not bad, "Cranelift templates of the %d-bit atomic add, 121 register pairs" % w,
                   expected="exactly one atomic_rmw Add of %d bits on dst+off (bounds-checked under C11)" % w, found=sorted(set(bad))[:3] or "121 pairs ok")
    rep.trust("core::sync::atomic::AtomicU32/AtomicU64::fetch_add, the x86 LOCK prefix and Cranelift's atomic_rmw are atomic read-modify-write primitives",
              "rustc front end / typed THIR", "x86model.py, clmodel.py")
    rep.assume("the JIT assumes a naturally aligned effective address (documented); the interpreter refuses misaligned ones",
               "no lost update then follows from the primitives' atomicity for any schedule")
