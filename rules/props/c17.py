"""C17 - instruction encoding and decoding are inverse, and all encoders agree.

Decided by bit-lane provenance (every result bit is a named source bit or a constant): (R17.a) the
8 bytes produced by Insn::to_array and Insn::to_vec are the layout table's lanes (opcode | src<<4|dst
| off LE | imm LE) for register numbers 0-15; (R17.b) get_insn(prog, idx) reads exactly the inverse
lanes at byte offset 8*idx; hence decode(encode(x)) = x and encode(decode(b)) = b for all 2^64 slot
values, because lanes are exact; (R17.c) the instruction builder's into_bytes has the same lanes and
its opcode byte, for every constructor and every combination of its enum arguments, is the opcode
the assembler uses for that instruction."""
import re

import isa
import symex
import terms as T
from common import Ctx
from facts import walk, strip, callee_path


def layout():
    """byte k of the slot as lanes over opc(8) dst4(4) src4(4) off(16) imm(32)"""
    opc = [("opc", i) for i in range(8)]
    regs = [("dst", i) for i in range(4)] + [("src", i) for i in range(4)]
    off = [("off", i) for i in range(16)]
    imm = [("imm", i) for i in range(32)]
    return [opc, regs, off[:8], off[8:], imm[:8], imm[8:16], imm[16:24], imm[24:]]


def sym_insn(reg4=True):
    d = T.zext(8, T.V("dst", 4)) if reg4 else T.V("dst", 8)
    s = T.zext(8, T.V("src", 4)) if reg4 else T.V("src", 8)
    return symex.struct("ebpf::Insn", "Insn", (("opc", T.V("opc", 8)), ("dst", d), ("src", s), ("off", T.V("off", 16)), ("imm", T.V("imm", 32))))


def run(rep, tier, parts=("enc", "dec", "builder")):
    cx = Ctx(rep, "std")
    F = cx.F
    ev = symex.Evaluator(F)
    if "enc" in parts:
        ra = rep.rule("R17.a", "encoder lanes == layout table", floor=16)
        exp = layout()
        for meth in ("ebpf::Insn::to_array", "ebpf::Insn::to_vec"):
            if cx.roles.api(meth) is None:
                continue
            outs = ev.run_fn(meth, [sym_insn()]) or []
            arr = None
            if len(outs) == 1:
                v = outs[0][0]
                if isinstance(v, tuple) and v and v[0] == "array":
                    arr = v[1]
                elif isinstance(v, tuple) and v and v[0] == "obj":
                    # vec![..] -> from a boxed array: find the array literal in the effects
                    for e in outs[0][1].effects:
                        for a in (e[2] if e[0] == "call" else ()):
                            if isinstance(a, tuple) and a and a[0] == "array" and len(a[1]) == 8:
                                arr = a[1]
            for k in range(8):
                got = T.lanes(arr[k]) if arr and len(arr) == 8 and isinstance(arr[k], tuple) else None
                rep.ob(ra, "%s/byte%d" % (meth.split("::")[-1], k), got == exp[k],
                       "%s byte %d" % (meth, k), expected=T.lanes_str(exp[k]), found=T.lanes_str(got) if got else "not an 8-byte array literal",
                       sample=(k == 1))
    if "dec" in parts:
        rb = rep.rule("R17.b", "decoder lanes == inverse of the layout table at byte offset 8*idx", floor=5)
        prog = ("obj", "PROG", "&[u8]")
        idx = T.V("idx", 64)
        evd = symex.Evaluator(F, models={"ebpf::get_insn": None})
        evd.models = {}
        import symex as sx
        saved = sx.MODELS.pop("ebpf::get_insn", None)
        try:
            outs = evd.run_fn("ebpf::get_insn", [prog, idx]) or []
        finally:
            if saved:
                sx.MODELS["ebpf::get_insn"] = saved
        live = [(v, s) for v, s in outs if isinstance(v, tuple) and v and v[0] == "struct"]
        ok1 = len(live) == 1
        base = T.op("mul", 64, idx, T.K(64, 8))

        def byte(k):
            return ("term", repr(("sel", prog, T.op("add", 64, base, T.K(64, k)), 8)))

        want = {"opc": [(byte(0), i) for i in range(8)],
                "dst": [(byte(1), i) for i in range(4)] + [0] * 4,
                "src": [(byte(1), i) for i in range(4, 8)] + [0] * 4,
                "off": [(byte(2), i) for i in range(8)] + [(byte(3), i) for i in range(8)],
                "imm": [(byte(k), i) for k in range(4, 8) for i in range(8)]}
        for f, w in want.items():
            got = None
            if ok1:
                val = symex.sfield(live[0][0], f)
                got = T.lanes(_norm_index(val)) if isinstance(val, tuple) else None
            rep.ob(rb, "get_insn/%s" % f, got == w, "field %s decoded by get_insn" % f,
                   expected=T.lanes_str([(("b", ) if False else x) for x in w]) if False else _ls(w), found=_ls(got) if got else "unavailable", sample=(f == "src"))
        # the guard of get_insn: panics exactly when (idx+1)*8 > len
        guard = [s for v, s in outs if not (isinstance(v, tuple) and v and v[0] == "struct")]
        rep.ob(rb, "get_insn/guard", ok1 and len(outs) == 2, "get_insn has one decoding path and one out-of-range panic path",
               expected="2 paths", found=len(outs))

    if "builder" in parts:
        rc = rep.rule("R17.c", "instruction builder: into_bytes lanes and opcode algebra agree with the encoder", floor=1)
        ok, found = _builder(cx, ev, exp)
        rep.ob(rc, "into_bytes", ok, "<&I as IntoBytes>::into_bytes byte lanes", expected="layout table", found=found)
        rd = rep.rule("R17.d", "instruction builder: for every constructor and every combination of its enum arguments the opcode byte is the ISA opcode of that instruction", floor=95)
        _builder_opcodes(cx, rep, rd)
    if "dec" in parts:
        re_ = rep.rule("R17.e", "ebpf::to_insn_vec returns get_insn(prog, i) for every i in 0..len/8, in order, and nothing else", floor=1)
        oke, founde = _decode_all(cx)
        rep.ob(re_, "to_insn_vec", oke, "loop of ebpf::to_insn_vec", expected="counter from 0 while i*8 < len (or i < len/8); each iteration pushes get_insn(prog, i) and nothing is skipped", found=founde)
    if "builder" in parts:
        rf_ = rep.rule("R17.f", "every instruction type of the builder pushes exactly `self.into_bytes()` (the shared encoding), never a privately built instruction", floor=7)
        pushes = sorted(pth for pth in F.fns if re.match(r"^insn_builder::\w+::push$", pth) and F.fns[pth].get("thir"))
        for pth in pushes:
            # evaluated with the shared encoder opaque: exactly one `into_bytes(self)`, and exactly that value is appended
            # to the program's byte vector (directly or through a helper); nothing else is appended
            fnp = F.fns[pth]
            evp = symex.Evaluator(F, opaque_calls=lambda q: q.endswith("into_bytes"))
            selfv = ("obj", "self", fnp["thir"]["params"][0]["ty"])
            outs = [(v, s2) for v, s2 in (evp.run_fn(pth, [selfv]) or []) if s2.feasible]
            ok, found = len(outs) == 1, "%d paths" % len(outs)
            if ok:
                s2 = outs[0][1]
                calls = [e for e in s2.effects if e[0] == "call" and isinstance(e[1], str)]
                enc = [e for e in calls if e[1].endswith("into_bytes")]
                sinks = [e for e in calls if re.search(r"Vec<T, A>::(append|extend_from_slice|push|insert|extend)$|Extend<.*>>::extend$", e[1])]
                private = [e[1] for e in calls if e[1].endswith("Insn::to_array") or e[1].endswith("Insn::to_vec")]

                derefs = {e[3]: e[2][0] for e in calls if len(e) > 3 and re.search(r"Deref>::deref$|::as_slice$|AsRef<.*>>::as_ref$|Borrow<.*>>::borrow$", e[1]) and e[2]}

                def val(x):
                    for _ in range(8):
                        if isinstance(x, tuple) and x and x[0] == "ref" and isinstance(x[1], tuple) and x[1][0] == "pv":
                            x = s2.env.get(x[1][1])
                        elif x in derefs:
                            x = derefs[x]
                        else:
                            break
                    return x
                ok = len(enc) == 1 and enc[0][2][0] == selfv and len(sinks) == 1 and "instructions" in repr(sinks[0][2][0]) \
                    and val(sinks[0][2][1]) == enc[0][3] and not private
                found = {"into_bytes(self)": len(enc), "appends": len(sinks), "appended value is the encoding": bool(sinks and enc and val(sinks[0][2][1]) == enc[0][3]),
                         "private encodings": private}
            rep.ob(rf_, pth, ok, "%s" % pth, expected="one into_bytes() of self appended to the program, no Insn built on the side", found=found)
    if "builder" in parts:
        # R17.g: what the builder encodes are the fields the user set: the getters the encoder reads (and the setters)
        # go straight to the instruction's own Insn, for every instruction type (no override that filters a field)
        rg_ = rep.rule("R17.g", "builder getters / setters read and write the instruction's own Insn field, unfiltered, for every instruction type", floor=8)

        def tail_of(fn):
            b = strip(fn["thir"]["body"])
            while b.get("k") == "block" and not b["stmts"] and b.get("tail") is not None:
                b = strip(b["tail"])
            return b

        def through(n, callee):
            """n is `self.<callee>()` possibly dereferenced"""
            n = strip(n)
            while n.get("k") in ("deref", "ref"):
                n = strip(n["e"])
            return n.get("k") == "call" and (callee_path(n) or "").endswith(callee) and \
                any(x.get("k") in ("var", "upvar") and x.get("name") == "self" for x in walk(n["args"][0]))
        for pth in sorted(F.fns):
            m = re.search(r"(?:^insn_builder::Instruction|as insn_builder::Instruction>)::(get|set)_(dst|src|off|imm)$", pth)
            if not m or not F.fns[pth].get("thir"):
                continue
            fn = F.fns[pth]
            if m.group(1) == "get":
                # evaluated with `get_insn` answering a symbolic Insn: the result is that Insn's field on every path
                W = {"dst": 8, "src": 8, "off": 16, "imm": 32}
                insn_v = symex.struct("ebpf::Insn", "Insn", [("opc", T.V("opc", 8))] + [(f, T.V(f, w)) for f, w in W.items()])
                mods = {q: (lambda ev_, vals, n_, s_, p_, g_, iv=insn_v: [(iv, s_)]) for q in F.fns if q.endswith("::get_insn")}
                mods["insn_builder::Instruction::get_insn"] = lambda ev_, vals, n_, s_, p_, g_, iv=insn_v: [(iv, s_)]
                evg = symex.Evaluator(F, models=mods)
                outs = [(v, s2) for v, s2 in (evg.run_fn(pth, [("obj", "self", fn["thir"]["params"][0]["ty"])]) or []) if s2.feasible]
                ok = bool(outs) and all(v == T.V(m.group(2), W[m.group(2)]) or
                                        (isinstance(v, tuple) and len(v) == 3 and v[0] == "v" and isinstance(v[1], str) and re.fullmatch(r"self\.\w+\.%s" % m.group(2), v[1]))
                                        for v, _s in outs)
                rep.ob(rg_, pth, ok, pth, expected="self.get_insn().%s on every path" % m.group(2),
                       found="as expected" if ok else [symex._short(v) for v, _s in outs][:3])
            else:
                # evaluated with `get_insn_mut` answering a reference to one symbolic Insn: afterwards exactly the named
                # field holds the argument, the other fields are untouched (directly or through a helper / closure)
                W = {"dst": 8, "src": 8, "off": 16, "imm": 32}
                KEY = ("INSN", 0)
                insn_v = symex.struct("ebpf::Insn", "Insn", [("opc", T.V("opc", 8))] + [(f, T.V(f, w)) for f, w in W.items()])
                ret_ref = lambda ev_, vals, n_, s_, p_, g_: [(("ref", ("pv", KEY)), s_)]
                mods = {q: ret_ref for q in F.fns if q.endswith("::get_insn_mut") or q.endswith("::get_insn")}
                mods["insn_builder::Instruction::get_insn_mut"] = ret_ref
                mods["insn_builder::Instruction::get_insn"] = ret_ref
                evs = symex.Evaluator(F, models=mods)
                argv = T.V("ARG", W[m.group(2)])
                st0 = symex.St().set(KEY, insn_v)
                selfv = ("obj", "self", fn["thir"]["params"][0]["ty"])
                outs = [(v, s2) for v, s2 in (evs.run_fn(pth, [selfv, argv], st0) or []) if s2.feasible]
                ok = len(outs) == 1
                found = "%d paths" % len(outs)
                if ok:
                    after = outs[0][1].env.get(KEY)
                    fl = {k: x for k, x in after[3]} if isinstance(after, tuple) and after and after[0] == "struct" else {}
                    want = {f: T.V(f, w) for f, w in W.items()}
                    want[m.group(2)] = argv
                    want["opc"] = T.V("opc", 8)
                    ok = fl == want
                    found = "as expected" if ok else {k: symex._short(x) for k, x in fl.items() if want.get(k) != x}
                rep.ob(rg_, pth, ok, pth, expected="self.get_insn_mut().%s = <the argument>, nothing else" % m.group(2), found=found)
        for pth in sorted(F.fns):
            m = re.search(r"^<insn_builder::(\w+)<.*> as insn_builder::Instruction>::(get_insn|get_insn_mut)$", pth)
            if not m or not F.fns[pth].get("thir"):
                continue
            t = tail_of(F.fns[pth])
            while t.get("k") in ("ref", "deref"):
                t = strip(t["e"])
            base = strip(t.get("e") or {}) if t.get("k") == "field" else {}
            while base.get("k") in ("deref", "ref"):
                base = strip(base["e"])
            ok = t.get("k") == "field" and (t.get("ty") or "").endswith("ebpf::Insn") and base.get("k") in ("var", "upvar") and base.get("name") == "self"
            rep.ob(rg_, pth, ok, pth, expected="&self.<the Insn field>", found=t.get("name") if ok else "a different expression")
    rep.trust("rustc front end / typed THIR", "byteorder::LittleEndian::read_i16/read_i32 (modelled as little-endian byte lanes)")
    rep.assume("register numbers 0-15 (4-bit fields)")


def _ls(bits):
    out = []
    for b in bits:
        if isinstance(b, tuple) and isinstance(b[0], tuple):
            out.append("B%s.%d" % (b[0][1].split("('k', 64, ")[-1].split(")")[0] if "('k', 64, " in b[0][1] else "0", b[1]))
        elif isinstance(b, tuple):
            out.append("%s.%d" % (b[0], b[1]))
        else:
            out.append("?" if b is None else str(b))
    return " ".join(out)


def _norm_index(t):
    """canonicalise 8*idx + k index arithmetic inside sel terms (commuted products)"""
    if not isinstance(t, tuple):
        return t
    if t[0] == "op" and len(t) == 5:
        return T.op(t[1], t[2], _norm_index(t[3]), _norm_index(t[4]))
    return tuple(_norm_index(x) for x in t)


def _builder(cx, ev, exp):
    F = cx.F
    path = "<&I as insn_builder::IntoBytes>::into_bytes"
    fn = F.fns.get(path)
    if fn is None:
        return False, "IntoBytes impl not found"
    # the impl reads self.opt_code_byte(), get_dst(), get_src(), get_off(), get_imm(): treat them as the fields
    names = {"opt_code_byte": T.V("opc", 8), "get_dst": T.zext(8, T.V("dst", 4)), "get_src": T.zext(8, T.V("src", 4)),
             "get_off": T.V("off", 16), "get_imm": T.V("imm", 32)}

    def mk(val):
        def mdl(ev_, vals, n, s, path_, gens):
            return [(val, s)]
        return mdl

    models = {}
    for p in F.fns:
        for nm, val in names.items():
            if p.endswith("::" + nm):
                models[p] = mk(val)
    for nm, val in names.items():
        models["insn_builder::Instruction::" + nm] = mk(val)
    ev2 = symex.Evaluator(F, models=models)
    outs = ev2.run_fn(path, [("obj", "self", "&I")]) or []
    if len(outs) != 1:
        return False, "%d paths" % len(outs)
    arr = None
    for e in outs[0][1].effects:
        for a in (e[2] if e[0] == "call" else ()):
            if isinstance(a, tuple) and a and a[0] == "array" and len(a[1]) == 8:
                arr = a[1]
    v = outs[0][0]
    if isinstance(v, tuple) and v and v[0] == "array":
        arr = v[1]
    if arr is None:
        # the same eight bytes pushed one after the other (possibly from loops over constant tables, which unroll)
        pushes = [e for e in outs[0][1].effects if e[0] == "call" and isinstance(e[1], str) and e[1].endswith("Vec<T, A>::push")]
        if len(pushes) == 8 and len({repr(e[2][0]) for e in pushes}) == 1:
            arr = tuple(e[2][1] for e in pushes)
    if arr is None:
        return False, "no 8-byte array literal and no run of eight pushes (unrecognised-construct: %s)" % (outs[0][1].unrec[:2],)
    bad = [k for k in range(8) if not isinstance(arr[k], tuple) or T.lanes(arr[k]) != exp[k]]
    return not bad, "bytes differing: %s" % bad if bad else "all 8 bytes match"


ALU = {"add": "add", "sub": "sub", "mul": "mul", "div": "div", "bit_or": "or", "bit_and": "and", "left_shift": "lsh",
       "right_shift": "rsh", "negate": "neg", "modulo": "mod", "bit_xor": "xor", "mov": "mov", "signed_right_shift": "arsh"}
SIZE = {"Byte": 1, "HalfWord": 2, "Word": 4, "DoubleWord": 8}
COND = {"Abs": "ja", "Equals": "jeq", "Greater": "jgt", "GreaterEquals": "jge", "Lower": "jlt", "LowerEquals": "jle", "BitAnd": "jset",
        "NotEquals": "jne", "GreaterSigned": "jsgt", "GreaterEqualsSigned": "jsge", "LowerSigned": "jslt", "LowerEqualsSigned": "jsle"}


def _ref_opcode(meth, args):
    """reference opcode from the ISA table for a builder constructor call, or None when the combination
    is not an instruction of the ISA"""
    def find(**kw):
        c = [v for v, d in isa.TABLE.items() if all(d.get(k) == x for k, x in kw.items())]
        return c[0] if len(c) == 1 else None
    a = dict(args)
    srcbit = {"Imm": "K", "Reg": "X"}.get(a.get("Source"))
    width = {"X64": 64, "X32": 32}.get(a.get("Arch"))
    if meth in ALU:
        op = ALU[meth]
        if op == "neg":
            return find(kind="neg", width=width) if srcbit == "K" else None
        return find(kind="alu", op=op, width=width, src=srcbit)
    if meth == "swap_bytes":
        return find(kind="end", op={"Little": "le", "Big": "be"}[a["Endian"]])
    sz = SIZE.get(a.get("MemSize"))
    if meth == "load":
        if sz == 4:
            return 0x00     # BPF_LD | BPF_IMM | BPF_W: the second slot of the wide load, which the assembler and the
                            # encoder emit with opcode 0 (the only way to build that slot with the builder)
        return find(kind="lddw") if sz == 8 else None
    if meth in ("load_abs", "load_ind", "load_x", "store", "store_x"):
        return find(kind={"load_abs": "ldabs", "load_ind": "ldind", "load_x": "ldx", "store": "st", "store_x": "stx"}[meth], size=sz)
    if meth == "jump_unconditional":
        return find(kind="ja")
    if meth == "jump_conditional":
        c = COND.get(a.get("Cond"))
        if c == "ja":
            return find(kind="ja") if srcbit == "K" else None
        return find(kind="jcond", op=c, width=64, src=srcbit)
    if meth == "call":
        return find(kind="call")
    if meth == "exit":
        return find(kind="exit")
    return "?"


def _builder_opcodes(cx, rep, rd):
    import itertools
    F = cx.F
    ev = symex.Evaluator(F)
    meths = sorted(p.rsplit("::", 1)[1] for p in F.fns if p.startswith("insn_builder::BpfCode::") and F.fns[p].get("thir")
                   and not p.endswith("_internal") and p.rsplit("::", 1)[1] not in ("new", "default"))
    n = 0
    for m in meths:
        path = "insn_builder::BpfCode::" + m
        fn = F.fns[path]
        ptys = [q["ty"] for q in fn["thir"]["params"]]
        if not ptys or "BpfCode" not in ptys[0] or not fn.get("ret", fn.get("sig", "")) and False:
            continue
        enums = []
        okm = True
        for ty in ptys[1:]:
            adt = F.adts.get(ty)
            if not adt or adt["kind"] != "enum":
                okm = False
                break
            enums.append((ty, [v["name"] for v in adt["variants"]]))
        ret_ty = fn["thir"]["body"].get("ty", "")
        if not okm or "insn_builder::" not in ret_ty:
            continue            # not an instruction constructor (e.g. into_bytes helpers)
        for combo in itertools.product(*[vs for _, vs in enums]):
            args = [symex.struct(ty, vn, ()) for (ty, _), vn in zip(enums, combo)]
            named = [(ty.rsplit("::", 1)[1], vn) for (ty, _), vn in zip(enums, combo)]
            ref = _ref_opcode(m, named)
            key = "%s(%s)" % (m, ",".join(vn for _, vn in named))
            outs = ev.run_fn(path, [("obj", "code", ptys[0])] + args) or []
            got = None
            if len(outs) == 1 and isinstance(outs[0][0], tuple) and outs[0][0][0] == "struct":
                st_ty = outs[0][0][1]
                impl = [p for p in F.fns if p.endswith("as insn_builder::Instruction>::opt_code_byte") and ("<" + st_ty + "<") in p.replace(" ", "")]
                if len(impl) == 1:
                    o2 = ev.run_fn(impl[0], [outs[0][0]]) or []
                    if len(o2) == 1 and T.is_k(o2[0][0]):
                        got = o2[0][0][2]
            if ref == "?":
                rep.ob(rd, key, False, "builder constructor %s" % key, expected="a constructor known to the reference table", found="unknown constructor")
                continue
            if ref is None:
                continue        # the combination is not an ISA instruction (the builder can spell it; outside the statement)
            n += 1
            rep.ob(rd, key, got == ref, "opcode byte of BpfCode::%s" % key, expected="%#04x" % ref, found=("%#04x" % got) if got is not None else "not a constant",
                   sample=(key in ("add(Imm,X64)", "jump_conditional(Equals,Reg)")))
    rep.info("builder_constructor_combinations", n)


def _decode_all(cx):
    F = cx.F
    path = "ebpf::to_insn_vec"
    fn = F.fns.get(path)
    if not fn or not fn.get("thir"):
        return False, "missing"
    body = fn["thir"]["body"]
    loops = [n for n in walk(body) if n.get("k") == "loop"]
    if not loops:
        return _decode_all_iter(cx, fn, path)
    if len(loops) != 1:
        return False, "%d loops" % len(loops)
    # the decode call and its index variable
    dec = [n for n in walk(loops[0]) if n.get("k") == "call" and (callee_path(n) or "").endswith("get_insn")]
    if len(dec) != 1:
        return False, "%d decode calls in the loop" % len(dec)
    iv = strip(dec[0]["args"][1])
    if iv.get("k") not in ("var", "upvar"):
        return False, "decode index is not the loop counter"
    ev = symex.Evaluator(F)
    owner = ev.owner_of(path)
    pname = fn["thir"]["params"][0]["pat"]["name"]
    I = ("v", "I", 64)
    PROG = ("obj", pname, fn["thir"]["params"][0]["ty"])
    n_insns = T.op("udiv", 64, ("call", "len", (PROG,), 64), T.K(64, 8))
    st0 = symex.St()
    for q in fn["thir"]["params"]:
        if q["pat"] and q["pat"].get("k") == "bind":
            st0 = st0.set((owner, q["pat"]["id"]), PROG)
    # bindings made before the loop (e.g. `let n = prog.len() / INSN_SIZE;`)
    top = strip(body)
    if top.get("k") == "block":
        for stmt in top["stmts"]:
            if any(x is loops[0] for x in walk(stmt.get("e") or stmt.get("init") or {})):
                break
            if stmt["k"] != "let":
                continue
            fake = {"k": "block", "stmts": [stmt], "tail": None, "ty": "()"}
            nxt_states = [s2 for _v, s2 in ev.ev(fake, st0, path) if s2.exit is None and s2.feasible]
            if len(nxt_states) == 1:
                st0 = nxt_states[0]
    st0 = st0.set((owner, iv["id"]), I)
    lb = strip(loops[0]["body"])
    probs = []
    guards = (T.cmp("ult", 64, T.op("mul", 64, I, T.K(64, 8)), ("call", "len", (PROG,), 64)), T.cmp("ult", 64, I, n_insns))
    counting = lb.get("k") == "if"
    rng = [n for n in walk(body) if n.get("k") == "call" and (callee_path(n) or "").endswith("into_iter")]
    if lb.get("k") == "if":
        conds = ev.ev_cond(lb["c"], st0, path)
        ok_c = len(conds) == 1 and conds[0][0] in guards
        if not ok_c:
            probs.append("loop guard %s" % [T.show(c) for c, _ in conds][:1])
        then = lb.get("t") or lb.get("then")
        step_block = then
    elif not rng:
        # `loop { if <past the end> { break; } .. }`: one iteration is evaluated whole; it must leave the loop exactly
        # when the guard of the `while` form is false, and otherwise behave as the body of the `while` form
        counting = True
        whole = [(v, s2) for v, s2 in ev.ev(lb, st0, path) if s2.feasible]
        brk = [s2 for _v, s2 in whole if s2.exit is not None and s2.exit[0] == "break"]
        def negs(g):        # not (a < b)  is  b <= a
            return (T.lnot(g), T.cmp("ule", g[2], g[4], g[3]), T.cmp("uge", g[2], g[3], g[4]))
        def writes(s2):
            return [e for e in s2.effects if e[0] == "store" or (e[0] == "call" and isinstance(e[1], str) and e[1].endswith("::push"))]
        if not (len(brk) == 1 and not writes(brk[0]) and len(brk[0].conds) == 1 and any(brk[0].conds[0] in negs(g) for g in guards)):
            return False, "the loop is left under %s (%d leaving paths, effects %s)" % ([[_sh(c) for c in b_.conds] for b_ in brk][:2], len(brk), [len(b_.effects) for b_ in brk])
        g = next(g for g in guards if brk[0].conds[0] in negs(g))
        # the rest of the body under the guard
        st0 = st0.assume(g)
        step_block = {"k": "block", "stmts": [], "tail": None, "ty": "()", "_paths": [(v, s2) for v, s2 in whole if not (s2.exit is not None and s2.exit[0] == "break")]}
    else:
        # `for i in a..b`: the range handed to into_iter
        if len(rng) != 1:
            return False, "loop is neither `while` nor a single `for` over a range"
        vals = ev.ev(rng[0]["args"][0], st0, path)
        ok_r = False
        if len(vals) == 1 and isinstance(vals[0][0], tuple) and vals[0][0][0] == "struct" and vals[0][0][1].endswith("ops::Range"):
            a, b = symex.sfield(vals[0][0], "start"), symex.sfield(vals[0][0], "end")
            ok_r = a == T.K(64, 0) and b == n_insns
            if not ok_r:
                probs.append("range %s..%s" % (_sh(a), _sh(b)))
        else:
            probs.append("loop range is not a plain a..b")
        arms = [a for n in walk(lb) if n.get("k") == "match" for a in n["arms"] if any(x is dec[0] for x in walk(a["body"]))]
        step_block = arms[0]["body"] if arms else None
    if step_block is None:
        return False, "loop body not found"
    outs = step_block["_paths"] if isinstance(step_block, dict) and "_paths" in step_block else ev.ev(step_block, st0, path)
    import models as _models
    live = [(v, s2) for v, s2 in outs if s2.feasible and not _models._assertion_failure(s2)]      # assertions: not this rule's business
    if len(live) != 1:
        probs.append("%d paths through one iteration (an instruction may be skipped or handled specially)" % len(live))
    for _v, s2 in live:
        pushes = [e for e in s2.effects if e[0] == "call" and isinstance(e[1], str) and e[1].endswith("Vec<T, A>::push")]
        want = ev.run_fn("ebpf::get_insn", [PROG, I]) if False else None
        if len(pushes) != 1:
            probs.append("%d pushes per iteration" % len(pushes))
        else:
            x = pushes[0][2][1]
            fl = {k: y for k, y in x[3]} if isinstance(x, tuple) and x and x[0] == "struct" else {}
            okp = all(isinstance(fl.get(f), tuple) and fl[f][0] == "v" and isinstance(fl[f][1], tuple) and fl[f][1][0] == "insn" and fl[f][1][1] == I and fl[f][1][2] == f
                      for f in ("opc", "dst", "src", "off", "imm"))
            if not okp:
                probs.append("the pushed value is not get_insn(prog, i) unchanged")
        if s2.exit is not None and s2.exit[0] not in ("continue",):
            probs.append("an iteration leaves the loop (%s)" % (s2.exit[0],))
        if counting:
            nxt = s2.env.get((owner, iv["id"]))
            if nxt != T.op("add", 64, I, T.K(64, 1)):
                probs.append("counter step %s" % _sh(nxt))
    return not probs, sorted(set(probs)) or "guard, step and pushed value as expected"


def _decode_all_iter(cx, fn, path):
    """iterator form: `(0..len/8).map(|i| get_insn(prog, i)).collect()` - exactly these three stages"""
    F = cx.F
    body = fn["thir"]["body"]
    ev = symex.Evaluator(F)
    owner = ev.owner_of(path)
    pname = fn["thir"]["params"][0]["pat"]["name"]
    PROG = ("obj", pname, fn["thir"]["params"][0]["ty"])
    n_insns = T.op("udiv", 64, ("call", "len", (PROG,), 64), T.K(64, 8))
    st0 = symex.St()
    for q in fn["thir"]["params"]:
        if q["pat"] and q["pat"].get("k") == "bind":
            st0 = st0.set((owner, q["pat"]["id"]), PROG)
    top = strip(body)
    if top.get("k") != "block" or top.get("tail") is None:
        return False, "no loop and no tail expression"
    for stmt in top["stmts"]:
        if stmt["k"] != "let":
            continue
        fake = {"k": "block", "stmts": [stmt], "tail": None, "ty": "()"}
        nxt_states = [s2 for _v, s2 in ev.ev(fake, st0, path) if s2.exit is None and s2.feasible]
        if len(nxt_states) == 1:
            st0 = nxt_states[0]
    tail = strip(top["tail"])
    if tail.get("k") != "call" or not (callee_path(tail) or "").endswith("Iterator::collect"):
        return False, "the result is not collected from an iterator"
    mp = strip(tail["args"][0])
    if mp.get("k") != "call" or not (callee_path(mp) or "").endswith("Iterator::map"):
        return False, "collect is not applied directly to a map (a filter / skip / take stage changes which instructions are decoded)"
    vals = ev.ev(mp["args"][0], st0, path)
    I = ("v", "I", 64)
    form = "(0..len/8).map(get_insn).collect()"
    if len(vals) == 1 and isinstance(vals[0][0], tuple) and vals[0][0][:1] == ("chunks",):
        # the pieces of the program, one instruction slot each, in order: piece I is the slot of instruction I
        if not (vals[0][0][1] == PROG and vals[0][0][2] == 8):
            return False, "pieces of %s elements of %s" % (vals[0][0][2], _sh(vals[0][0][1]))
        item = ("subslice", PROG, T.op("mul", 64, I, T.K(64, 8)), 8)
        form = "prog.chunks_exact(8).map(get_insn(piece, 0)).collect()"
    else:
        if not (len(vals) == 1 and isinstance(vals[0][0], tuple) and vals[0][0][0] == "struct" and vals[0][0][1].endswith("ops::Range")):
            return False, "map is not applied directly to a range a..b or to the instruction-sized pieces of the program"
        a, b = symex.sfield(vals[0][0], "start"), symex.sfield(vals[0][0], "end")
        if not (a == T.K(64, 0) and b == n_insns):
            return False, "range %s..%s" % (_sh(a), _sh(b))
        item = I
    clo = [v for v, _s in ev.ev(mp["args"][1], vals[0][1], path)]
    if len(clo) != 1 or not (isinstance(clo[0], tuple) and clo[0] and clo[0][0] == "clo"):
        return False, "the mapped function is not a closure of this function"
    outs = [(v, s2) for v, s2 in (ev.inline_fn(clo[0][1], [item], mp, vals[0][1]) or []) if s2.feasible]
    if len(outs) != 1:
        return False, "%d paths through the mapped closure" % len(outs)
    x = outs[0][0]
    fl = {k: y for k, y in x[3]} if isinstance(x, tuple) and x and x[0] == "struct" else {}
    okp = all(isinstance(fl.get(f), tuple) and fl[f][0] == "v" and isinstance(fl[f][1], tuple) and fl[f][1][0] == "insn" and fl[f][1][1] == I and fl[f][1][2] == f
              for f in ("opc", "dst", "src", "off", "imm"))
    if not okp:
        return False, "the mapped value is not get_insn(prog, i) unchanged"
    return True, form


def _sh(t):
    try:
        return T.show(t)
    except Exception:
        return repr(t)[:80]
