"""C13 - the assembler emits exactly the encoding each mnemonic and operand list denotes.

Decided: (R13.a) the mnemonic table, obtained by constant-folding the table-building function
(literal arrays, loops over them, format! names, inserts), equals the reference table written from
the documented syntax: every mnemonic, its instruction type and its base opcode; (R13.b) for every
instruction type and every operand shape (20 shapes of Register / Integer / Memory operands)
`encode` either places operand i into the field the syntax prescribes, with the source bit chosen by
the second operand's kind and unused fields zero, or returns Err; (R13.c) the accepted ranges are
dst, src in [0,16), off in [-2^15, 2^15), imm in [-2^31, 2^31), and the narrowing casts are lossless
on them; (R13.d) lddw: slot 0 carries bits 0..32 and slot 1 (opcode 0) bits 32..64 of the literal;
(R13.f) assemble returns Err before producing any byte.  Byte layout of each slot: C17.
Not decided: acceptance of oversized numeric literals (value semantics of the parse)."""
import re

import asmmodel
import symex
import terms as T
from common import Ctx
from facts import walk, strip, callee_path


def fits(x, lo, hi, w=64):
    return T.land(T.cmp("sle", w, T.K(w, lo), x), T.cmp("slt", w, x, T.K(w, hi)))


def _sh(t):
    try:
        return T.show(t)
    except Exception:
        return repr(t)[:80]


def _only_var(c, x):
    """does the condition mention the variable x and no other variable?"""
    seen = set()

    def go(t):
        if isinstance(t, tuple):
            if len(t) == 3 and t[0] == "v":
                seen.add(t)
                return
            for y in t:
                go(y)
    go(c)
    return seen == {x}


def run(rep, tier):
    cx = Ctx(rep, "std")
    F = cx.F
    ra = rep.rule("R13.a", "every documented mnemonic, fed through the assembler's own name resolution with an accepted operand shape, yields the instruction(s) the reference table prescribes; with a wrong shape, an error", floor=92)
    ru = rep.rule("R13.u", "names outside the documented set (documented names with a suffix, prefix, letter dropped or in upper case) resolve to an error and emit nothing", floor=150)
    ref = asmmodel.reference_table()
    tab, src = asmmodel.mnemonic_table(F)
    rep.info("folded_table", "%d entries" % len(tab) if tab is not None else "not a literal map: %s" % (src,))
    if asmmodel.internal_entry(F) is None and not (F.fns.get("assembler::assemble") or {}).get("thir"):
        rep.ob(ra, "entry", False, "the function turning parsed instructions into Insn values", expected="fn(&[Instruction]) -> Result<Vec<Insn>, String>", found="not found")
        return
    evr = symex.Evaluator(F)
    evr.unroll = True
    for name, (itype, payload, base) in sorted(ref.items()):
        valid = [sh for sh in asmmodel.SHAPES if asmmodel.expected_insns(itype, payload, base, sh) is not None]
        shapes = asmmodel.SHAPES if tier == "thorough" else valid + [sh for sh in ((), ("R", "R", "R")) if sh not in valid]
        probs = []
        for sh in shapes:
            exp = asmmodel.expected_insns(itype, payload, base, sh)
            r = asmmodel.resolve(F, evr, name, sh)
            if r is None:
                probs.append("%s: not evaluable" % ("".join(sh) or "-"))
                continue
            oks = [x for x in r if x["res"] == "Ok"]
            odd = [x for x in r if x["res"] in ("panic", "?")]
            tag = "".join(sh) or "-"
            if odd:
                probs.append("%s: a path neither Ok nor Err (%s)" % (tag, odd[0]["res"]))
            if exp is None:
                if oks:
                    probs.append("%s: accepted, emits opcode %s" % (tag, _sh(oks[0]["insns"][0].get("opc")) if oks[0]["insns"] else "nothing"))
            elif not oks:
                probs.append("%s: rejected" % tag)
            else:
                for x in oks:
                    if len(x["insns"]) != len(exp) or not all(asmmodel.same_insn(g, e) for g, e in zip(x["insns"], exp)):
                        got = x["insns"][0] if x["insns"] else {}
                        diff = {k: (_sh(got.get(k)), _sh(e)) for k, e in exp[0].items() if got.get(k) != e}
                        probs.append("%s: %d instruction(s), fields (found, expected) %s" % (tag, len(x["insns"]), diff))
                        break
        rep.ob(ra, "mnemonic=%s" % name, not probs, "mnemonic `%s` (%s, base opcode %#04x)" % (name, itype, base),
               expected="the reference instruction for accepted shapes, Err otherwise", found=probs[:3] or "%d shapes agree" % len(shapes),
               sample=(name in ("add", "ldxw", "be16")))
    probes = set()
    for name in ref:
        cands = [name + "64", name[:-1]] if tier != "thorough" else [name + "64", name + "32", name + "x", "x" + name, name[:-1], name[1:], name.upper()]
        for c in cands:
            if c and c not in ref:
                probes.add(c)
    probes |= {"", "0", "r1", "64"}
    probes.discard("")
    for c in sorted(probes):
        acc = []
        for sh in ((), ("R",), ("R", "I"), ("R", "R")):
            r = asmmodel.resolve(F, evr, c, sh) or []
            if any(x["res"] != "Err" or x["insns"] for x in r) or not r:
                acc.append("".join(sh) or "-")
        rep.ob(ru, "name=%s" % c, not acc, "undocumented name `%s`" % c, expected="Err, nothing emitted", found=("accepted with shapes %s" % acc) if acc else "Err")

    rb = rep.rule("R13.b", "encode: operand placement per (instruction type, operand shape)", floor=14 * 20)
    rc = rep.rule("R13.c", "accepted operand ranges == field widths", floor=16)
    ev = symex.Evaluator(F)
    ev.unroll = True
    n_ok = 0
    for itype in asmmodel.ITYPES:
        for shape in asmmodel.SHAPES:
            outs, enc = asmmodel.encode_paths(F, ev, itype, shape)
            if outs is None:
                rep.ob(rb, "encode", False, "encode function", found=enc)
                return
            oks = [(v, s) for v, s in outs if isinstance(v, tuple) and v[0] == "struct" and v[2] == "Ok"]
            errs = [(v, s) for v, s in outs if isinstance(v, tuple) and v[0] == "struct" and v[2] == "Err"]
            unrec = [u for _v, s in outs for u in s.unrec]
            want = asmmodel.reference_encode(itype, shape)
            key = "%s/%s" % (itype, "".join(shape) or "-")
            if want is None:
                rep.ob(rb, key, not oks and bool(errs) and not unrec, "%s with operand shape %s" % (itype, shape or "()"),
                       expected="Err", found="%d Ok paths %s" % (len(oks), unrec[:2]))
                continue
            good = len(oks) == 1 and not unrec
            found = "%d Ok paths" % len(oks)
            if good:
                insn = symex.sfield(oks[0][0], "0")
                f = {k: x for k, x in insn[3]}
                bit, dst, src_, off, imm = want

                def opnd(nm, w):
                    if nm == 0 or nm == 1:
                        return T.K(w, nm)
                    if nm == "SIZE":
                        return T.trunc(w, T.V("SIZE", 64))
                    if isinstance(nm, str) and nm.startswith("LOW32"):
                        v = T.V("int1", 64)
                        return T.trunc(32, T.shift("ashr", 64, T.shift("shl", 64, v, T.K(64, 32)), T.K(64, 32)))
                    return T.trunc(w, T.V(nm, 64))

                exp = {"opc": T.V("opc", 8) if bit in (None, 0) else T.op("or", 8, T.V("opc", 8), T.K(8, bit)),
                       "dst": opnd(dst, 8), "src": opnd(src_, 8), "off": opnd(off, 16), "imm": opnd(imm, 32)}
                diff = {k: (T.show(f.get(k)) if isinstance(f.get(k), tuple) else f.get(k), T.show(e)) for k, e in exp.items()
                        if f.get(k) != e and not (k == "imm" and isinstance(f.get(k), tuple) and T.lanes(f[k]) == T.lanes(e) and None not in T.lanes(e))}
                good = not diff
                found = diff or "fields as prescribed"
                if good:
                    n_ok += 1
                    # range predicates on the Ok path
                    conds = set()
                    for c in oks[0][1].conds:
                        st = [c]
                        while st:
                            x = st.pop()
                            if x[0] == "land":
                                st.extend([x[1], x[2]])
                            else:
                                conds.add(x)
                    # decided semantically: the conjunction of the path's conditions on one operand, evaluated at the
                    # boundaries, accepts exactly the field's range (however the test is spelled: `contains`,
                    # two comparisons, `i16::try_from`, ...)
                    import vmodel
                    probs = []
                    for nm, lo, hi, lower in ((dst, 0, 16, True), (src_, 0, 16, False), (off, -32768, 32768, True), (imm, -(1 << 31), 1 << 31, True)):
                        if not (isinstance(nm, str) and not nm.startswith("LOW32") and nm != "SIZE"):
                            continue
                        x = T.V(nm, 64)
                        mine = []
                        for c in conds:
                            vs = set()
                            if isinstance(c, tuple) and c and c[0] in ("cmp", "not", "lor") and _only_var(c, x):
                                mine.append(c)
                        reps = {lo, lo + 1, hi - 1, hi, hi + 1, hi + 65536, (1 << 63) - 1, 0, 1}
                        if lower:
                            reps |= {lo - 1, lo - 65536, -(1 << 63), -1}
                        for r_ in sorted(reps):
                            try:
                                acc = all(vmodel._beval(c, {x: r_ & ((1 << 64) - 1)}, {}) for c in mine)
                            except Exception as e:
                                probs.append("%s: a condition is not evaluable (%s)" % (nm, str(e)[:40]))
                                break
                            if acc != (lo <= r_ < hi) and not (not lower and r_ < lo):
                                probs.append("%s = %d is %s" % (nm, r_, "accepted" if acc else "refused"))
                    rep.ob(rc, key, not probs, "range checks on the accepting path of %s" % key,
                           expected="dst, src in 0..16 (src: < 16), off in -2^15..2^15, imm in -2^31..2^31", found=sorted(set(probs))[:4] or "exactly the field ranges")
            rep.ob(rb, key, good, "%s with operand shape %s" % (itype, shape), expected="Ok with %s" % (want,), found=found, sample=(key == "LoadReg/RM"))
    rep.info("accepted_shapes", n_ok)

    # R13.d lddw second slot
    rd = rep.rule("R13.d", "lddw: second slot has opcode 0 and carries bits 32..64 of the literal", floor=1)
    ai = [p for p in F.fns if p.startswith("assembler::") and any(
        n.get("k") == "call" and (callee_path(n) or "").endswith("HashMap<K, V, S, A>::get") for n in walk(F.fns[p]["thir"]["body"] if F.fns[p].get("thir") else {}))]
    # decided by evaluating the assembler on the wide load (through its own name resolution): two slots, the second all
    # zero except imm = bits 32..64 of the literal
    evd = symex.Evaluator(F)
    evd.unroll = True
    wide = sorted(nm for nm, e in ref.items() if e[0] == "LoadImm")
    okd, foundd = bool(wide), "no wide-load mnemonic in the reference table"
    for nm in wide:
        res = [x for x in (asmmodel.resolve(F, evd, nm, ("R", "I")) or []) if x["res"] == "Ok"]
        want2 = {"opc": T.K(8, 0), "dst": T.K(8, 0), "src": T.K(8, 0), "off": T.K(16, 0),
                 "imm": T.trunc(32, T.shift("ashr", 64, T.V("int1", 64), T.K(64, 32)))}
        okd = len(res) == 1 and len(res[0]["insns"]) == 2 and asmmodel.same_insn(res[0]["insns"][1], want2)
        foundd = "two slots, second = (0, 0, 0, 0, imm >> 32)" if okd else {"ok_paths": len(res), "slots": [len(x["insns"]) for x in res],
                                                                              "second": {k: _sh(v) for k, v in (res[0]["insns"][1].items() if res and len(res[0]["insns"]) > 1 else [])}}
        if not okd:
            break
    rep.ob(rd, "second-slot", okd, "second slot of lddw", expected="insn(0, 0, 0, 0, imm >> 32)", found=foundd)

    # R13.g how numeric text becomes a value (sign, radix, combination), register numbers
    rg = rep.rule("R13.g", "numeric literals: '-' negates and '+'/none keeps, `0x` digits are read in radix 16, other digits as decimal i64, value = sign * magnitude (wrapping); register numbers are decimal", floor=6)
    evg = symex.Evaluator(F)

    def clo(path, *args):
        try:
            return evg.run_fn(path, list(args)) or []
        except Exception:      # fail closed below
            return []
    from dispatch import thir_reach

    def family(root):
        """root, the asm_parser functions it reaches, and all their closures (parsers may be split into helpers)"""
        fam = {q for q in thir_reach(F, [root]) if q.startswith("asm_parser::")} | {root}
        return sorted(q for q in F.fns if F.fns[q].get("thir") and any(q == r or q.startswith(r + "::{closure") for r in fam))

    def calls_in(paths):
        return [n for q in paths for n in walk(F.fns[q]["thir"]["body"]) if n.get("k") == "call"]
    fam_int, fam_reg = family("asm_parser::integer"), family("asm_parser::register")

    def param_tys(q):
        return [x.get("ty") for x in F.fns[q]["thir"]["params"]]
    # the parts are found by what they are (parameter types), not by closure numbering
    sign_c = [q for q in fam_int if "{closure" in q and any(re.search(r"option::Option<char>$", t or "") for t in param_tys(q))]
    sign = {}
    for nm, arg in (("-", symex.some(T.K(32, ord("-")))), ("+", symex.some(T.K(32, ord("+")))), ("none", symex.NONE)):
        outs = [v for v, st in (clo(sign_c[0], arg) if len(sign_c) == 1 else []) if st.feasible]
        sign[nm] = outs[0] if len(outs) == 1 and T.is_k(outs[0]) else None
    # whatever encodes the sign (a factor -1 / 1, a flag): '+' and no sign mean the same, '-' something else;
    # what it does to the magnitude is the `combine` obligation below
    sign_ok = None not in sign.values() and sign["+"] == sign["none"] and sign["-"] != sign["+"]
    sign_shown = {k: (T.sval(v) if v is not None else None) for k, v in sign.items()}
    rep.ob(rg, "sign", sign_ok, "sign closure of the integer parser", expected="'+' and no sign give one value, '-' another", found=sign_shown)
    radix = [strip(n["args"][1]).get("v") for n in calls_in(fam_int) if (callee_path(n) or "").endswith("<impl u64>::from_str_radix")]
    rep.ob(rg, "hex-radix", radix == [16], "radix of the `0x` branch", expected=[16], found=radix)
    cast_c = [q for q in fam_int if "{closure" in q and param_tys(q)[-1:] == ["u64"]]
    cast = clo(cast_c[0], T.V("m", 64)) if len(cast_c) == 1 else []
    rep.ob(rg, "hex-cast", len(cast) == 1 and cast[0][0] == T.V("m", 64), "the 64-bit magnitude is reinterpreted as i64 (so 0x8000000000000000.. denote negative values, needed for lddw)",
           expected="m as i64", found=[_sh(v) for v, _ in cast])

    def parse_ty(paths):
        return [((n.get("callee") or {}).get("generics") or n.get("generics") or [n.get("ty")])[0] for n in calls_in(paths) if (callee_path(n) or "").endswith("<impl str>::parse")]
    dec = parse_ty(fam_int)
    rep.ob(rg, "decimal", len(dec) == 1 and "i64" in str(dec[0]), "decimal branch parses an i64 with str::parse (radix 10)", expected="str::parse::<i64>", found=dec)
    b = T.V("x", 64)
    comb_c = [q for q in fam_int if "{closure" in q and re.match(r"^\(\w+, i64\)$", (param_tys(q)[-1:] or [""])[0] or "")]
    negx = (T.op("mul", 64, T.K(64, -1), b), T.op("mul", 64, b, T.K(64, -1)), T.op("sub", 64, T.K(64, 0), b), T.neg(64, b))
    comb_found, comb_ok = {}, len(comb_c) == 1 and sign_ok
    for nm in ("-", "+", "none"):
        res = [v for v, st in (clo(comb_c[0], ("struct", "tuple", "tuple", (("0", sign[nm]), ("1", b)))) if comb_ok or (len(comb_c) == 1 and sign[nm] is not None) else []) if st.feasible]
        comb_found[nm] = [_sh(v) for v in res]
        want = negx if nm == "-" else (b,)
        comb_ok = comb_ok and len(res) == 1 and res[0] in want
    rep.ob(rg, "combine", comb_ok, "value = magnitude, negated (wrapping) after '-'", expected={"-": "0 - x (wrapping)", "+": "x", "none": "x"}, found=comb_found)
    regp = parse_ty(fam_reg)
    rep.ob(rg, "register", len(regp) == 1 and "i64" in str(regp[0]), "register number parses as a decimal i64", expected="str::parse::<i64>", found=regp)
    lits = {}
    for fnm, fam in (("asm_parser::integer", fam_int), ("asm_parser::register", fam_reg)):
        # the literals handed to token parsers (char('r'), string("0x"), one_of("-+".chars()))
        lits[fnm] = sorted({x["v"] for c in calls_in(fam) if re.search(r"::(char|string|one_of|token|tokens)$", callee_path(c) or "")
                            for x in walk(c["args"]) if x.get("k") == "lit" and isinstance(x.get("v"), str)})
        lits[fnm + ":comb"] = sorted({(callee_path(n) or "").rsplit("::", 1)[-1] for n in calls_in(fam)} & {"hex_digit", "digit", "string", "one_of", "char", "many1", "optional", "attempt"})
    rep.ob(rg, "grammar", lits.get("asm_parser::integer") == ["-+", "0x"] and {"hex_digit", "digit", "string", "one_of"} <= set(lits["asm_parser::integer:comb"])
           and lits.get("asm_parser::register") == ["r"] and {"char", "digit"} <= set(lits["asm_parser::register:comb"]),
           "token literals and digit classes", expected={"integer": ["-+", "0x", "hex_digit", "digit"], "register": ["r", "digit"]}, found=lits)

    # R13.w white space between tokens: combine's `spaces()` (char::is_whitespace: blanks, tabs, every line-end
    # convention, form feeds); a hand-written class of blanks narrows the documented syntax
    rw_ = rep.rule("R13.w", "inter-token white space is recognised by combine's spaces() only: no local parser named spaces/space, no literal made of white-space characters in the grammar", floor=2)
    sp_calls, ws_lits = {}, []
    # the grammar: the functions of asm_parser that build parsers (`-> impl Parser`), the entry point, and their closures
    def grammar_fn(q):
        root = q.split("::{closure")[0]
        return root == "asm_parser::parse" or "Parser<" in (F.fns.get(root, {}).get("ret") or "")
    for pth, fn in F.fns.items():
        if not pth.startswith("asm_parser::") or not fn.get("thir") or not grammar_fn(pth):
            continue
        for n in walk(fn["thir"]["body"]):
            if n.get("k") == "call" and re.search(r"::(spaces|space|skip_spaces|whitespace)$", callee_path(n) or ""):
                sp_calls.setdefault(callee_path(n), set()).add(pth.split("::{")[0])
            if pth.split("::{closure")[0] != "asm_parser::parse" and n.get("k") == "lit" and isinstance(n.get("v"), str) and n["v"] and not n["v"].strip() \
                    and n.get("lk") in ("str", "char", None):
                ws_lits.append((pth, repr(n["v"])))
            # in the entry point only what is handed to a combine parser counts (its error text may contain line breaks)
            if pth.split("::{closure")[0] == "asm_parser::parse" and n.get("k") == "call" and (callee_path(n) or "").startswith("combine::"):
                for x in walk(n["args"]):
                    if x.get("k") == "lit" and isinstance(x.get("v"), str) and x["v"] and not x["v"].strip():
                        ws_lits.append((pth, repr(x["v"])))
    local_ws = sorted(c for c in sp_calls if not c.startswith("combine::"))
    from dispatch import thir_reach
    reach_parse = thir_reach(F, ["asm_parser::parse"])
    uses = sorted(f for c, fs in sp_calls.items() if c == "combine::parser::char::spaces" for f in fs)
    rep.ob(rw_, "spaces", not local_ws and bool(uses) and any(u in reach_parse or u == "asm_parser::parse" for u in uses),
           "parsers used for white space", expected="combine::parser::char::spaces, reachable from asm_parser::parse", found={"combine spaces used in": uses, "local": local_ws})
    rep.ob(rw_, "literals", not ws_lits, "white-space-only literals in the grammar", expected="none", found=ws_lits[:4] or "none")

    # R13.h the operand grammar must give input back when a register turns out to be a mnemonic
    rh = rep.rule("R13.h", "an instruction without operands can be followed by a mnemonic that starts like a register: the register alternative of `operand` must backtrack (combine commits once input is consumed)", floor=1)
    okh, foundh = asmmodel.register_vs_mnemonic(F, ref)
    conflict, noop = foundh["mnemonics starting with r"], foundh["operand-less mnemonics"]
    rep.ob(rh, "register-vs-mnemonic", okh,
           "`%s` followed by `%s ...`: after the operand-less instruction the parser tries `operand`, `register` consumes the `r` and fails on the next letter" % ((noop or ["?"])[0], (conflict or ["?"])[0]),
           expected="attempt(register()) in operand (or in register itself), or no mnemonic starting with `r`, or no operand-less mnemonic",
           found=foundh)

    # R13.s: a program is assembled instruction by instruction, in order, nothing skipped, repeated or reordered
    rs = rep.rule("R13.s", "a sequence of instructions assembles to the concatenation, in source order, of what each instruction assembles to alone", floor=1)
    names = sorted(ref)
    pick = {}
    for nm in names:
        it = ref[nm][0]
        pick.setdefault(it, nm)
    seq = []
    for j, (it, shape) in enumerate((("NoOperand", ()), ("LoadImm", ("R", "I")), ("AluBinary", ("R", "R")), ("NoOperand", ()))):
        if it in pick:
            seq.append((pick[it], tuple(asmmodel.operand(k, 10 * j + i) for i, k in enumerate(shape))))
    evs = symex.Evaluator(F)
    evs.unroll = True
    singles = []
    for nm, ops in seq:
        r1 = [x for x in (asmmodel.resolve(F, evs, nm, ops=ops) or []) if x["res"] == "Ok"]
        singles.append(r1[0]["insns"] if len(r1) == 1 else None)
    whole = [x for x in (asmmodel.resolve_seq(F, evs, seq) or []) if x["res"] == "Ok"]
    oks = len(seq) == 4 and None not in singles and len(whole) == 1
    founds = "%d instructions, %d Ok paths" % (len(seq), len(whole))
    if oks:
        want = [i for sgl in singles for i in sgl]
        got = whole[0]["insns"]
        oks = len(got) == len(want) and all(asmmodel.same_insn(g, w) for g, w in zip(got, want))
        founds = "%d slots emitted, %d expected%s" % (len(got), len(want), "" if oks else "; order or content differs")
    rep.ob(rs, "sequence", oks, "`%s` assembled as one program" % "; ".join(nm for nm, _ in seq), expected="the four encodings in order (the wide load contributing two slots)", found=founds)

    rf = rep.rule("R13.f", "assemble produces no bytes on error", floor=1)
    evo = symex.Evaluator(F, opaque_calls=lambda p: p.startswith("asm_parser::") or p in ai)
    outs = evo.run_fn("assembler::assemble", [("obj", "SRC", "&str")]) or []
    errs = [(v, s) for v, s in outs if isinstance(v, tuple) and v[0] == "struct" and v[2] == "Err"]
    bad = [s for v, s in errs if any(e[0] == "call" and e[1].endswith("extend_from_slice") for e in s.effects)]
    rep.ob(rf, "assemble", len(errs) >= 1 and not bad, "Err paths of assemble", expected="return before any byte is appended", found="%d Err paths, %d with appended bytes" % (len(errs), len(bad)))
    # the bytes the assembler emits are Insn::to_array of the encoded instruction: the encoder lanes (C17/R17.a)
    import props.c17 as c17
    c17.run(rep, tier, parts=("enc",))
    rep.trust("rustc front end / typed THIR", "combine parser combinators", "hashbrown::HashMap (insert/get semantics)",
              "asmmodel.reference_table / reference_encode: written from the syntax listing the README defers to")
    rep.assume("numeric literal parsing (decimal / 0x hexadecimal, optional sign) is combine's and core's; panic-freedom is C14")
