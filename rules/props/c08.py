"""C08 - helper calls follow the documented contract in every engine.

Decided per engine from the call arm's summary: (R08.a) the lookup key is `imm as u32`; (R08.b) the
arguments are (r1..r5) in order - interpreter: register-file reads; Cranelift: the five register
variables; JIT: the SysV argument registers rdi, rsi, rdx, rcx, r8 hold r1..r5 at the call; (R08.c)
the result lands in r0; (R08.d) exactly one call per path, an unregistered id reaches Err (run time
for the interpreter, compile time for both compilers); (R08.e) r6-r10 are unchanged across the
call; (R08.f) the x86 stack is 16-byte aligned at the call instruction at every local-call depth
(prologue delta, per-local-call delta and call-site pushes accounted from the SysV entry state)."""
import re

import clmodel
import symex
from facts import walk, strip, callee_path
import imodel
import isa
import jitmodel
import terms as T
import x86model as X
from common import Ctx, is_inner_vm

CALL = next(v for v, d in isa.TABLE.items() if d["kind"] == "call")
IMM = ("v", "imm", 32)


def reg(k):
    return ("sel", imodel.REG, T.K(64, k), 64)


def _name_site(F, fn_path, callee_suffix, argi):
    """the `format!` that produces the name passed as argument `argi` of the call to `callee_suffix`:
    {template, args [(name, type)], arg_ids}"""
    fn = F.fns.get(fn_path)
    if not fn:
        return None
    name_id = None
    for n in walk(fn["thir"]["body"]):
        if n.get("k") == "call" and (callee_path(n) or "").endswith(callee_suffix) and len(n["args"]) > argi:
            ids = [x.get("id") for x in walk(n["args"][argi]) if x.get("k") in ("var", "upvar")]
            if len(ids) == 1:
                name_id = ids[0]
    if name_id is None:
        # the name may be produced inside a closure handed to a bulk registration (`symbols(iter.map(..))`):
        # take the only `format!` of the function and its closures
        sites = []
        for pth, f2 in F.fns.items():
            if (pth == fn_path or pth.startswith(fn_path + "::{closure")) and f2.get("thir"):
                for i in walk(f2["thir"]["body"]):
                    if i.get("k") == "call" and (callee_path(i) or "").endswith("fmt::format") and i.get("snip"):
                        m = symex._FMT_RE.match(i["snip"])
                        if m and "helper" in m.group(1):
                            vs = [(x.get("name"), x.get("ty"), x.get("id")) for x in walk(i) if x.get("k") in ("var", "upvar") and x.get("name") != "args"]
                            sites.append({"template": m.group(1), "args": [(a, b) for a, b, _ in vs], "arg_ids": [c for _, _, c in vs]})
        return sites[0] if len(sites) == 1 else None
    for n in walk(fn["thir"]["body"]):
        if n.get("k") != "block":
            continue
        for st in n["stmts"]:
            if st["k"] == "let" and st.get("init") and st["pat"].get("k") == "bind" and st["pat"].get("id") == name_id:
                for i in walk(st["init"]):
                    if i.get("k") == "call" and (callee_path(i) or "").endswith("fmt::format") and i.get("snip"):
                        m = symex._FMT_RE.match(i["snip"])
                        if not m:
                            return None
                        vs = [(x.get("name"), x.get("ty"), x.get("id")) for x in walk(i) if x.get("k") in ("var", "upvar") and x.get("name") != "args"]
                        return {"template": m.group(1), "args": [(a, b) for a, b, _ in vs], "arg_ids": [c for _, _, c in vs]}
    return None


def _pat_ids(p):
    return {x.get("id") for x in walk(p) if isinstance(x, dict) and x.get("k") == "bind"}


def _mentions_helpers(n):
    return any((x.get("k") == "field" and x.get("name") == "helpers") or (x.get("k") in ("var", "upvar") and x.get("name") == "helpers") for x in walk(n))


def _key_of_helpers(F, fn_path, var_id):
    """is the variable bound by iterating over the helper table (`for (k, _) in helpers.iter()`, `for k in helpers.keys()`,
    or the parameter of a closure mapped over such an iterator)?"""
    fn = F.fns.get(fn_path)
    if not fn or not fn.get("thir"):
        return False
    body = fn["thir"]["body"]
    for m in walk(body):
        if m.get("k") == "match" and strip(m["scrut"]).get("k") == "call" and (callee_path(strip(m["scrut"])) or "").endswith("into_iter") \
                and _mentions_helpers(m["scrut"]):
            inner = [a["pat"] for x in walk(m["arms"]) if x.get("k") == "match" for a in x["arms"]]
            if any(var_id in _pat_ids(p) for p in inner):
                return True
    for pth, f2 in F.fns.items():
        if pth.startswith(fn_path + "::{closure") and f2.get("thir") and any(var_id in _pat_ids(q.get("pat") or {}) for q in f2["thir"]["params"]):
            for c in walk(body):
                if c.get("k") == "call" and _mentions_helpers(c) and any(x.get("k") == "closure" and x.get("path") == pth for x in walk(c)):
                    return True
    return False


def register_rules(rep, cx):
    """R08.r: register_helper(k, f) files f under k (replacing an earlier registration)"""
    F = cx.F
    rr = rep.rule("R08.r", "register_helper(k, f) files f under k, unchanged, on every VM kind", floor=4)
    import props.c10 as c10
    for kind in c10.KINDS:
        path = kind + "::register_helper"
        fn = F.fns.get(path)
        if not fn:
            rep.ob(rr, path, False, "%s exists" % path, found="missing")
            continue
        ev = symex.Evaluator(F, opaque_calls=lambda q: q.endswith("::register_helper") and q != path)
        args = [ev.sym_for("new_key", fn["thir"]["params"][1]["ty"]), ev.sym_for("new_fn", fn["thir"]["params"][2]["ty"])]
        key, sv, outs = c10.run_method(ev, F, path, args)
        ok, found = len(outs) == 1, "%d paths" % len(outs)
        if ok:
            calls = [e for e in outs[0][1].effects if e[0] == "call" and isinstance(e[1], str)]
            ins = [e for e in calls if e[1].endswith("HashMap<K, V, S, A>::insert")]
            dele = [e for e in calls if e[1].endswith("::register_helper")]
            if ins:
                ok = len(ins) == 1 and "helpers" in repr(ins[0][2][0]) and list(ins[0][2][1:3]) == args and not dele
                found = "insert(%s, %s)" % tuple("argument" if x == a else repr(x)[:50] for x, a in zip(ins[0][2][1:3], args))
            else:
                ok = len(dele) == 1 and is_inner_vm(dele[0][2][0]) and list(dele[0][2][1:3]) == args
                found = "delegates" if ok else "delegates with other arguments"
            ok = ok and c10.result_kind(outs[0][0]) in ("Ok", "?")
        rep.ob(rr, path, ok, path, expected="helpers.insert(key, function), or delegation with both arguments", found=found)



def helper_symbol_rules(rep, cc):
    """R08.k: registration name == import name (also an obligation of C12: an unresolved import panics inside cranelift-jit)"""
    rk = rep.rule("R08.k", "Cranelift: the symbol name under which helper k is registered == the import name declared for key k; the func ref is filed under k", floor=3)
    def site_of(suffix):
        """the one call of `suffix` in the Cranelift back end whose name argument is a formatted string (the function
        that contains it may have any name)"""
        found = []
        for p, fn in sorted(cc.F.fns.items()):
            if p.startswith("cranelift::") and fn.get("thir") and "{closure" not in p and \
                    any(x.get("k") == "call" and re.search(re.escape(suffix) + r"s?$", callee_path(x) or "") for x in walk(fn["thir"]["body"])):
                st = _name_site(cc.F, p, suffix, 1)
                if st is not None and st.get("template") is not None:
                    found.append((p, st))
        return found[0] if len(found) == 1 else (None, None)
    reg_fn, reg_site = site_of("JITBuilder::symbol")
    dec_fn, dec_site = site_of("::declare_function")
    norm = lambda t: re.sub(r"\{[A-Za-z_0-9]*(:[^}]*)?\}", lambda m: "{" + (m.group(1) if m.group(1) and m.group(1) != ":" else "") + "}", t)
    rep.ob(rk, "template", reg_site is not None and dec_site is not None and norm(reg_site["template"]) == norm(dec_site["template"]),
           "format template of the helper symbol name at registration and at import declaration",
           expected="identical templates", found=[reg_site and reg_site["template"], dec_site and dec_site["template"]])
    def keyed(site, fn_path):
        return site is not None and len(site["args"]) == 1 and site["args"][0][1] in ("&u32", "u32") and _key_of_helpers(cc.F, fn_path, site["arg_ids"][0])
    rep.ob(rk, "argument", keyed(reg_site, reg_fn) and keyed(dec_site, dec_fn),
           "argument formatted into the name", expected="at both sites the one argument is the key (u32) bound by iterating over the helper table",
           found=[reg_site and reg_site["args"], dec_site and dec_site["args"]])
    ins = None
    fnp = cc.F.fns.get(dec_fn) if dec_fn else None
    if fnp and dec_site:
        for n in walk(fnp["thir"]["body"]):
            if n.get("k") == "call" and (callee_path(n) or "").endswith("::insert") and "helper_func_refs" in repr(n["args"][0])[:2000]:
                ins = [x.get("id") for x in walk(n["args"][1]) if x.get("k") in ("var", "upvar")]
    rep.ob(rk, "filed-under", bool(ins) and dec_site is not None and ins == dec_site["arg_ids"],
           "key under which the declared func ref is stored", expected="the key formatted into the import name", found=ins)


def run(rep, tier, parts=("interp", "jit", "cranelift", "api")):
    cx = Ctx(rep, "std")
    im = imodel.InterpModel(cx)
    jm = jitmodel.JitModel(cx)
    if not (im.ok and jm.ok):
        return
    if "interp" in parts:
        # ---------------- interpreter
        ri = rep.rule("R08.i", "interpreter: helpers[imm as u32](r1..r5) -> r0, once; unknown id -> Err; r6-r10 untouched", floor=1)
        # every interpreter path a helper call (src == 0) can take: the ones not excluded by the call kind
        from props.c05 import incompatible
        src0 = [T.cmp("eq", 8, ("v", "src", 8), T.K(8, 0))]
        paths = [p for p in im.summary(CALL) if not incompatible(list(p["conds"]), src0)]
        called = [p for p in paths if p["calls"]]
        missing = [p for p in paths if not p["calls"]]
        ok = len(called) == 1 and len(missing) == 1
        if ok:
            # the helper runs whenever it is registered: no condition other than the call kind and the lookup
            extra = [c for c in called[0]["conds"] if c != T.cmp("eq", 64, T.zext(64, ("v", "src", 8)), T.K(64, 0)) and "is_Some" not in repr(c)[:40]]
            extra_m = [c for c in missing[0]["conds"] if c != T.cmp("eq", 64, T.zext(64, ("v", "src", 8)), T.K(64, 0)) and "is_Some" not in repr(c)[:60]]
            ok = not extra and not extra_m
        found = {}
        if ok:
            p = called[0]
            c = p["calls"][0]
            args = list(c[3]) if len(c) > 3 else []
            lookups = [e for e in im.per_opcode(CALL)[0]["effects"]] if False else []
            found = {"args": [T.show(a) for a in args], "writes": [T.show(k) for k in p["regs"]], "exit_missing": missing[0]["exit"]}
            ok = args == [reg(k) for k in range(1, 6)] and list(p["regs"].keys()) == [T.K(64, 0)] and p["exit"] is None and \
                missing[0]["exit"] == ("err",) and not missing[0]["regs"] and not missing[0]["stores"]
            # the key: HashMap::get(HELPERS, imm)
            keyok = False
            for q in im.per_opcode(CALL):
                for e in q["effects"]:
                    if e[0] == "call" and isinstance(e[1], str) and e[1].endswith("HashMap<K, V, S, A>::get") and "HELPERS" in repr(e[2][0]):
                        keyok = keyok or e[2][1] == IMM
            found["key_is_imm_u32"] = keyok
            ok = ok and keyok
        rep.ob(ri, "call", ok, "interpreter helper-call arm (src == 0)", expected="one indirect call f(r1,r2,r3,r4,r5), r0 := result, Err when the id is not registered",
               found=found or "%d/%d paths" % (len(called), len(missing)))

    if "jit" in parts:
        # ---------------- JIT
        rj = rep.rule("R08.j", "JIT: SysV argument registers hold r1..r5, result in rax = r0, r6-r10 and the packet base preserved, unknown id -> compile-time Err", floor=3)
        tps = jm.templates(CALL, 3, 0)
        okt = [t for t in tps if not t["err"]]
        errt = [t for t in tps if t["err"] == "Err"]
        good, found = False, {}
        pushes = None
        if len(okt) >= 1 and len(errt) == 1:
          good = True
          for tp in okt:
            ins = X.decode_lenient(tp["items"])
            ms = X.run_lenient(ins, jm.initial_machine())
            if len(ms) != 1:
                good = False
                continue
            if True:
                m = ms[0]
                init = jm.initial_machine()
                hc = [e for e in m.events if e[0] == "helper_call"]
                args_ok = len(hc) == 1 and list(hc[0][2]) == [reg(k) for k in range(1, 6)]
                res_ok = m.regs[jm.regmap[0]][0] == "call" and m.regs[jm.regmap[0]][1] == "helper"
                saved_ok = all(m.regs[jm.regmap[k]] == init.regs[jm.regmap[k]] for k in (6, 7, 8, 9, 10)) and m.regs[X.R10] == init.regs[X.R10]
                bal = m.depth == 0 and m.regs[X.RSP] == init.regs[X.RSP]
                tgt_ok = len(hc) == 1 and "HELPERS" in repr(hc[0][1]) or (len(hc) == 1 and "payload" in repr(hc[0][1]))
                found = {"args_ok": args_ok, "result_in_rax": res_ok, "r6_r10_and_packet_base_preserved": saved_ok, "balanced": bal,
                         "pushes_before_call": hc[0][3] if hc else None}
                good = good and args_ok and res_ok and saved_ok and bal
                pushes = hc[0][3] if hc else None
        rep.ob(rj, "call-template", good, "x86 template of a helper call", expected="mov rcx<-r9; call rax with rdi,rsi,rdx,rcx,r8 = r1..r5; rax = r0",
               found=found or [(t["err"], len(t["items"])) for t in tps])
        keys = [T.show(e[2][1]) for t in tps for e in t.get("lookups", [])]
        rep.ob(rj, "key", bool(keys) and all(e[2][1] == IMM for t in tps for e in t.get("lookups", [])) and all(t.get("lookups") for t in tps),
               "key of the compile-time helper lookup", expected=T.show(IMM), found=sorted(set(keys)))
        rep.ob(rj, "unknown-id", len(errt) == 1 and not errt[0]["items"], "JIT compilation of a call to an unregistered id",
               expected="Err, nothing emitted", found=[(t["err"], len(t["items"])) for t in tps])

        rf = rep.rule("R08.f", "x86 stack is 16-byte aligned at every helper call site, at every local-call depth", floor=3)
        frames = [f for flags in ((False, False), (True, False), (True, True)) for f in jitmodel.frame_templates(jm, *flags) if f["ok"]]
        deltas = set()
        for f in frames:
            ins = X.decode_lenient(f["prologue"])
            for m in X.run_lenient(ins, jm.initial_machine()):
                deltas.add(jitmodel.rsp_offset(m.regs[X.RSP]))
        body = None
        if len(deltas) == 1 and None not in deltas:
            body = (8 + deltas.pop()) % 16       # SysV: rsp = 8 (mod 16) at function entry
        rep.ob(rf, "prologue", body is not None, "stack pointer displacement of the prologue (same for the three wrapper configurations)",
               expected="a constant", found=body)
        # local call: delta between the call site and the callee's first instruction
        lc = [t for t in jm.templates(CALL, 0, 1) if not t["err"]]
        ldelta = None
        if len(lc) == 1:
            ins = X.decode_lenient(lc[0]["items"])
            ms = X.run_lenient(ins, jm.initial_machine())
            ev = [e for m in ms for e in m.events if e[0] == "local_call"]
            if len(ev) == 1:
                ldelta = jitmodel.rsp_offset(ev[0][4]) - 8       # + return address
        rep.ob(rf, "local-call-delta", ldelta is not None and ldelta % 16 == 0, "stack displacement from a local call site to the callee body",
               expected="0 (mod 16)", found=ldelta)
        if body is not None and good:
            at_call = (body - pushes) % 16
            rep.ob(rf, "helper-call-site", at_call == 0, "rsp (mod 16) at the `call rax` of a helper call, entry rsp = 8 (mod 16)",
                   expected=0, found=at_call)

    if "api" in parts:
        register_rules(rep, cx)

    if "cranelift" in parts:
        # ---------------- Cranelift
        cc = Ctx(rep, "cranelift")
        cm = clmodel.ClModel(cc)
        rc = rep.rule("R08.c", "Cranelift: call(helper_<imm as u32>, r1..r5) -> r0; unknown id -> compile-time Err; local calls refused", floor=2)
        if cm.ok:
            ps = cm.paths(CALL, 3, 0)
            errs = [p for p in ps if p["err"] == "Err"]
            oks = [p for p in ps if not p["err"]]
            good = len(errs) >= 1 and len(oks) == 1
            found = {"paths": [(p["err"], len(p["effects"])) for p in ps]}
            if good:
                r = cm.interpret(oks[0])
                good = len(r["calls"]) == 1 and list(r["calls"][0][1]) == [reg(k) for k in range(1, 6)] and list(r["regs"].keys()) == [T.K(64, 0)]
                look = [e for e in oks[0]["effects"] if e[1].endswith("HashMap<K, V, S, A>::get")]
                keyok = any(cm.canon(e[2][1]) == IMM for e in look)
                found.update({"args_r1_r5": good, "key_is_imm_u32": keyok})
                good = good and keyok
            rep.ob(rc, "call", good, "Cranelift helper call translation", expected="one call with (r1..r5), result defines r0, key imm as u32", found=found)
            ps1 = cm.paths(CALL, 0, 1)
            rep.ob(rc, "local-call", bool(ps1) and all(p["err"] == "Err" for p in ps1), "Cranelift translation of a local call", expected="Err", found=[p["err"] for p in ps1])
            helper_symbol_rules(rep, cc)
        # compiled code bakes helper addresses in: a call reaches the function registered under k only if
        # compiling always rebuilds from the current helper table (the rule is C10's R10.h)
    if "api" in parts:
        import props.c10 as c10
        c10._compile_rules(rep, cx)
        c10._compile_rules(rep, Ctx(rep, "cranelift"), tag="[cranelift]")
    rep.trust("SysV AMD64 ABI (argument registers, callee-saved set, 16-byte alignment at call)", "x86model.py / clmodel.py", "Cranelift's own ABI lowering")
    rep.assume("helpers are `fn(u64,u64,u64,u64,u64) -> u64` compiled for the C ABI of the host")
