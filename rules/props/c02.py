"""C02 - the interpreter confines every load and store to the program's own memory.

Decided: (R02.a/b/d) in every memory-access arm of the interpreter, each path that loads, stores or
atomically updates memory carries the condition inbounds(addr, n) for exactly the address and the
byte width of the access, and the complementary path returns Err with no store and no register
write; (R02.c) the bounds-check function returns Ok exactly when addr+len does not wrap and
[addr, addr+len) lies inside the metadata buffer, the packet, the stack or one registered range;
(R02.f) raw memory primitives occur in no other function reachable from the interpreter entry;
(R02.h/p) neither the bounds check nor the arithmetic on register values that leads to it has an open
panic site, so a refusal is the check's Err for every address and not a panic before it.
Both directions of the property's iff follow for all addresses, widths and layouts because both
parts are parametric in them."""
import re

import imodel
import isa
import symex
import terms as T
from common import Ctx, is_inner_vm
from facts import walk, callee_path

RAW = re.compile(r"(read_unaligned|write_unaligned|read_volatile|write_volatile|ptr::read|ptr::write|fetch_add|copy_nonoverlapping)$")


def loads_in(t, acc):
    if isinstance(t, tuple):
        if t and t[0] == "load":
            acc.append((t[1], t[2]))
        for x in t:
            if isinstance(x, tuple):
                loads_in(x, acc)
    return acc


def run(rep, tier):
    cx = Ctx(rep, "std")
    rep.where_by_opcode = cx.opcode_where(cx.roles.interpreter())
    im = imodel.InterpModel(cx)
    if not im.ok or im.bc is None:
        return
    rep.analysed(im.fn, im.bc)
    ra = rep.rule("R02.a", "every raw access is guarded by a successful bounds check of the same address and its own width", floor=22)
    rd = rep.rule("R02.d", "a refused access returns Err and changes nothing", floor=22)
    arms = 0
    for v, d in sorted(isa.TABLE.items()):
        if d["kind"] not in ("ldx", "ldabs", "ldind", "st", "stx", "xadd"):
            continue
        arms += 1
        for p in im.summary(v):
            if p["exit"] and p["exit"][0] == "panic":
                continue
            acc = []
            for val in p["regs"].values():
                loads_in(val, acc)
            acc = [(w // 8, a) for w, a in acc] + [(w // 8, a) for w, a, _ in p["stores"]] + [(w // 8, a) for w, a, _ in p["atomics"]]
            guards = {(c[1], c[2]) for c in p["conds"] if c[0] == "inbounds"}
            for nb, addr in acc:
                rep.ob(ra, "opc=%#04x/access" % v, (addr, nb) in guards,
                       "opcode %#04x: %d-byte access at %s" % (v, nb, T.show(addr)),
                       expected="path condition inbounds(%s, %d)" % (T.show(addr), nb),
                       found=[("inbounds", T.show(a), n) for a, n in guards], sample=(v == 0x69))
            refused = any(c[0] == "not" and c[1][0] == "inbounds" for c in p["conds"]) or \
                any(c == ("not", g) for g in [c2 for c2 in p["conds"]] for c in p["conds"])
            neg = [c for c in p["conds"] if c[0] == "not" and isinstance(c[1], tuple) and c[1][0] == "inbounds"]
            if neg:
                clean = (p["exit"] == ("err",)) and not p["stores"] and not p["atomics"] and not p["regs"]
                rep.ob(rd, "opc=%#04x/refusal" % v, clean, "opcode %#04x: path on which the bounds check fails" % v,
                       expected="Err, no store, no atomic, no register write", found={"exit": p["exit"], "stores": len(p["stores"]), "regs": len(p["regs"])})
            if d["kind"] == "xadd" and p["exit"] == ("err",) and not neg:
                rep.ob(rd, "opc=%#04x/misaligned" % v, not p["stores"] and not p["atomics"], "opcode %#04x: misaligned atomic add" % v,
                       expected="Err before the read-modify-write", found=len(p["atomics"]))
        # every arm must have both outcomes
    rep.info("access_arms", arms)
    rep.ob(ra, "arm-count", arms == 22, "memory-access opcodes in the ISA table", expected=22, found=arms)

    rc = rep.rule("R02.c", "bounds-check predicate == no-wrap and containment in one of the regions", floor=1)
    ev = symex.Evaluator(cx.F)
    fn = cx.F.fns[im.bc]
    params = fn["thir"]["params"]
    names = [p["pat"]["name"] if p["pat"] and p["pat"]["k"] == "bind" else "_" for p in params]
    A, L = T.V("addr", 64), T.V("len", 64)
    args = [A, L]
    regions = []
    for nm, p in zip(names[2:], params[2:]):
        if p["ty"].startswith("&[u8]"):
            regions.append(nm)
        args.append(ev.sym_for(nm, p["ty"]))
    outs = ev.run_fn(im.bc, args) or []
    oks = [s for v, s in outs if isinstance(v, tuple) and v and v[0] == "struct" and v[2] == "Ok"]
    errs = [s for v, s in outs if isinstance(v, tuple) and v and v[0] == "struct" and v[2] == "Err"]
    unrec = [u for _v, s in outs for u in s.unrec]
    END = T.op("add", 64, A, L)
    nowrap = T.lnot(T.cmp("ult", 64, END, A))
    got_regions = []
    good = bool(oks) and not unrec and len(outs) == len(oks) + len(errs)
    for s in oks:
        if any(e[0] in ("store", "atomic_add") for e in s.effects):
            good = False
        if nowrap not in s.conds:
            good = False
        positives = []
        for c in s.conds:
            if c == nowrap:
                continue
            leaves = _disjuncts(c)
            if all(_is_neg_leaf(x) for x in leaves) or all(all(_is_neg_leaf(y) for y in _disjuncts(x)) for x in _conjuncts(c)):
                continue                    # `not(region test)` of an earlier alternative (or of several: not(r1 || r2 || r3))
            if all(isinstance(x, tuple) and x and x[0] in ("land", "exists") for x in leaves):
                positives.extend(leaves)    # `r1 || r2 || r3` accepted in one go is the same as three early returns
            else:
                positives.append(c)
        got_regions.append(positives)
    exp = []
    for nm in regions:
        base = ("call", "as_ptr", (("obj", nm, "&[u8]"),), 64)
        ln = ("call", "len", (("obj", nm, "&[u8]"),), 64)
        exp.append(T.land(T.cmp("ule", 64, base, A), T.cmp("ule", 64, END, T.op("add", 64, base, ln))))
    found_terms = sorted(T.show(c) if c[0] != "exists" else "exists %s: %s" % (c[1], T.show(c[2])) for ps in got_regions for c in ps)
    exp_terms = sorted(T.show(c) for c in exp)
    ex = [c for ps in got_regions for c in ps if c[0] == "exists"]
    ex_ok = len(ex) == 1 and ex[0][2] == T.land(T.cmp("ule", 64, T.V(ex[0][1] + ".start", 64), A), T.cmp("ule", 64, END, T.V(ex[0][1] + ".end", 64)))
    region_ok = sorted(T.show(c) for ps in got_regions for c in ps if c[0] != "exists") == exp_terms and len(regions) == 3
    rep.ob(rc, "predicate", good and region_ok and ex_ok, "conditions under which the bounds check returns Ok",
           expected={"no-wrap": T.show(nowrap), "regions": exp_terms, "registered": "exists r: r.start <= addr && addr+len <= r.end"},
           found={"ok_paths": len(oks), "terms": found_terms, "unrec": unrec[:3]})

    rf = rep.rule("R02.f", "raw memory primitives appear only in the interpreter function", floor=1)
    owners = set()
    from dispatch import thir_reach
    for p in thir_reach(cx.F, ["EbpfVmMbuff::execute_program"]):
        f = cx.F.fns[p]
        if not f.get("thir"):
            continue
        for n in walk(f["thir"]["body"]):
            if n.get("k") == "call" and RAW.search(callee_path(n) or ""):
                owners.add(p)
            if n.get("k") == "deref" and (n["e"].get("ty", "") if isinstance(n.get("e"), dict) else "").startswith("*"):
                owners.add(p)
    rep.ob(rf, "owners", owners == {im.fn}, "functions with raw memory primitives reachable from the interpreter entry",
           expected=[im.fn], found=sorted(owners))
    # R02.h a refusal is an error value: the bounds check itself cannot panic
    rh = rep.rule("R02.h", "panic inventory of the bounds check (and the closures that call it): a refused access is an Err, never a panic", floor=1)
    from common import Row, sites_to_obligations
    inv = cx.inventory()
    sites, reach = inv.run([im.bc])
    rows = [Row("slice-end", r".", r"^Overflow\(Add\)\(\((\[T\]|slice\[T\]|Vec<T, A>)::as_ptr\((.*)\) as u64\),\((\[T\]|slice\[T\]|Vec<T, A>)::len\(\2\) as u64\)\)$", "A",
                "language guarantee: the end address of a live slice does not wrap")]
    stats = sites_to_obligations(rep, rh, sites, rows)
    rep.info("bounds_check_site_stats", stats)

    # R02.p the way to the bounds check: the effective address (register + displacement, packet base + immediate
    # [+ register]) is computed by steps that cannot panic, for any register value - otherwise an address the check
    # would refuse makes the interpreter panic (overflow checks on) instead of returning Err
    rp = rep.rule("R02.p", "arithmetic on register values on the way to an access cannot panic (the refusal is the bounds check's Err, for every address)", floor=2)
    sites_i, reach_i = inv.run(["EbpfVmMbuff::execute_program"])
    regop = re.compile(r"<\[u64; \d+\]>\[")
    seen = [s for s in sites_i if s.desc and regop.search(s.desc)]
    arith = [s for s in seen if re.match(r"^(precond:[^<]*<-)*(Overflow|DivisionByZero|RemainderByZero)", s.desc)]
    frame = [s for s in arith if re.search(r"<\[u64; \d+\]>\[10\],[^,]*Stack(UsageType|Frame|Usage)::", s.desc)]
    bad = [s for s in arith if s not in frame and s.status not in ("proven", "lifted")]
    rep.ob(rp, "address-arith", not bad,
           "no open overflow / division site with a register value as operand between the dispatch of an instruction and its bounds check "
           "(%d panic sites from the interpreter entry, %d with a register operand, %d of them the r10 frame adjustment of call/exit)" % (len(sites_i), len(seen), len(frame)),
           expected="wrapping arithmetic (or a proved-safe step) for every address computed from a register",
           found=sorted({"%s: %s at %s" % (s.fn, (s.desc or "")[:160], s.line) for s in bad})[:6] or "none",
           where=bad[0].line if bad else None)
    rep.ob(rp, "register-operands-recognised", bool(seen),
           "the inventory names register-file elements in its descriptors (positive control of the operand pattern)",
           expected="at least one site with a register-file operand", found=len(seen))

    # R02.g the regions handed to the bounds check, and how allowed ranges get registered
    rg = rep.rule("R02.g", "every bounds check is handed the four regions themselves (metadata buffer, packet, the whole stack, the registered ranges); registering a range stores it unchanged", floor=5)
    bad, nchk = [], 0
    for v, d in sorted(isa.TABLE.items()):
        for p in im.per_opcode(v):
            derefs = {}
            for e in p["effects"]:
                if e[0] == "call" and isinstance(e[1], str) and e[1].endswith("Deref>::deref") and len(e) > 3:
                    derefs[e[3]] = e[2][0]
                if e[0] == "call" and isinstance(e[1], str) and e[1].endswith("Index<I>>::index") and len(e) > 3 and "RangeFull" in repr(e[2][1])[:80]:
                    derefs[e[3]] = derefs.get(e[2][0], e[2][0])
                if e[0] == "call" and e[1] == im.bc:
                    nchk += 1
                    a = e[2]
                    regs = list(a[4:8]) if len(a) >= 8 else []
                    want = [("MBUFF",), ("MEM",), ("STACK",), ("ALLOWED",)]
                    got = []
                    for x in regs:
                        x = derefs.get(x, x)
                        got.append((x[1],) if isinstance(x, tuple) and len(x) == 3 and x[0] == "obj" else ("?",))
                    if got != want:
                        bad.append("opc=%#04x: regions %s" % (v, [g[0] for g in got]))
    rep.ob(rg, "call-sites", nchk >= 20 and not bad, "region arguments at the %d bounds-check call sites evaluated" % nchk,
           expected="(mbuff, mem, &stack[..], allowed_memory)", found=sorted(set(bad))[:4] or "all")
    import props.c10 as c10
    F = cx.F
    for kind in c10.KINDS:
        path = kind + "::register_allowed_memory"
        fn = F.fns.get(path)
        if not fn:
            rep.ob(rg, path, False, "%s exists" % path, found="missing")
            continue
        ev = symex.Evaluator(F, opaque_calls=lambda q: q.endswith("::register_allowed_memory") and q != path)
        arg = ev.sym_for("new_range", fn["thir"]["params"][1]["ty"])
        key, sv, outs = c10.run_method(ev, F, path, [arg])
        ok = len(outs) == 1
        found = "%d paths" % len(outs)
        if ok:
            calls = [e for e in outs[0][1].effects if e[0] == "call" and isinstance(e[1], str)]
            ins = [e for e in calls if e[1].endswith("HashSet<T, S, A>::insert")]
            dele = [e for e in calls if e[1].endswith("::register_allowed_memory")]
            if ins:
                ok = len(ins) == 1 and "allowed_memory" in repr(ins[0][2][0]) and ins[0][2][1] == arg and not dele
                found = "insert(%s)" % ("argument" if ins[0][2][1] == arg else repr(ins[0][2][1])[:80])
            else:
                ok = len(dele) == 1 and is_inner_vm(dele[0][2][0]) and dele[0][2][1] == arg
                found = "delegates with %s" % ("the argument" if dele and dele[0][2][1] == arg else "something else")
        rep.ob(rg, path, ok, "%s" % path, expected="allowed_memory.insert(range) with the caller's range, or delegation with it", found=found)

    rep.trust("rustc front end / typed THIR", "slices' as_ptr/len describe live memory", "registered ranges are valid memory (caller's contract)")
    rep.assume("a fault on a checked address is outside the claim (C05 covers panics)")


def _disjuncts(c):
    if isinstance(c, tuple) and c and c[0] == "lor":
        return _disjuncts(c[1]) + _disjuncts(c[2])
    return [c]


def _conjuncts(c):
    if isinstance(c, tuple) and c and c[0] == "land":
        return _conjuncts(c[1]) + _conjuncts(c[2])
    return [c]


def _is_neg_leaf(c):
    return isinstance(c, tuple) and c and ((c[0] == "cmp" and c[1] == "ult") or c[0] == "not")


def _is_neg(c):
    """negated region test (a disjunction of strict comparisons produced by `not(a && b)`)"""
    return isinstance(c, tuple) and c and (c[0] == "lor" or (c[0] == "cmp" and c[1] in ("ult",)) or (c[0] == "not"))
