"""C04 - Cranelift-compiled code computes the same result as the interpreter; local calls refused.

Translation validation per opcode template: the translate arm is evaluated symbolically, its
Cranelift builder calls are replayed with the documented InstBuilder semantics (clmodel) and the
resulting effect on the eBPF register variables, memory stores, branch condition and successor
blocks must equal the interpreter's summary (in-bounds path).  (R04.b) a `call` with src != 0
reaches an Err return on every path; (R04.c) helper and legacy-load results define register 0.
Known finding F01 as in C01/C03 (sign- vs zero-extended immediate of six unsigned 64-bit jumps)."""
import clmodel
import imodel
import isa
import jitmodel
import terms as T
from common import Ctx
from facts import walk, callee_path
from props.c03 import interp_paths, eq_substitution, specialise, UNSIGNED_IMM_JMP64

LEVEL = "translation_validation"
QUICK_PAIRS = [(0, 1), (1, 0), (3, 3), (6, 7), (9, 10), (5, 5)]


def cl_paths(cm, v, d, s, sequential=True):
    paths, problems = [], []
    for p in cm.paths(v, d, s):
        if p["err"] == "panic":
            continue
        if p["err"] == "Err" or p["unrec"]:
            problems.append("translate arm: %s %s" % (p["err"], p["unrec"][:2]))
            continue
        try:
            r = cm.interpret(p)
        except clmodel.Unknown as e:
            problems.append("unrecognised-construct: %s" % str(e)[:160])
            continue
        for conds, regs, stores, atomics in clmodel.split(r):
            # single-threaded reading (indivisibility is C18's business): store(a, load(a) + x) is an add to memory
            st2, at2 = [], list(atomics)
            for w, a, x in stores:
                if sequential and isinstance(x, tuple) and x and x[0] == "op" and x[1] == "add" and ("load", w, a) in (x[3], x[4]):
                    at2.append((w, a, x[4] if x[3] == ("load", w, a) else x[3]))
                else:
                    st2.append((w, a, x))
            stores, atomics = st2, at2
            ex = r["exit"]
            base = list(p["conds"]) + conds
            init = {T.K(64, k): ("sel", clmodel.REG, T.K(64, k), 64) for k in range(11)}
            regs = {k: x for k, x in regs.items() if x != init[k]}
            if ex is not None and ex[0] == "brif":
                tgt, fall = ex[2], ex[3]
                roles = successor_roles(cm)
                ok_blocks = _is_field(tgt, roles.get("TARGET")) and _is_field(fall, roles.get("FALL"))
                bad = [] if ok_blocks else ["brif successor blocks are not (target, fallthrough) of insn_targets"]
                paths.append({"conds": base + [ex[1]], "regs": regs, "stores": stores, "atomics": atomics, "pc": "TARGET", "exit": None, "bad": bad})
                paths.append({"conds": base + [T.lnot(ex[1])], "regs": regs, "stores": stores, "atomics": atomics, "pc": "FALL", "exit": None, "bad": bad})
            elif ex is not None and ex[0] == "jump":
                paths.append({"conds": base, "regs": regs, "stores": stores, "atomics": atomics, "pc": "TARGET" if _is_field(ex[1], successor_roles(cm).get("TARGET")) else "?", "exit": None, "bad": []})
            else:
                paths.append({"conds": base, "regs": regs, "stores": stores, "atomics": atomics, "pc": p["pc"], "exit": ex, "bad": []})
    return paths, problems


def _is_field(x, f):
    return isinstance(x, tuple) and x and x[0] == "obj" and f is not None and x[1].endswith("." + f)


_ROLES = {}


def successor_roles(cm):
    """which component of a jump instruction's entry in the successor table is the taken target and which the
    fall-through: decided by evaluating the pass that fills the table (it files the block looked up under pc + 1 and
    the block looked up under pc + 1 + off) - not by component order or name.  -> {"TARGET": field, "FALL": field}"""
    F = cm.cx.F
    if id(F) in _ROLES:
        return _ROLES[id(F)]
    import symex
    import clmodel
    roles = {}
    try:
        cands = [q for q, fn in F.fns.items() if q.startswith("cranelift::") and "{closure" not in q and fn.get("thir") and
                 any(n.get("k") == "call" and (callee_path(n) or "").endswith("BTreeMap<K, V, A>::insert") for n in walk(fn["thir"]["body"]))]
        for q in cands:
            fn = F.fns[q]
            ev = symex.Evaluator(F, models=clmodel.cl_models())
            key = ("self", "roles")
            st = symex.St().set(key, ev.sym_for("self", "cranelift::CraneliftCompiler"))
            args, PC = [], T.V("PC", 64)
            for prm in fn["thir"]["params"]:
                ty = prm.get("ty") or ""
                if "CraneliftCompiler" in ty or ty in ("&mut Self", "&Self"):
                    args.append(("ref", ("pv", key)))
                elif "FunctionBuilder" in ty:
                    args.append(("obj", "bcx", ty))
                elif ty == "usize":
                    args.append(PC)
                else:
                    args.append(ev.sym_for("insn", ty))
            from dispatch import opcode_matches
            import models
            if opcode_matches(fn, 30):
                # the table is filled in the arm of the CFG pass itself: one iteration for a conditional jump
                jcc = next(v_ for v_, d_ in sorted(isa.TABLE.items()) if d_["kind"] == "jcond")
                lmr = models.LoopModel(F, q, min_arms=30)
                pcn = models.loop_counter_name(F, q)[0]
                outs = [(v, s2) for v, s2 in lmr.run(jcc, keep=lambda stmt: stmt["k"] == "let") if s2.feasible and s2.exit is None]
                canon = lambda t: models.canon(t, pcn)
                PC = ("v", "pc", 64)
            else:
                outs = [(v, s2) for v, s2 in (ev.run_fn(q, args, st) or []) if s2.feasible]
                canon = lambda t: t
            if len(outs) != 1:
                continue
            eff = [e for e in outs[0][1].effects if e[0] == "call" and isinstance(e[1], str)]
            entry_key = {e[3]: canon(e[2][1]) for e in eff if e[1].endswith("BTreeMap<K, V, A>::entry") and len(e) > 3}
            got = {e[3]: entry_key.get(e[2][0]) for e in eff if e[1].endswith("::or_insert_with") and len(e) > 3}
            pc32 = T.trunc(32, PC)
            for e in eff:
                if e[1].endswith("BTreeMap<K, V, A>::insert") and isinstance(e[2][2], tuple) and e[2][2][:1] == ("struct",):
                    for fname, val in e[2][2][3]:
                        k = got.get(val)
                        if k is None:
                            continue
                        if k == T.op("add", 32, pc32, T.K(32, 1)):
                            roles["FALL"] = fname
                        elif "insn.off" in repr(k) or "try_into" in repr(k):
                            roles["TARGET"] = fname
    except Exception:
        roles = {}
    _ROLES[id(F)] = roles
    return roles


def compare(ips, cps, desc, legacy=False):
    diffs = []
    NEXT = T.op("add", 64, ("v", "pc", 64), T.K(64, 1))
    cps = [c for c in cps if T.FALSE not in c["conds"]]
    for ip0 in ips:
        covered = False
        for cp0 in cps:
            if jitmodel.contradictory(ip0["conds"], cp0["conds"]):
                continue
            covered = True
            f = eq_substitution(list(ip0["conds"]) + list(cp0["conds"]))
            ip, cp = specialise(ip0, f), dict(cp0)
            cp["regs"] = {f(k): f(v) for k, v in cp0["regs"].items()}
            cp["stores"] = [(w, f(a), f(x)) for w, a, x in cp0["stores"]]
            cp["atomics"] = [(w, f(a), f(x)) for w, a, x in cp0["atomics"]]
            diffs.extend(cp0["bad"])
            for k in set(ip["regs"]) | set(cp["regs"]):
                a = ip["regs"].get(k, ("sel", clmodel.REG, k, 64))
                b = cp["regs"].get(k, ("sel", clmodel.REG, k, 64))
                if not jitmodel.same_value(a, b):
                    diffs.append("r%s: interpreter %s, Cranelift %s" % (T.show(k), T.show(a), T.show(b)))
            if isa.is_branch(desc):
                want = "FALL" if ip["pc"] == NEXT else "TARGET"
                if cp["pc"] != want:
                    diffs.append("successor: interpreter goes to %s, Cranelift to %s" % (want, cp["pc"] if isinstance(cp["pc"], str) else T.show(cp["pc"])))
            elif ip["pc"] is not None and not isinstance(cp["pc"], str) and cp["pc"] is not None and ip["pc"] != cp["pc"]:
                diffs.append("next pc: interpreter %s, Cranelift %s" % (T.show(ip["pc"]), T.show(cp["pc"])))
            for name in ("stores", "atomics"):
                A, B = ip[name], cp[name]
                if len(A) != len(B) or any(aw != bw or not jitmodel.same_value(aa, ba) or not jitmodel.same_value(ax, bx)
                                           for (aw, aa, ax), (bw, ba, bx) in zip(A, B)):
                    diffs.append("%s: interpreter %s, Cranelift %s" % (name, [(w, T.show(a), T.show(x)) for w, a, x in A],
                                                                       [(w, T.show(a), T.show(x)) for w, a, x in B]))
        if not covered:
            diffs.append("no Cranelift path for interpreter condition %s" % [T.show(c) for c in ip0["conds"]])
    return sorted(set(diffs))


def run(rep, tier):
    cx = Ctx(rep, "cranelift")
    rep.where_by_opcode = cx.opcode_where(cx.roles.cranelift_translate())
    im = imodel.InterpModel(cx)
    cm = clmodel.ClModel(cx)
    if not (im.ok and cm.ok):
        return
    rep.analysed(im.fn, cm.fn)
    pairs = [(d, s) for d in range(11) for s in range(11)] if tier == "thorough" else QUICK_PAIRS
    ra = rep.rule("R04.a", "per-opcode Cranelift IR template == interpreter term, for each register pair", floor=100 * 5)
    nt = 0
    for v, desc in sorted(isa.TABLE.items()):
        if desc["kind"] in ("call", "tail_call", "exit"):
            continue
        fails = {}
        for d, s in pairs:
            dd = 9 if (d == 10 and not isa.is_store(desc)) else d
            ips = interp_paths(im, v, dd, s)
            cps, problems = cl_paths(cm, v, dd, s)
            nt += 1
            diffs = problems + (compare(ips, cps, desc) if not problems else [])
            if diffs and v in UNSIGNED_IMM_JMP64 and not problems:
                zx, sx = T.zext(64, ("v", "imm", 32)), T.sext(64, ("v", "imm", 32))
                alt = [specialise(p, lambda t: T.rebuild(t, lambda x: sx if x == zx else None)) for p in ips]
                for a, p in zip(alt, ips):
                    a["conds"] = [T.rebuild(c, lambda x: sx if x == zx else None) for c in p["conds"]]
                if not compare(alt, cps, desc):
                    diffs = ["F01: Cranelift compares against sext64(imm), the interpreter against zext64(imm)"]
            if diffs:
                fails.setdefault(tuple(diffs[:3]), []).append((dd, s))
        if not fails:
            rep.ob(ra, "opc=%#04x" % v, True, "opcode %#04x (%s): Cranelift templates of %d register pairs agree with the interpreter" % (v, desc["kind"], len(pairs)),
                   sample=(v in (0x0f, 0x3c, 0x69)))
            rep.rules[ra]["count"] += len(pairs) - 1
            continue
        for diffs, prs in fails.items():
            if v in UNSIGNED_IMM_JMP64 and all(x.startswith("F01:") for x in diffs):
                rep.ob(ra, "opc=JMP64_IMM/imm-ext", False, "opcode %#04x: Cranelift sign-extends the immediate, the interpreter zero-extends it" % v,
                       expected="same comparison operand", found=list(diffs))
            else:
                import hashlib
                rep.ob(ra, "opc=%#04x/%s" % (v, hashlib.sha256(repr(diffs).encode()).hexdigest()[:8]), False,
                       "opcode %#04x (%s): Cranelift template differs from the interpreter for register pairs %s" % (v, desc["kind"], prs[:6]),
                       expected="equal effect summaries", found=list(diffs))
    rep.info("programs", nt)
    rep.info("register_pairs", len(pairs))

    # R04.b local calls are refused; R04.c helper result in r0
    rb = rep.rule("R04.b", "a call with src != 0 is refused with an error on every path", floor=2)
    call = next(v for v, d in isa.TABLE.items() if d["kind"] == "call")
    for src in (1, 2):
        ps = cm.paths(call, 0, src)
        rep.ob(rb, "src=%d" % src, bool(ps) and all(p["err"] == "Err" and not any("InstBuilder::call" in e[1] for e in p["effects"]) for p in ps),
               "translation of `call` with src = %d" % src, expected="Err, no call emitted", found=[(p["err"], len(p["effects"])) for p in ps])
    rc = rep.rule("R04.c", "helper calls: registered id -> call(helper, r1..r5), result in r0; unknown id -> Err", floor=2)
    ps = cm.paths(call, 3, 0)
    good = 0
    for p in ps:
        if p["err"] == "Err":
            rep.ob(rc, "unknown-helper", not any("InstBuilder::call" in e[1] for e in p["effects"]), "unknown helper id", expected="Err without emitting a call", found=p["err"])
            continue
        try:
            r = cm.interpret(p)
        except clmodel.Unknown as e:
            rep.ob(rc, "helper-call", False, "helper call translation", found=str(e)[:200])
            continue
        args_ok = len(r["calls"]) == 1 and list(r["calls"][0][1]) == [("sel", clmodel.REG, T.K(64, k), 64) for k in range(1, 6)]
        wr = list(r["regs"].keys())
        rep.ob(rc, "helper-call", args_ok and wr == [T.K(64, 0)], "helper call: arguments and result register",
               expected="call(f, r1, r2, r3, r4, r5) -> r0", found={"calls": len(r["calls"]), "written": [T.show(k) for k in wr], "args_ok": args_ok})
        good += 1
    # the execution context each VM kind hands to the Cranelift code is part of "the same result for each kind
    # of VM": the context rules of C09 that concern this engine are obligations here too
    import props.c09 as c09
    c09.run(rep, tier, parts=("cranelift", "ctor"))
    # helper calls under Cranelift (C08's Cranelift-side rules) are part of "same result as the interpreter"
    import props.c08 as c08
    c08.run(rep, tier, parts=("cranelift",))
    # memory flags: a load tagged readonly / notrap / with an alias region may be merged with an earlier load or moved
    # across a store, so its value differs from the interpreter's
    import props.c11 as c11
    c11.memflags_rule(rep, cx.F)
    rep.trust("rustc front end / typed THIR", "clmodel.py: InstBuilder semantics from the Cranelift 0.127 documentation", "Cranelift's lowering",
              "imodel (validated against the ISA under C01)")
    rep.assume("little-endian 64-bit host", "in-bounds accesses (bounds checks are decided under C11)")
