"""C10 - loading, verifying and compiling stay consistent over any history of API calls.

Per-method path rules on the four VM types (histories of any length follow by induction over
calls): (R10.a) set_program / set_verifier never return Err after having changed a behaviour-
relevant field; (R10.b) the program field is only ever set to a program the verifier in force
accepted on that path, and the verifier field only after the new verifier accepted the loaded
program; (R10.c) only new / set_program / set_verifier write those two fields; (R10.d) every path
that stores a program also stores its stack-usage table and drops both compiled artefacts;
(R10.e) executing or compiling without a program, and executing code that was never compiled,
yield Err; (R10.f) interpreter execution takes `&self` on the three stateless kinds.
Fields of the stack-usage calculator (user callback + its private data) are not VM behaviour and
are outside R10.a."""
import re

import symex
import terms as T
from common import Ctx, is_inner_vm
from facts import walk, strip, norm_path

KINDS = ["EbpfVmMbuff", "EbpfVmFixedMbuff", "EbpfVmRaw", "EbpfVmNoData"]
IGNORED_FIELDS = {"stack_verifier"}


def self_value(ev, F, ty):
    return ev.sym_for("self", ty)


def flat(v, prefix=""):
    """flatten a (nested) struct value into {dotted field: value}"""
    out = {}
    if isinstance(v, tuple) and v and v[0] == "struct" and not v[1].startswith("core::") and v[1] != "tuple":
        for k, x in v[3]:
            out.update(flat(x, prefix + "." + k if prefix else k))
    else:
        out[prefix] = v
    return out


def run_method(ev, F, path, extra_args):
    fn = F.fns[path]
    kind = path.split("::")[0]
    key = ("self", path)
    sv = self_value(ev, F, kind)
    st = symex.St().set(key, sv)
    args = [("ref", ("pv", key))] + extra_args
    outs = ev.run_fn(path, args, st)
    return key, sv, outs or []


def result_kind(v):
    if isinstance(v, tuple) and v and v[0] == "struct" and v[2] in ("Ok", "Err"):
        return v[2]
    return "?"


def _methods(rep, cx, ra, rb, rd, tag=""):
    F = cx.F
    for kind in KINDS:
        for meth, nargs in (("set_program", None), ("set_verifier", None)):
            path = "%s::%s" % (kind, meth)
            if cx.roles.api(path) is None:
                continue
            fn = F.fns[path]
            params = fn["thir"]["params"]
            ev = symex.Evaluator(F, opaque_calls=lambda p: p.endswith("stack_validate"))
            extra = []
            for i, p in enumerate(params[1:]):
                nm = p["pat"]["name"] if p["pat"] and p["pat"]["k"] == "bind" else "arg%d" % i
                extra.append(ev.sym_for("new_" + nm, p["ty"]))
            key, sv, outs = run_method(ev, F, path, extra)
            base = flat(sv)
            bad, n_err, n_ok, unrec = [], 0, 0, []
            for v, s in outs:
                unrec.extend(u for u in s.unrec if "field write" not in u)
                rk = result_kind(v)
                cur = flat(s.env.get(key))
                changed = sorted(k for k in cur if cur[k] != base.get(k) and k.split(".")[-1] not in IGNORED_FIELDS
                                 and not any(seg in IGNORED_FIELDS for seg in k.split(".")))
                if rk == "Err":
                    n_err += 1
                    if changed:
                        bad.append(changed)
                elif rk == "Ok":
                    n_ok += 1
                    if meth == "set_program":
                        _check_store(rep, rb, rd, kind, s, cur, base, extra, tag)
                    else:
                        _check_verifier_store(rep, rb, kind + tag, s, cur, base, extra)
                else:
                    unrec.append("result %r" % (v,))
            rep.ob(ra, "%s::%s%s" % (kind, meth, tag), not bad and n_err > 0 and n_ok > 0 and not unrec,
                   "%s::%s: fields changed on paths that return Err" % (kind, meth),
                   expected="none (on %d Err paths, %d Ok paths)" % (n_err, n_ok), found=bad or unrec or "none", sample=True)



def sfield_some(v):
    if isinstance(v, tuple) and v[:3] == ("struct", "core::option::Option", "Some"):
        return v[3][0][1]
    return None


def _compile_rules(rep, cx, tag=""):
    """R10.h: compiling always rebuilds the artefact from the *current* program and helpers (compiled
    code bakes helper addresses in, so a stale artefact would make results depend on the call history)"""
    F = cx.F
    rh = rep.rule("R10.h", "jit_compile / cranelift_compile: every Ok path stores an artefact freshly built from the current program and helpers", floor=3)
    OPAQUE = ("JitMemory::new", "CraneliftCompiler::new", "compile_function", "::jit_compile", "::cranelift_compile")
    for kind in KINDS:
        for meth, field, ctor in (("jit_compile", "jit", "JitMemory::new"), ("cranelift_compile", "cranelift_prog", "compile_function")):
            path = "%s::%s" % (kind, meth)
            if path not in F.fns or (tag and meth == "jit_compile"):
                continue
            ev = symex.Evaluator(F, opaque_calls=lambda p: p.endswith(OPAQUE) and p != path)
            key, sv, outs = run_method(ev, F, path, [])
            base = flat(sv)
            probs, n_ok, delegated = [], 0, False
            for v, s in outs:
                calls = [e for e in s.effects if e[0] == "call" and isinstance(e[1], str)]
                if result_kind(v) == "?" and len(calls) == 1 and calls[0][1].endswith("::" + meth) and v == calls[0][3] and is_inner_vm(calls[0][2][0]):
                    delegated = True
                    continue
                if result_kind(v) != "Ok":
                    continue
                n_ok += 1
                cur = flat(s.env.get(key))
                art = [(k, x) for k, x in cur.items() if k.split(".")[-1] == field]
                built = [e for e in calls if e[1].endswith(ctor)]
                good = False
                if len(art) == 1 and len(built) == 1:
                    val = art[0][1]
                    pay = sfield_some(val)
                    good = val != base.get(art[0][0]) and pay is not None and pay[0] == "obj" and str(pay[1]).startswith("ok(") and \
                        str(built[0][3][1])[:20] in str(pay[1])
                    srcs = repr([e[2] for e in calls if e[1].endswith(ctor) or e[1].endswith("CraneliftCompiler::new")])
                    good = good and "prog" in srcs and "helpers" in srcs and "self." in srcs
                if not good:
                    probs.append("an Ok path leaves %s as it was or does not build it from self.prog / self.helpers" % field)
            rep.ob(rh, path + tag, (delegated and not probs and n_ok == 0) or (n_ok >= 1 and not probs), "%s: Ok paths" % path,
                   expected="%s := Some(freshly compiled from the current program and helpers) on every Ok path, or plain delegation to the parent VM" % field,
                   found=sorted(set(probs)) or ("delegates" if delegated else "%d Ok paths rebuild" % n_ok))


def run(rep, tier):
    cx = Ctx(rep, "std")
    F = cx.F
    ra = rep.rule("R10.a", "set_program / set_verifier: no Err return after a behaviour-relevant field changed", floor=8)
    rb = rep.rule("R10.b", "program / verifier fields are stored only after the relevant verifier call succeeded on that path", floor=3)
    rd = rep.rule("R10.d", "a stored program comes with its stack-usage table and with both compiled artefacts dropped", floor=1)
    _methods(rep, cx, ra, rb, rd)
    # the Cranelift artefact exists only with the `cranelift` feature: same rules on that configuration
    _methods(rep, Ctx(rep, "cranelift"), ra, rb, rd, tag="[cranelift]")
    _compile_rules(rep, cx)
    _compile_rules(rep, Ctx(rep, "cranelift"), tag="[cranelift]")
    # which function runs for a helper id is part of "the registered helpers": registration must replace, not keep
    import props.c08 as c08
    c08.register_rules(rep, cx)
    # R10.i: what the wrappers themselves write into the fixed metadata buffer is rewritten on every execution,
    # so nothing of an earlier execution (other than bytes a program stored) is visible to the next one
    ri = rep.rule("R10.i", "fixed-mbuff executions rewrite both pointer slots on every path that runs the program (no wrapper-written state survives from an earlier execution)", floor=2)
    from props.c09 import _pointer_stores
    for cfgname, path in (("std", "EbpfVmFixedMbuff::execute_program"), ("cranelift", "EbpfVmFixedMbuff::execute_program_cranelift")):
        found, good = _pointer_stores(Ctx(rep, cfgname).F, path)
        rep.ob(ri, path, good, "%s: pointer slots" % path, expected="both slots written on every running path", found=found)

    # R10.j: the stack-usage pass keeps no state of its own between loads: the object that survives set_program
    # (the stack verifier with the registered calculator) is not written by validation, so the table computed for
    # a program depends on that program and the calculator only
    rj = rep.rule("R10.j", "the stack verifier kept across loads is not mutated by validating a program (no memo of an earlier program's frame sizes); only the user's calculator state is handed out mutably", floor=1)
    sv_ty = None
    adt = F.adts.get("EbpfVmMbuff") or {}
    for var in adt.get("variants", []):
        for fld in var.get("fields", []):
            if fld.get("name") == "stack_verifier":
                sv_ty = fld.get("ty")
    meths = sorted(p for p in F.fns if p.startswith("stack::StackVerifier::") and F.fns[p].get("thir") and not re.search(r"::new(::|$)", p))
    probs = []
    for p in meths:
        body = F.fns[p]["thir"]["body"]

        def rooted_at_self(n):
            n = strip(n)
            while n.get("k") in ("field", "deref", "index"):
                n = strip(n.get("e") or n.get("l") or {})
            return n.get("k") in ("var", "upvar") and n.get("name") == "self"

        def field_chain(n):
            n, out = strip(n), []
            while n.get("k") in ("field", "deref", "index"):
                if n.get("k") == "field":
                    out.append(n.get("name"))
                n = strip(n.get("e") or n.get("l") or {})
            return out[::-1]
        for n in walk(body):
            if n.get("k") in ("assign", "assignop") and rooted_at_self(n["l"]) and field_chain(n["l"]):
                probs.append("%s assigns self.%s" % (p.rsplit("::", 1)[1], ".".join(field_chain(n["l"]))))
            if n.get("k") == "ref" and n.get("mut") and rooted_at_self(n["e"]) and field_chain(n["e"]):
                fty = strip(n["e"]).get("ty") or ""
                if "dyn std::any::Any" in fty or "dyn core::any::Any" in fty:
                    continue        # the calculator's own state (opaque to the VM)
                probs.append("%s borrows self.%s mutably" % (p.rsplit("::", 1)[1], ".".join(field_chain(n["e"]))))
    rep.ob(rj, "stack-verifier", bool(meths) and not probs, "writes to the stack verifier's own fields outside its constructor",
           expected="none (methods: %s)" % [m.rsplit("::", 1)[1] for m in meths], found=sorted(set(probs)) or "none")

    # R10.c who may write prog / verifier
    rc = rep.rule("R10.c", "only new / set_program / set_verifier write the program and verifier fields", floor=2)
    writers = {"prog": set(), "verifier": set()}
    for p, fn in F.fns.items():
        if not fn.get("thir"):
            continue
        for n in walk(fn["thir"]["body"]):
            if n.get("k") in ("assign", "assignop"):
                l = strip(n["l"])
                if l.get("k") == "field" and l["name"] in writers and "EbpfVmMbuff" in (strip(l["e"]).get("ty") or ""):
                    writers[l["name"]].add(p)
            if n.get("k") == "adt" and n["path"].endswith("EbpfVmMbuff"):
                for f in ("prog", "verifier"):
                    if f in n["fields"]:
                        writers[f].add(p)
    rep.ob(rc, "prog", writers["prog"] <= {"EbpfVmMbuff::new", "EbpfVmMbuff::set_program"} and writers["prog"],
           "functions that write the program field", expected=["EbpfVmMbuff::new", "EbpfVmMbuff::set_program"], found=sorted(writers["prog"]))
    rep.ob(rc, "verifier", writers["verifier"] <= {"EbpfVmMbuff::new", "EbpfVmMbuff::set_verifier"} and writers["verifier"],
           "functions that write the verifier field", expected=["EbpfVmMbuff::new", "EbpfVmMbuff::set_verifier"], found=sorted(writers["verifier"]))

    # R10.b (constructor): new(Some(prog)) verifies with the default verifier before building the struct
    path = "EbpfVmMbuff::new"
    ev = symex.Evaluator(F, opaque_calls=lambda p: p.endswith("stack_validate") or p == cx.roles.verifier())
    outs = ev.run_fn(path, [symex.some(("obj", "PROG", "&[u8]"))]) or []
    okp = [(v, s) for v, s in outs if result_kind(v) == "Ok"]
    good = bool(okp)
    for v, s in okp:
        vcalls = [e for e in s.effects if e[0] == "call" and e[1] == cx.roles.verifier()]
        val = symex.sfield(v, "0")
        fl = flat(val)
        good = good and len(vcalls) == 1 and vcalls[0][2][0] == ("obj", "PROG", "&[u8]") and \
            isinstance(fl.get("stack_usage"), tuple) and fl.get("jit") == symex.NONE and \
            any(c[0] == "call" and c[1] == "is_ok" for c in s.conds if isinstance(c, tuple))
    rep.ob(rb, "new", good, "EbpfVmMbuff::new(Some(prog)) returns Ok only after the default verifier accepted prog; no compiled code yet",
           expected="one verifier call on prog, is_ok in the path condition, jit None", found="%d Ok paths" % len(okp))

    # R10.e None -> Err
    re_ = rep.rule("R10.e", "no program / not compiled => Err", floor=6)
    for kind in KINDS:
        for meth in ("execute_program", "jit_compile", "execute_program_jit"):
            path = "%s::%s" % (kind, meth)
            if path not in F.fns:
                continue
            _none_to_err(rep, re_, cx, path, kind, meth)

    rf = rep.rule("R10.f", "interpreter execution borrows the VM immutably on the stateless kinds", floor=3)
    for kind in ("EbpfVmMbuff", "EbpfVmRaw", "EbpfVmNoData"):
        fn = F.fns.get(kind + "::execute_program")
        p0 = fn["thir"]["params"][0]["ty"] if fn else ""
        rep.ob(rf, kind, bool(fn) and p0.startswith("&") and "mut" not in p0.split(" ")[0:2][-1] and not p0.startswith("&mut") and "&'" not in p0[:0],
               "%s::execute_program receiver" % kind, expected="&self", found=p0)
    cells = [k for k, a in F.adts.items() if k in KINDS or k in ("MetaBuff",) for v in a["variants"] for f in v["fields"]
             if re.search(r"Cell|Mutex|RwLock|Atomic", f["ty"])]
    rep.ob(rf, "no-interior-mutability", not cells, "VM struct fields with interior mutability", expected=[], found=cells)
    rep.trust("rustc front end / typed THIR", "user-supplied verifier / calculator callbacks are arbitrary functions of their arguments")
    rep.assume("helpers replaced after JIT compilation are a documented limitation outside the statement")


def _check_store(rep, rb, rd, kind, s, cur, base, extra, tag=""):
    """Ok path of set_program: prog field == Some(new program), verified on this path by the verifier in force"""
    progs = {k: v for k, v in cur.items() if k.split(".")[-1] == "prog" and v != base.get(k)}
    newp = extra[0]
    ok_b = False
    for k, v in progs.items():
        vf_key = k[:-4] + "verifier"
        vf = base.get(vf_key)
        calls = [e for e in s.effects if e[0] == "call" and e[1] == "indirect" and e[2] == vf and e[3] and e[3][0] == newp]
        okc = [c for c in s.conds if isinstance(c, tuple) and c[0] == "call" and c[1] == "is_ok"]
        ok_b = v == symex.some(newp) and len(calls) >= 1 and bool(okc)
    rep.ob(rb, "%s::set_program%s" % (kind, tag), bool(progs) and ok_b,
           "%s::set_program Ok path stores Some(new program) after the verifier in force accepted it" % kind,
           expected="prog := Some(p), call (self.verifier)(p) with is_ok in the path condition", found=sorted(progs))
    pre = [k[:-4] for k in progs]
    good = bool(pre)
    why = []
    for p in pre:
        su = cur.get(p + "stack_usage")
        if su == base.get(p + "stack_usage") or not (isinstance(su, tuple) and su and su[0] == "struct" and su[2] == "Some"):
            good = False
            why.append("stack_usage not replaced")
        for f in ("jit", "cranelift_prog"):
            if (p + f) in cur and cur[p + f] != symex.NONE:
                good = False
                why.append("%s not dropped" % f)
    rep.ob(rd, "%s::set_program%s" % (kind, tag), good, "%s::set_program Ok path: paired writes" % kind,
           expected="stack_usage := Some(..), jit := None (and cranelift_prog := None when present)", found=why or "paired")
    if kind == "EbpfVmFixedMbuff" and not tag:
        _check_fresh_buffer(rep, s, cur, base, extra)


def _check_fresh_buffer(rep, s, cur, base, extra):
    """R10.g: a reloaded fixed-mbuff VM starts from a zeroed metadata buffer and the new offsets, like a
    fresh one: nothing written by earlier executions (the packet pointers) survives the reload"""
    rg = rep.rule("R10.g", "fixed-mbuff set_program: metadata buffer replaced by a fresh zeroed vector, offsets replaced by the new ones", floor=1)
    why = []
    buf = cur.get("mbuff.buffer")
    fresh = [e for e in s.effects if e[0] == "call" and e[1] == "core::vec::from_elem" and e[2][0] == T.K(8, 0)]
    def on_buffer(e):
        return "'buffer'" in repr(e[2][0]) and "'mbuff'" in repr(e[2][0])
    cleared = [i for i, e in enumerate(s.effects) if e[0] == "call" and isinstance(e[1], str) and
               (e[1].endswith("Vec<T, A>::clear") or (e[1].endswith("Vec<T, A>::truncate") and e[2][1] == T.K(64, 0))) and on_buffer(e)]
    resized = [i for i, e in enumerate(s.effects) if e[0] == "call" and isinstance(e[1], str) and e[1].endswith("Vec<T, A>::resize")
               and on_buffer(e) and e[2][2] == T.K(8, 0)]
    idiom_a = buf is not None and buf != base.get("mbuff.buffer") and any(e[3] == buf for e in fresh)
    idiom_b = bool(cleared) and bool(resized) and min(cleared) < min(resized)
    if not (idiom_a or idiom_b):
        why.append("buffer is not a fresh zeroed vector (vec![0; n], or clear() followed by resize(n, 0))")
    others = [e[1] for e in s.effects if e[0] == "call" and isinstance(e[1], str) and "Vec<T, A>::" in e[1] and on_buffer(e)
              and not e[1].endswith(("::clear", "::truncate", "::resize", "::len"))]
    if others:
        why.append("other buffer operations: %s" % sorted(set(others)))
    for f, a in (("mbuff.data_offset", extra[1] if len(extra) > 1 else None), ("mbuff.data_end_offset", extra[2] if len(extra) > 2 else None)):
        if a is None or cur.get(f) != a:
            why.append("%s is not the new argument" % f)
    rep.ob(rg, "EbpfVmFixedMbuff::set_program", not why, "EbpfVmFixedMbuff::set_program Ok path: metadata buffer and offsets",
           expected="buffer := vec![0; len], data_offset / data_end_offset := arguments", found=why or "fresh")


def _check_verifier_store(rep, rb, kind, s, cur, base, extra):
    newv = extra[0]
    vfs = {k: v for k, v in cur.items() if k.split(".")[-1] == "verifier" and v != base.get(k)}
    ok = bool(vfs) and all(v == newv for v in vfs.values())
    # either no program is loaded (prog is None on this path) or the new verifier was called on it and is_ok holds
    called = [e for e in s.effects if e[0] == "call" and e[1] == "indirect" and e[2] == newv]
    noprog = any(isinstance(c, tuple) and c[0] == "not" and c[1][0] == "call" and c[1][1] == "is_Some" for c in s.conds) or \
        any(isinstance(c, tuple) and c[0] == "call" and c[1] == "is_None" for c in s.conds)
    okc = any(isinstance(c, tuple) and c[0] == "call" and c[1] == "is_ok" for c in s.conds)
    rep.ob(rb, "%s::set_verifier/%s" % (kind, "noprog" if not called else "prog"), ok and ((called and okc) or (not called and noprog)),
           "%s::set_verifier Ok path installs the new verifier only after it accepted the loaded program (if any)" % kind,
           expected="verifier := v; v(prog) called with is_ok, or no program loaded", found="called=%d is_ok=%s noprog=%s" % (len(called), okc, noprog))


def _none_to_err(rep, rule, cx, path, kind, meth):
    F = cx.F
    fn = F.fns[path]
    ev = symex.Evaluator(F, opaque_calls=lambda p: p == cx.roles.interpreter() or "JitMemory" in p)
    params = fn["thir"]["params"]
    key = ("self", path)
    sv = ev.sym_for("self", kind)
    # force the relevant Option field to None
    target = "jit" if meth == "execute_program_jit" else "prog"

    def force(v):
        if isinstance(v, tuple) and v and v[0] == "struct":
            return ("struct", v[1], v[2], tuple((k, (symex.NONE if k == target else force(x))) for k, x in v[3]))
        return v

    sv = force(sv)
    st = symex.St().set(key, sv)
    recv = params[0]["ty"]
    selfarg = ("ref", ("pv", key))
    extra = [ev.sym_for("a%d" % i, p["ty"]) for i, p in enumerate(params[1:])]
    outs = ev.run_fn(path, [selfarg] + extra, st) or []
    if meth == "execute_program":
        # the interpreter is opaque here: the None program must reach it unchanged, and the interpreter's own
        # None arm returns Err (checked on its THIR below)
        reached = [e for _v, s in outs for e in s.effects if e[0] == "call" and e[1] == cx.roles.interpreter()]
        ok = bool(reached) and all(e[2][0] == symex.NONE for e in reached)
        if not reached:
            # the wrapper tells the "no program" case apart itself: every path is an Err and the interpreter never runs
            ok = bool(outs) and all(result_kind(v) == "Err" for v, _s in outs)
        elif ok:
            ev2 = symex.Evaluator(F, opaque_calls=lambda p: False)
            fnI = F.fns[cx.roles.interpreter()]
            argsI = [symex.NONE] + [ev2.sym_for("p%d" % i, p["ty"]) for i, p in enumerate(fnI["thir"]["params"][1:])]
            r = ev2.run_fn(cx.roles.interpreter(), argsI) or []
            ok = bool(r) and all(result_kind(v) == "Err" and not [e for e in s.effects if e[0] in ("store", "loop")] for v, s in r)
        rep.ob(rule, "%s::%s" % (kind, meth), ok, "%s with no program loaded" % path, expected="Err, nothing executed", found=ok)
        return
    kinds = [result_kind(v) for v, s in outs]
    rep.ob(rule, "%s::%s" % (kind, meth), bool(kinds) and all(k == "Err" for k in kinds),
           "%s with %s = None" % (path, target), expected="Err on every path", found=kinds)
