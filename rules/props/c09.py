"""C09 - each VM kind presents the documented execution context to the program.

Decided: (R09.a) r1 at entry - interpreter: the mbuff / mem / 0 cascade on the slices the wrappers
pass; JIT: per wrapper flags (use_mbuff, update_data_ptr) the prologue moves the metadata-buffer or
the packet pointer into r1; Cranelift: select(mbuf_len != 0, mbuf, mem); (R09.b) the wrappers of the
four VM kinds pass the documented slices / flags and replace an empty packet by a null pointer in
both compiled paths; (R09.c) the fixed-mbuff buffer length is max(data_offset, data_end_offset) + 8
in the constructor and in set_program; (R09.d) on every execution the fixed-mbuff VM stores
mem_ptr at buffer+data_offset and mem_ptr+len at buffer+data_end_offset - interpreter and Cranelift
wrappers (byteorder writes) and JIT prologue (x86 stores); parametric in the offsets; (R09.e) r10 is
the top of a 512-byte private stack in all three engines; (R09.f) legacy loads are based on the
packet pointer (interpreter: mem; JIT: the saved third argument; Cranelift: first parameter)."""
import clmodel
import imodel
import isa
import jitmodel
import symex
import terms as T
import x86model as X
from common import Ctx
from facts import walk, strip, callee_path

ARGN = ["MBUFF_PTR", "MBUFF_LEN", "MEM_PTR", "MEM_LEN", "DATA_OFF", "DATA_END_OFF"]


def entry_machine(jm):
    m = jm.initial_machine()
    for r in range(16):
        m.regs[r] = ("v", "x86_" + X.NAMES[r], 64)
    for r, nm in zip(X.SYSV_ARGS, ARGN):
        m.regs[r] = ("v", nm, 64)
    return m


def _pointer_stores(F, path):
    """symbolic evaluation of a fixed-mbuff execution wrapper: every path that reaches the parent's
    execute call performed both pointer stores, and its condition does not depend on the packet"""
    fn = F.fns.get(path)
    if not fn:
        return "missing", False
    ev = symex.Evaluator(F, opaque_calls=lambda p: p.startswith("EbpfVmMbuff::execute_program") or p.endswith("CraneliftProgram::execute"))
    args = [ev.sym_for("a%d" % i, p["ty"]) for i, p in enumerate(fn["thir"]["params"])]
    outs = ev.run_fn(path, args) or []
    runs, problems = 0, []
    for v, s in outs:
        ran = [e for e in s.effects if e[0] == "call" and isinstance(e[1], str) and (e[1].startswith("EbpfVmMbuff::execute_program") or e[1].endswith("CraneliftProgram::execute"))]
        if not ran:
            if not (isinstance(v, tuple) and v and v[0] == "struct" and v[2] == "Err"):
                problems.append("a path neither runs the program nor returns Err")
            continue
        runs += 1
        if s.unrec:
            problems.append("unrecognised: %s" % (s.unrec[:1],))
        writes, last_idx = [], None
        for e in s.effects:
            if e[0] != "call" or not isinstance(e[1], str):
                continue
            if e[1].endswith("IndexMut<I>>::index_mut"):
                last_idx = repr(e[2][1])
            elif e[1].endswith("write_u64"):
                off = "data_end_offset" if last_idx and "data_end_offset" in last_idx else ("data_offset" if last_idx and "data_offset" in last_idx else "?")
                if last_idx and "RangeFrom" not in last_idx:
                    off = "?"
                val = e[2][1]
                ptr = ("call", "as_ptr", (("obj", "a1", fn["thir"]["params"][1]["ty"]),), 64)
                ln = ("call", "len", (("obj", "a1", fn["thir"]["params"][1]["ty"]),), 64)
                kind = "ptr" if val == ptr else ("ptr+len" if val == T.op("add", 64, ptr, ln) else T.show(val)[:60])
                writes.append((off, kind))
                last_idx = None
        if sorted(writes) != [("data_end_offset", "ptr+len"), ("data_offset", "ptr")]:
            problems.append("stores on a running path: %s" % (sorted(writes),))
    if runs == 0:
        problems.append("no path runs the program")
    return (sorted(set(problems)) or "%d running paths, both stores on each" % runs), not problems


def run(rep, tier, parts=("jit", "jit-base", "ctor", "interp", "cranelift")):
    cx = Ctx(rep, "std")
    F = cx.F
    jm = jitmodel.JitModel(cx)
    im = imodel.InterpModel(cx)
    if not (jm.ok and im.ok):
        return
    STACK = F.const("ebpf::STACK_SIZE")
    if "jit" in parts:
        # ---- JIT prologue per wrapper flags
        rj = rep.rule("R09.j", "JIT prologue: r1, r10, packet base and fixed-mbuff pointer stores per wrapper flags", floor=3)
        want_r1 = {(False, False): "MEM_PTR", (True, False): "MBUFF_PTR", (True, True): "MBUFF_PTR"}
        for flags in ((False, False), (True, False), (True, True)):
            frs_all = [f for f in jitmodel.frame_templates(jm, *flags) if f["ok"]]
            good, found = bool(frs_all), {}
            # every variant of the prologue the generator can emit (it may depend on the program) sets up the same context
            for fr1 in frs_all:
              frs = [fr1]
              if not good:
                break
              if True:
                  ins = X.decode_lenient(frs[0]["prologue"])
                  ms = X.run_lenient(ins, entry_machine(jm))
                  good = len(ms) == 1
                  if good:
                      m = ms[0]
                      r1 = m.regs[jm.regmap[1]]
                      r10 = m.regs[jm.regmap[10]]
                      rsp = m.regs[X.RSP]
                      top = jitmodel.rsp_offset(r10)
                      # the region [top-512, top) must have been allocated below r10 before the body runs
                      alloc = jitmodel.rsp_offset(rsp)
                      stores = [(w, a, x) for w, a, x in m.stores]
                      exp_stores = []
                      if flags == (True, True):
                          exp_stores = [(64, T.op("add", 64, ("v", "MBUFF_PTR", 64), ("v", "DATA_OFF", 64)), ("v", "MEM_PTR", 64)),
                                        (64, T.op("add", 64, ("v", "MBUFF_PTR", 64), ("v", "DATA_END_OFF", 64)),
                                         T.op("add", 64, ("v", "MEM_PTR", 64), ("v", "MEM_LEN", 64)))]
                      found = {"r1": T.show(r1), "r10_offset": top, "rsp_offset": alloc, "packet_base": T.show(m.regs[X.R10]),
                               "stores": [(w, T.show(a), T.show(x)) for w, a, x in stores]}
                      good = r1 == ("v", want_r1[flags], 64) and top is not None and alloc is not None and top - alloc >= STACK and \
                          m.regs[X.R10] == ("v", "MEM_PTR", 64) and stores == exp_stores
                      # epilogue mirrors the prologue
                      epi = X.decode_lenient(frs[0]["epilogue"])
                      pushes = [i.reg for i in ins if i.mn == "push"]
                      pops = [i.reg for i in epi if i.mn == "pop"]
                      subs = [i for i in ins if i.mn == "alu" and i.op == "sub" and i.dst == ("reg", X.RSP)]
                      adds = [i for i in epi if i.mn == "alu" and i.op == "add" and i.dst == ("reg", X.RSP)]
                      mirror = pops == list(reversed(pushes)) and len(subs) == 1 and len(adds) == 1 and subs[0].src == adds[0].src and epi[-1].mn == "ret"
                      found["epilogue_mirrors_prologue"] = mirror
                      found["callee_saved_pushed"] = sorted(pushes)
                      good = good and mirror and set(pushes) >= {jm.regmap[k] for k in (6, 7, 8, 9, 10)}
            rep.ob(rj, "flags=%s" % (flags,), good, "JIT prologue/epilogue for (use_mbuff, update_data_ptr) = %s" % (flags,),
                   expected={"r1": want_r1[flags], "r10": "top of a 512-byte area below the saved registers", "packet_base": "MEM_PTR"}, found=found, sample=True)

        # ---- legacy packet loads address the packet for every index register
        rl = rep.rule("R09.l", "x86 JIT: absolute / indirect packet loads read packet + (src) + imm, for every index register, as the interpreter does", floor=8)
        import props.c03 as c03
        for v, d in sorted(isa.TABLE.items()):
            if d["kind"] not in ("ldabs", "ldind"):
                continue
            srcs = range(11) if d["kind"] == "ldind" else (0,)
            bad = {}
            for sreg in srcs:
                ips = c03.interp_paths(im, v, 0, sreg)
                jps, problems = c03.jit_paths(jm, v, 0, sreg)
                diffs = problems + (c03.compare(ips, jps, legacy_load=True) if not problems else [])
                if diffs:
                    bad.setdefault(tuple(diffs[:2]), []).append(sreg)
            rep.ob(rl, "opc=%#04x" % v, not bad, "opcode %#04x (%s): JIT template vs interpreter for %d index registers" % (v, d["kind"], len(list(srcs))),
                   expected="equal effect summaries", found=[(list(k), regs) for k, regs in bad.items()][:2] or "agree")
        # ---- the register the prologue loads the packet address into still holds it when a legacy load runs: no
        # template of any other instruction writes it (R09.l evaluates the load templates under that invariant)
        if "jit-base" in parts:       # (under C03 the same fact is part of R03.a's comparison)
            rp = rep.rule("R09.p", "x86 JIT: no instruction template changes the register that holds the packet address, nor leaves the machine stack unbalanced", floor=100)
            for v, d in sorted(isa.TABLE.items()):
                if d["kind"] in ("call", "tail_call", "exit"):
                    continue        # helper / local calls and the epilogue: C07 / C08 (native call sequence), R09.j (epilogue)
                bad = {}
                for dd, sreg in c03.QUICK_PAIRS:
                    if dd == 10 and not isa.is_store(d):
                        dd = 9
                    jps, problems = c03.jit_paths(jm, v, dd, sreg)
                    for jp in jps:
                        if T.FALSE in jp["conds"]:
                            continue
                        for b in jp["bad"]:
                            bad.setdefault(b, []).append((dd, sreg))
                rep.ob(rp, "opc=%#04x" % v, not bad, "opcode %#04x (%s): packet base register and stack balance over %d register pairs" % (v, d["kind"], len(c03.QUICK_PAIRS)),
                       expected="unchanged", found=[(k, prs[:4]) for k, prs in bad.items()][:2] or "unchanged")
        # ---- wrappers: flags and arguments
        rw = rep.rule("R09.b", "wrappers pass the documented flags / slices; empty packet -> null in compiled paths", floor=6)
        flags_want = {"EbpfVmMbuff": [True, False], "EbpfVmFixedMbuff": [True, True], "EbpfVmRaw": [False, False]}
        for kind, want in flags_want.items():
            fn = F.fns.get(kind + "::jit_compile")
            got = None
            if fn:
                # evaluated (through a shared private helper if there is one): the two boolean arguments with which the
                # code memory is built on every path that builds it
                import props.c10 as c10f
                evf = symex.Evaluator(F, opaque_calls=lambda q: q.endswith("JitMemory::new"))
                try:
                    _k, _sv, outsf = c10f.run_method(evf, F, kind + "::jit_compile", [])
                except Exception:
                    outsf = []
                seen = set()
                for _v, stf in outsf:
                    for e in stf.effects:
                        if e[0] == "call" and isinstance(e[1], str) and e[1].endswith("JitMemory::new"):
                            seen.add(tuple(bool(a[2]) for a in e[2] if isinstance(a, tuple) and len(a) == 3 and a[0] == "k" and a[1] == 1))
                got = list(seen.pop()) if len(seen) == 1 else (sorted(seen) or None)
            rep.ob(rw, "%s::jit_compile" % kind, got == want, "%s::jit_compile flags (use_mbuff, update_data_ptr)" % kind, expected=want, found=got)
        import props.c10 as c10j
        for kind in ("EbpfVmMbuff", "EbpfVmFixedMbuff", "EbpfVmRaw", "EbpfVmNoData"):
            pathj = kind + "::execute_program_jit"
            fn = F.fns.get(pathj)
            ok, found = False, "missing"
            if fn:
                # evaluated: every path that invokes the compiled code passes (mbuff ptr, mbuff len, packet ptr - null for
                # an empty packet -, packet len, the two offsets) - wherever the null test is written
                evj = symex.Evaluator(F)
                aj = [evj.sym_for("a%d" % i, q["ty"]) for i, q in enumerate(fn["thir"]["params"][1:])]
                _k, _sv, outs = c10j.run_method(evj, F, pathj, aj)
                # (the wrappers of the raw and no-data VMs are evaluated through whatever they delegate to)
                mem = aj[0] if aj else None
                ln = ("call", "len", (mem,), 64) if aj else T.K(64, 0)
                empty = T.cmp("eq", 64, ln, T.K(64, 0)) if aj else None
                probs, ncalls = [], 0
                for v, st in outs:
                    for e in st.effects:
                        if not (e[0] == "call" and e[1] == "indirect"):
                            continue
                        ncalls += 1
                        args_ = list(e[3])
                        if len(args_) != 6:
                            probs.append("%d arguments" % len(args_))
                            continue
                        is_null = T.is_k(args_[2]) and args_[2][2] == 0 or (isinstance(args_[2], tuple) and args_[2][0] == "call" and str(args_[2][1]).endswith(("ptr::null_mut", "ptr::null")))
                        if empty is None or empty in st.conds:
                            if not is_null:
                                probs.append("empty packet: pointer argument is %s" % repr(args_[2])[:60])
                        elif T.lnot(empty) in st.conds:
                            if args_[2] != ("call", "as_ptr", (mem,), 64):
                                probs.append("non-empty packet: pointer argument is %s" % repr(args_[2])[:60])
                        else:
                            probs.append("the call does not depend on the packet being empty")
                        if args_[3] != ln:
                            probs.append("length argument is not mem.len()")
                ok = ncalls >= (2 if aj else 1) and not probs
                found = sorted(set(probs)) or "%d invoking paths: null for an empty packet, mem.as_ptr() otherwise" % ncalls
            rep.ob(rw, "%s::execute_program_jit/null" % kind, ok, "%s::execute_program_jit passes a null packet pointer for an empty packet" % kind,
                   expected="packet pointer = null when mem is empty, mem.as_ptr() otherwise; length = mem.len()", found=found)
        # Raw / NoData delegate with empty metadata buffer / empty packet
        for path, what in (("EbpfVmRaw::execute_program", "&[]"), ("EbpfVmNoData::execute_program", "&mut []")):
            fn = F.fns.get(path)
            ok = bool(fn) and any(n.get("k") == "array" and not n["es"] for n in walk(fn["thir"]["body"]))
            rep.ob(rw, path, ok, "%s delegates with an empty slice" % path, expected=what, found=ok)

    if "ctor" in parts:
        # ---- fixed mbuff: buffer length and pointer stores in the interpreter wrapper
        rc = rep.rule("R09.c", "fixed-mbuff buffer length == max(data_offset, data_end_offset) + 8 in new and set_program", floor=2)
        import props.c10 as c10_
        for path in ("EbpfVmFixedMbuff::new", "EbpfVmFixedMbuff::set_program"):
            fnc = F.fns.get(path)
            good, found = False, "missing"
            if fnc:
                evc = symex.Evaluator(F, opaque_calls=lambda q: q.endswith("EbpfVmMbuff::new") or q.endswith("EbpfVmMbuff::set_program"))
                if path.endswith("::new"):
                    ac = [evc.sym_for("a%d" % i, q["ty"]) for i, q in enumerate(fnc["thir"]["params"])]
                    outs = evc.run_fn(path, ac) or []
                    x, y = ac[1], ac[2]
                else:
                    ac = [evc.sym_for("a%d" % i, q["ty"]) for i, q in enumerate(fnc["thir"]["params"][1:])]
                    _k, _sv, outs = c10_.run_method(evc, F, path, ac)
                    x, y = ac[1], ac[2]
                oks = [(v, st) for v, st in outs if c10_.result_kind(v) in ("Ok", "?")]
                probs = []
                ge, lt = T.cmp("uge", 64, x, y), T.cmp("ult", 64, x, y)
                x8, y8 = T.op("add", 64, x, T.K(64, 8)), T.op("add", 64, y, T.K(64, 8))
                mx = {T.op("add", 64, T.ite(lt, y, x), T.K(64, 8)), T.op("add", 64, T.ite(ge, x, y), T.K(64, 8))}
                seen = set()
                for v, st in oks:
                    fe = [e for e in st.effects if e[0] == "call" and e[1] == "core::vec::from_elem"]
                    lens = [e[2][1] for e in fe if e[2][0] == T.K(8, 0)]
                    # `buffer.clear(); buffer.resize(n, 0)` is the same zeroed buffer of n bytes
                    calls_ = [e for e in st.effects if e[0] == "call" and isinstance(e[1], str)]
                    for k_, e in enumerate(calls_):
                        if e[1].endswith("Vec<T, A>::resize") and len(e[2]) >= 3 and e[2][2] == T.K(8, 0) and \
                                any(c[1].endswith("Vec<T, A>::clear") and c[2][:1] == e[2][:1] for c in calls_[:k_]):
                            lens.append(e[2][1])
                    if len(lens) != 1 or len(fe) > 1:
                        probs.append("%d zeroed-buffer allocations on an Ok path" % len(lens))
                        continue
                    ln = lens[0]
                    if ln in mx:
                        seen |= {"ge", "lt"}
                    elif ln == x8 and (ge in st.conds or T.lnot(lt) in st.conds):
                        seen.add("ge")
                    elif ln == y8 and (lt in st.conds or T.lnot(ge) in st.conds):
                        seen.add("lt")
                    else:
                        probs.append("length %s under %s" % (T.show(ln), [T.show(c) for c in st.conds if c in (ge, lt, T.lnot(ge), T.lnot(lt))]))
                if seen != {"ge", "lt"}:
                    probs.append("cases covered: %s" % sorted(seen))
                good, found = bool(oks) and not probs, sorted(set(probs)) or "x >= y: x + 8; x < y: y + 8"
            rep.ob(rc, path, good, "length of the zeroed buffer allocated by %s" % path, expected="x >= y ? x + 8 : y + 8", found=found)

        # constructor: offsets stored as given, zeroed buffer of the length decided by R09.c, parent built from the program
        rn = rep.rule("R09.n", "EbpfVmFixedMbuff::new stores the two offsets as given and a zeroed buffer of max(offsets)+8 bytes", floor=1)
        import props.c10 as c10
        pathn = "EbpfVmFixedMbuff::new"
        fnn = F.fns.get(pathn)
        okn, foundn = False, "missing"
        if fnn:
            evn = symex.Evaluator(F, opaque_calls=lambda q: q.endswith("EbpfVmMbuff::new"))
            an = [evn.sym_for("a%d" % i, q["ty"]) for i, q in enumerate(fnn["thir"]["params"])]
            outs = evn.run_fn(pathn, an) or []
            oks = [(v, st) for v, st in outs if c10.result_kind(v) == "Ok"]
            probs = []
            for v, st in oks:
                fl = c10.flat(symex.sfield(v, "0"))
                if fl.get("mbuff.data_offset") != an[1] or fl.get("mbuff.data_end_offset") != an[2]:
                    probs.append("offsets not stored as given")
                fe = [e for e in st.effects if e[0] == "call" and e[1] == "core::vec::from_elem" and e[3] == fl.get("mbuff.buffer")]
                want = {T.op("add", 64, an[1], T.K(64, 8)), T.op("add", 64, an[2], T.K(64, 8))}
                if not (len(fe) == 1 and fe[0][2][0] == T.K(8, 0) and fe[0][2][1] in want):
                    probs.append("buffer is not vec![0; offset + 8]")
                pc = [e for e in st.effects if e[0] == "call" and isinstance(e[1], str) and e[1].endswith("EbpfVmMbuff::new")]
                if not (len(pc) == 1 and pc[0][2][0] == an[0]):
                    probs.append("parent VM not built from the given program")
            okn, foundn = bool(oks) and not probs, sorted(set(probs)) or "%d Ok paths" % len(oks)
        rep.ob(rn, pathn, okn, "EbpfVmFixedMbuff::new Ok paths", expected="mbuff = { data_offset, data_end_offset, vec![0; max + 8] }, parent = EbpfVmMbuff::new(prog)", found=foundn)

    rd = rep.rule("R09.d", "fixed-mbuff executions store the packet start / end pointers at the configured offsets",
                  floor=("interp" in parts) + ("cranelift" in parts)) if ("interp" in parts or "cranelift" in parts) else None
    if "interp" in parts:
        for path in ["EbpfVmFixedMbuff::execute_program"]:
            found, good = _pointer_stores(F, path)
            rep.ob(rd, path, good, "%s: on every path that runs the program, little-endian u64 writes into the internal buffer" % path,
                   expected="buffer[data_offset..] := mem.as_ptr(), buffer[data_end_offset..] := mem.as_ptr() + mem.len(), unconditionally", found=found)

        # ---- interpreter r1 / r10 are decided under C01/R01.f; cite
        ri = rep.rule("R09.i", "interpreter initial r1/r10 (shared with C01/R01.f) and legacy-load base == packet", floor=2)
        base_ok = True
        for v in (0x20, 0x28, 0x30, 0x38, 0x40, 0x48, 0x50, 0x58):
            for p in im.summary(v):
                for val in p["regs"].values():
                    if "load" in repr(val) and "'MEM'" not in repr(val):
                        base_ok = False
        rep.ob(ri, "legacy-base", base_ok and im.param_role.get("MEM") is not None, "legacy loads address the packet slice",
               expected="as_ptr(MEM) + ...", found=base_ok)
        from props.c01 import _initial_state
        oki, foundi = _initial_state(cx, im)
        rep.ob(ri, "r1-r10", oki, "interpreter entry state: r1 = mbuff if non-empty else mem if non-empty else 0; r10 = top of the 512-byte stack",
               expected="[0 x10, stack+len]; r1 by the mbuff / mem / 0 cascade", found=foundi)

    if "cranelift" in parts:
        # ---- Cranelift
        cc = Ctx(rep, "cranelift")
        rcl = rep.rule("R09.cl", "Cranelift prelude: r1 = select(mbuf_len != 0, mbuf, mem), r10 = stack slot top; wrappers pass (mem, len, mbuf, len)", floor=2)
        from props.c11 import _prelude
        ok, found = _prelude(cc)
        rep.ob(rcl, "prelude-regions", ok, "Cranelift prelude region variables and r10", expected="see C11/R11.d", found=found)
        Fc = cc.F
        # evaluated, for every kind of VM (the raw and no-data wrappers through whatever they delegate to): each path
        # that runs the compiled program passes (packet pointer - null for an empty packet -, packet length, metadata
        # pointer, metadata length)
        import props.c10 as c10c
        wrap_bad, wrap_n = {}, 0
        for kind in ("EbpfVmMbuff", "EbpfVmFixedMbuff", "EbpfVmRaw", "EbpfVmNoData"):
            pathc = kind + "::execute_program_cranelift"
            fnw = Fc.fns.get(pathc)
            if not fnw:
                wrap_bad[kind] = ["missing"]
                continue
            evw = symex.Evaluator(Fc, opaque_calls=lambda q: q.endswith("CraneliftProgram::execute"))
            aw = [evw.sym_for("a%d" % i, q["ty"]) for i, q in enumerate(fnw["thir"]["params"][1:])]
            _k, _sv, outs = c10c.run_method(evw, Fc, pathc, aw)
            memw = aw[0] if aw else None
            lnw = ("call", "len", (memw,), 64) if aw else T.K(64, 0)
            emptyw = T.cmp("eq", 64, lnw, T.K(64, 0)) if aw else None
            probs, ncalls = [], 0
            for v, st in outs:
                for e in st.effects:
                    if not (e[0] == "call" and isinstance(e[1], str) and e[1].endswith("CraneliftProgram::execute")):
                        continue
                    ncalls += 1
                    xs = list(e[2])[1:]
                    if len(xs) != 4:
                        probs.append("%d arguments" % len(xs))
                        continue
                    is_null = (T.is_k(xs[0]) and xs[0][2] == 0) or (isinstance(xs[0], tuple) and xs[0][0] == "call" and str(xs[0][1]).endswith(("ptr::null_mut", "ptr::null")))
                    if emptyw is None or emptyw in st.conds:
                        if not is_null:
                            probs.append("empty packet: pointer argument is %s" % repr(xs[0])[:60])
                    elif T.lnot(emptyw) in st.conds:
                        if xs[0] != ("call", "as_ptr", (memw,), 64):
                            probs.append("non-empty packet: pointer argument is %s" % repr(xs[0])[:60])
                    else:
                        probs.append("the call does not depend on the packet being empty")
                    if xs[1] != lnw:
                        probs.append("packet length argument is not mem.len()")
                    mb = xs[2][2][0] if isinstance(xs[2], tuple) and xs[2][0] == "call" and xs[2][1] == "as_ptr" else None
                    if xs[3] == T.K(64, 0) and kind in ("EbpfVmRaw", "EbpfVmNoData"):
                        pass        # no metadata: a zero length makes the compiled code ignore the pointer
                    elif mb is None or xs[3] != ("call", "len", (mb,), 64):
                        probs.append("metadata pointer / length are not the as_ptr() / len() of one buffer")
                    elif kind == "EbpfVmMbuff" and mb != aw[1]:
                        probs.append("metadata buffer is not the caller's")
            if ncalls < (2 if aw else 1):
                probs.append("%d invoking paths" % ncalls)
            wrap_n += ncalls
            if probs:
                wrap_bad[kind] = sorted(set(probs))
        ok2 = not wrap_bad
        found, good = _pointer_stores(Fc, "EbpfVmFixedMbuff::execute_program_cranelift")
        rep.ob(rd, "EbpfVmFixedMbuff::execute_program_cranelift", good,
               "EbpfVmFixedMbuff::execute_program_cranelift: on every path that runs the program, little-endian u64 writes into the internal buffer",
               expected="buffer[data_offset..] := mem.as_ptr(), buffer[data_end_offset..] := mem.as_ptr() + mem.len()", found=found)
        rlc = rep.rule("R09.lc", "Cranelift: absolute / indirect packet loads read packet + (src) + imm, for every index register, as the interpreter does", floor=8)
        import props.c04 as c04
        import clmodel as _cl
        imc, cmc = imodel.InterpModel(cc), _cl.ClModel(cc)
        if imc.ok and cmc.ok:
            for v, d in sorted(isa.TABLE.items()):
                if d["kind"] not in ("ldabs", "ldind"):
                    continue
                srcs = range(11) if d["kind"] == "ldind" else (0,)
                bad = {}
                for sreg in srcs:
                    ips = c04.interp_paths(imc, v, 0, sreg)
                    cps, problems = c04.cl_paths(cmc, v, 0, sreg)
                    diffs = problems + (c04.compare(ips, cps, d) if not problems else [])
                    if diffs:
                        bad.setdefault(tuple(diffs[:2]), []).append(sreg)
                rep.ob(rlc, "opc=%#04x" % v, not bad, "opcode %#04x (%s): Cranelift template vs interpreter for %d index registers" % (v, d["kind"], len(list(srcs))),
                       expected="equal effect summaries", found=[(list(k), regs) for k, regs in bad.items()][:2] or "agree")
        rep.ob(rcl, "wrapper-args", ok2, "execute_program_cranelift of every kind of VM: arguments handed to the compiled program",
               expected="(null for an empty packet else mem.as_ptr(), mem.len(), mbuff.as_ptr(), mbuff.len())", found=wrap_bad or "%d invoking paths agree" % wrap_n)
    rep.trust("rustc front end / typed THIR", "x86model.py", "SysV argument registers at JIT entry", "byteorder::LittleEndian::write_u64")
    rep.assume("overlapping offsets are excluded by the statement", "allocation failure for huge offsets is out of scope")
