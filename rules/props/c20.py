"""C20 - behaviour is the same with and without the standard library.

Decided (E8, configuration differ): the type-checked bodies (normalised typed THIR) of every
function present in both the `std` and the `--no-default-features` expansion are identical, except
for an enumerated set of functions that each get their own rule; items present in only one
configuration are exactly the documented ones; every dependency compiled under no_std has
`default-features = false`.  With identical bodies, every other property's verdict on the std facts
carries over to no_std.  Not decided: that combine's `easy_parse` and `parse` accept the same
language (combine's contract)."""
import json
import os
import re

import facts as factsmod
from common import Ctx
from facts import walk, strip, callee_path, norm_path

STD_ONLY = re.compile(r"^helpers::(bpf_time_getns|bpf_trace_printf|sqrti|rand)(::|$)|^<jit::JitMemory<'_> as core::ops::Drop>::drop$")
NOSTD_ONLY = re.compile(r"^(EbpfVmMbuff|EbpfVmFixedMbuff|EbpfVmRaw|EbpfVmNoData)::set_jit_exec_memory$|^no_std_error::|^<no_std_error::")
MAY_DIFFER = {
    "asm_parser::parse": "entry",
    "disassembler::disassemble": "sink",
    "jit::JitMemory::counter": "layout-field",
    "jit::JitMemory::new": "two-pass",
    "EbpfVmMbuff::jit_compile": "wrapper",
    "EbpfVmFixedMbuff::jit_compile": "wrapper",
    "EbpfVmRaw::jit_compile": "wrapper",
    "EbpfVmMbuff::new": "ctor",
}
DROP = {"line", "sp", "snip", "id", "local", "resolved"}
TY = [(re.compile(r"\{closure@[^}]*\}"), "{closure}"),
      (re.compile(r"\b(std|alloc)::"), "core::"),
      (re.compile(r"core::io::error::Error|core::io::Error|no_std_error::Error|crate::lib::Error"), "ERROR"),
      (re.compile(r"core::io::error::ErrorKind|core::io::ErrorKind|no_std_error::ErrorKind"), "ERRORKIND"),
      (re.compile(r"(\w)::<(?!impl)"), r"\1<")]


def nty(s):
    for rx, rep in TY:
        s = rx.sub(rep, s)
    return s


def norm(n, ids):
    if isinstance(n, dict):
        out = {}
        for k, v in n.items():
            if k in DROP:
                if k == "id":
                    out["id"] = ids.setdefault(v, len(ids))
                continue
            if k == "src" and isinstance(v, str):
                out[k] = v.split("(")[0]
                continue
            out[k] = norm(v, ids)
        return out
    if isinstance(n, list):
        return [norm(x, ids) for x in n]
    if isinstance(n, str):
        return nty(n)
    return n


def body_of(fn):
    if not fn.get("thir"):
        return None
    return json.dumps(norm(fn["thir"], {}), sort_keys=True)


def _measuring_ctor(F):
    """the private constructor of the code memory used by the measuring pass: the associated function of JitMemory,
    other than `new`, that builds a JitMemory value directly (whatever it is called)"""
    c = sorted(p for p, fn in F.fns.items() if re.match(r"^jit::JitMemory::\w+$", p) and p != "jit::JitMemory::new" and fn.get("thir")
               and any(n.get("k") == "adt" and str(n.get("path", "")).endswith("JitMemory") for n in walk(fn["thir"]["body"])))
    return c[0] if len(c) == 1 else None


def run(rep, tier):
    cs = Ctx(rep, "std")
    cn = Ctx(rep, "nostd")
    S, N = cs.F, cn.F
    global MAY_DIFFER
    mc = _measuring_ctor(S)
    MAY_DIFFER = {(mc if (how == "layout-field" and mc) else p): how for p, how in MAY_DIFFER.items() if how != "wrapper"}
    # the functions that hand the program to the x86-64 code generator (the three compile wrappers, or a private
    # helper they share): whichever function calls JitMemory::new directly
    for q, fq in sorted(S.fns.items()):
        if fq.get("thir") and "{closure" not in q and q.startswith("EbpfVm") and \
                any(c.get("k") == "call" and (callee_path(c) or "").endswith("JitMemory::new") for c in walk(fq["thir"]["body"])):
            MAY_DIFFER[q] = "wrapper"
    both = sorted(set(S.fns) & set(N.fns))
    ra = rep.rule("R20.a", "items present in only one configuration are the documented ones", floor=5)
    std_only = sorted(set(S.fns) - set(N.fns))
    # a private function that only the documented std-only items call is std-only with them (a helper extracted from one)
    callers = {}
    for q, fq in S.fns.items():
        if fq.get("thir"):
            for c in walk(fq["thir"]["body"]):
                if c.get("k") == "call":
                    callers.setdefault(callee_path(c), set()).add(_outer(q))
    documented = {p for p in std_only if STD_ONLY.search(p)}
    grew = True
    while grew:
        grew = False
        for p in std_only:
            if p not in documented and not S.fns[p].get("pub") and callers.get(p) and callers[p] <= documented | {p}:
                documented.add(p)
                grew = True
    for p in std_only:
        rep.ob(ra, "std-only/%s" % p, p in documented or _outer(p) in documented, "item only in the std configuration: %s" % p,
               expected="four std-only helpers (and private functions only they call), Drop for JitMemory", found=p)
    # likewise a private function that only the no_std-only items and the compile wrappers (whose no_std half takes the
    # caller-supplied executable memory) call
    ncallers = {}
    for q, fq in N.fns.items():
        if fq.get("thir"):
            for c in walk(fq["thir"]["body"]):
                if c.get("k") == "call":
                    ncallers.setdefault(callee_path(c), set()).add(_outer(q))
    nostd_only = sorted(set(N.fns) - set(S.fns))
    ndoc = {p for p in nostd_only if NOSTD_ONLY.search(p)}
    wrappers = {q for q, how in MAY_DIFFER.items() if how == "wrapper"}
    grew = True
    while grew:
        grew = False
        for p in nostd_only:
            if p not in ndoc and not N.fns[p].get("pub") and ncallers.get(p) and ncallers[p] <= ndoc | wrappers | {p}:
                ndoc.add(p)
                grew = True
    for p in nostd_only:
        rep.ob(ra, "nostd-only/%s" % p, p in ndoc or _outer(p) in ndoc, "item only in the no_std configuration: %s" % p,
               expected="set_jit_exec_memory x4, the error shim (and private functions only they or the compile wrappers call)", found=p)
    rb = rep.rule("R20.b", "bodies common to both configurations are identical after normalisation", floor=300)
    differing = []
    same = 0
    for p in both:
        a, b = body_of(S.fns[p]), body_of(N.fns[p])
        if a == b:
            same += 1
            continue
        differing.append(p)
        if _outer(p) not in MAY_DIFFER:     # closures of a function that may differ are judged with it (R20.c)
            rep.ob(rb, "body/%s" % p, False, "body of %s differs between std and no_std" % p,
                   expected="identical typed THIR", found=_first_diff(a, b))
    rep.bulk(rb, same, "%d function bodies are identical in both configurations (interpreter, verifier, assembler, "
                       "disassembler tables, ebpf, stack, builder, JIT code generator among them)" % same)
    rep.info("identical_bodies", same)
    rep.info("differing_bodies", differing)
    for role, path in (("interpreter", cs.roles.interpreter()), ("verifier", cs.roles.verifier()), ("jit", cs.roles.jit()),
                       ("assemble", "assembler::assemble"), ("to_insn_vec", "disassembler::to_insn_vec")):
        rep.ob(rb, "core/%s" % role, path in both and path not in differing, "%s body identical in both configurations" % role,
               expected="identical", found="differs" if path in differing else "identical")
    # const tables
    consts_same = all(S.consts.get(k, {}).get("value") == N.consts.get(k, {}).get("value") for k in set(S.consts) & set(N.consts))
    rep.ob(rb, "consts", consts_same and set(S.consts) - set(N.consts) <= {k for k in S.consts if STD_ONLY.search(k) or k.rsplit("::", 1)[0] in documented},
           "evaluated constants agree", expected="equal values", found=sorted(set(S.consts) ^ set(N.consts))[:6])

    rc = rep.rule("R20.c", "each body that may differ differs only in the documented way", floor=6)
    for p, how in MAY_DIFFER.items():
        if p not in both:
            rep.ob(rc, p, False, "%s missing in a configuration" % p)
            continue
        fs, fn = _with_closures(S, p), _with_closures(N, p)
        ok, found = _special(how, p, fs, fn, cs, cn)
        rep.ob(rc, p, ok, "%s: std and no_std variants (%s)" % (p, how), expected="differs only by %s" % how, found=found, sample=True)

    rd = rep.rule("R20.d", "dependencies compiled under no_std disable their default features", floor=3)
    try:
        import tomllib
        with open(os.path.join(factsmod.REPO, "Cargo.toml"), "rb") as fh:
            cargo = tomllib.load(fh)
    except Exception as e:  # pragma: no cover
        cargo = None
        rep.ob(rd, "cargo-toml", False, "cannot parse Cargo.toml: %s" % e)
    if cargo:
        feats = cargo.get("features", {})
        std_deps = {d[4:] for d in feats.get("std", []) if d.startswith("dep:")}
        opt_other = {d[4:] for f, ds in feats.items() if f not in ("std", "default") for d in ds if d.startswith("dep:")}
        for name, spec in sorted(cargo.get("dependencies", {}).items()):
            if name in std_deps or name in opt_other:
                continue
            ok = isinstance(spec, dict) and spec.get("default-features") is False
            rep.ob(rd, name, ok, "dependency %s is compiled under no_std" % name, expected="default-features = false", found=spec)
        rep.ob(rd, "default", feats.get("default") == ["std"], "default feature set", expected=["std"], found=feats.get("default"))
    # R20.e: the no_std JIT takes caller-supplied executable memory: it may refuse it only for being too small
    # for the (page-rounded) code or not page-aligned; anything else must compile and run as the std build does
    re_ = rep.rule("R20.e", "no_std JitMemory::new refuses caller-supplied memory exactly when it is shorter than the page-rounded code size or not aligned to PAGE_SIZE", floor=1)
    import symex
    import terms as T
    Fn_ = Ctx(rep, "nostd").F
    pth = "jit::JitMemory::new"
    fnn = Fn_.fns.get(pth)
    oke, founde = False, "missing"
    if fnn and fnn.get("thir"):
        page = Fn_.const("jit::PAGE_SIZE")
        OPQ = ("jit_compile", "resolve_jumps", "round_up_to_page", _measuring_ctor(Fn_) or "JitMemory::counter", "JitCompiler::new", "JitCompiler::default")
        ev = symex.Evaluator(Fn_, opaque_calls=lambda q: q.endswith(OPQ))
        args = [ev.sym_for("a%d" % k, q["ty"]) for k, q in enumerate(fnn["thir"]["params"])]
        mems = [a for a, q in zip(args, fnn["thir"]["params"]) if q["ty"].startswith("&mut [u8]") or q["ty"].startswith("&'a mut [u8]")]
        outs = ev.run_fn(pth, args) or []
        own = []
        for v, st in outs:
            if not (isinstance(v, tuple) and len(v) > 2 and v[0] == "struct" and v[2] == "Err"):
                continue
            if "residual" in repr(symex.sfield(v, "0"))[:40]:
                continue        # an error propagated from the compiler passes
            own.append([c for c in st.conds if "is_ok" not in repr(c)[:30]])
        probs = []
        if len(mems) != 1 or not isinstance(page, int):
            probs.append("executable-memory parameter / PAGE_SIZE not identified")
        else:
            ln = ("call", "len", (mems[0],), 64)
            ptr = ("call", "as_ptr", (mems[0],), 64)
            sizes = {c[4] for cs in own for c in cs if c[0] == "cmp" and c[1] == "ult" and c[3] == ln}
            if len(sizes) != 1 or "round_up_to_page" not in repr(list(sizes)[0]):
                probs.append("size test: %s" % [T.show(x)[:80] for x in sizes])
            else:
                size = sizes.pop()
                want = [[T.cmp("ult", 64, ln, size)],
                        [T.cmp("ule", 64, size, ln), T.cmp("ne", 64, T.K(64, 0), T.op("urem", 64, ptr, T.K(64, page)))]]
                got = sorted(sorted(map(repr, cs)) for cs in own)
                if got != sorted(sorted(map(repr, cs)) for cs in want):
                    probs.append("refusals: %s" % [[T.show(c)[:90] for c in cs] for cs in own])
        oke, founde = not probs, probs or "too small / not page-aligned, nothing else"
    rep.ob(re_, pth, oke, "conditions under which the no_std JitMemory::new itself returns Err",
           expected="len < round_up_to_page(code size)  |  ptr % PAGE_SIZE != 0", found=founde)
    rep.trust("rustc front end: cfg expansion and type checking of both configurations", "combine: easy_parse and parse accept the same language")
    rep.assume("properties decided on the std facts carry over through body identity")


def _outer(p):
    return re.sub(r"(::\{closure#\d+\})+$", "", p)


def _with_closures(F, p):
    """the function together with the bodies of its closures (one pseudo-body, for the call inventories of R20.c)"""
    fn = dict(F.fns[p])
    inner = [F.fns[q]["thir"]["body"] for q in sorted(F.fns) if q != p and _outer(q) == p and F.fns[q].get("thir")]
    if inner:
        th = dict(fn["thir"])
        th["body"] = {"k": "block", "stmts": [], "tail": None, "closures": inner, "outer": fn["thir"]["body"]}
        fn["thir"] = th
    return fn


def _first_diff(a, b):
    if a is None or b is None:
        return "body missing"
    i = next((i for i in range(min(len(a), len(b))) if a[i] != b[i]), min(len(a), len(b)))
    return "std: …%s…  no_std: …%s…" % (a[max(0, i - 60):i + 60], b[max(0, i - 60):i + 60])


def _calls(fn):
    return [n for n in walk(fn["thir"]["body"]) if n.get("k") == "call"]


def _special(how, p, fs, fn, cs, cn):
    if how == "entry":
        def shape(f):
            j = body_of(f)
            return j.replace("combine::EasyParser::easy_parse", "ENTRY").replace("combine::Parser::parse", "ENTRY") \
                    .replace("combine::parser::Parser::parse", "ENTRY")
        cs_, cn_ = [callee_path(c) for c in _calls(fs)], [callee_path(c) for c in _calls(fn)]
        ent_s = [c for c in cs_ if c and c.endswith("easy_parse")]
        ent_n = [c for c in cn_ if c and re.search(r"Parser::parse$", c)]
        rest_s = sorted(c for c in cs_ if c and not c.endswith("easy_parse") and "Error" not in c and "to_string" not in c)
        rest_n = sorted(c for c in cn_ if c and not re.search(r"Parser::parse$", c) and "Error" not in c and "to_string" not in c)
        return len(ent_s) == 1 and len(ent_n) == 1 and rest_s == rest_n, {"std_entry": ent_s, "nostd_entry": ent_n}
    if how == "sink":
        def core(f):
            cs_ = [callee_path(c) for c in _calls(f)]
            return [c for c in cs_ if c == "disassembler::to_insn_vec"], [c for c in cs_ if c and c.startswith("disassembler::") and c != "disassembler::to_insn_vec"]
        a, b = core(fs), core(fn)
        return a == b and len(a[0]) == 1, {"std": a, "nostd": b}
    if how == "layout-field":
        def fields(f):
            for n in walk(f["thir"]["body"]):
                if n.get("k") == "adt" and n["path"].endswith("JitMemory"):
                    return {k: (strip(v).get("v"), strip(v).get("k")) for k, v in n["fields"].items()}
            return None
        a, b = fields(fs), fields(fn)
        from props.c12 import field_by_type
        pos = field_by_type(cs.F, "jit::JitMemory", r"^usize$")
        flag = field_by_type(cs.F, "jit::JitMemory", r"^bool$")
        ok = a is not None and b is not None and {k: v for k, v in a.items() if k != "layout"} == b and \
            pos is not None and a.get(pos, (None,))[0] == 0 and (flag is None or a.get(flag, (None,))[0] is False)
        return ok, {"std": a, "nostd": b}
    if how == "two-pass":
        import props.c12 as c12
        a = c12.two_pass(cs.F, cs.roles.jit())
        b = c12.two_pass(cn.F, cn.roles.jit())
        return a[0] and b[0] and a[1].get("passes") == b[1].get("passes"), {"std": a[1], "nostd": b[1]}
    if how == "wrapper":
        def flags(f):
            # the two boolean arguments, as written (a literal or the name of a variable), in order
            for c in _calls(f):
                if (callee_path(c) or "").endswith("JitMemory::new"):
                    out = []
                    for a in c["args"]:
                        x = strip(a)
                        if x.get("ty") == "bool":
                            out.append(x.get("v") if x.get("k") == "lit" else (x.get("name") if x.get("k") in ("var", "upvar") else "?"))
                    return out
            return None
        a, b = flags(fs), flags(fn)
        return a is not None and a == b and len(a) == 2 and "?" not in a, {"std": a, "nostd": b}
    if how == "ctor":
        def lit(f):
            for n in walk(f["thir"]["body"]):
                if n.get("k") == "adt" and n["path"].endswith("EbpfVmMbuff"):
                    return {k: json.dumps(norm(v, {}), sort_keys=True) for k, v in n["fields"].items()}
            return None
        a, b = lit(fs), lit(fn)
        extra = set(b or ()) - set(a or ())
        ok = a is not None and b is not None and all(a[k] == b[k] for k in a) and extra <= {"custom_exec_memory"}
        return ok, {"extra_nostd_fields": sorted(extra)}
    return False, "no rule"
