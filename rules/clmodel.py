"""E6b: Cranelift model.  The translate arm of an opcode is evaluated symbolically (local wrappers
inlined, Cranelift builder calls recorded in order); `interpret` then replays the builder calls with
the semantics the InstBuilder documentation gives them (0.127) and produces the effect summary in
the same vocabulary as the interpreter's."""
import re

import models
import symex
import terms as T

REG = ("obj", "REG", "[u64; 11]")
TYW = {"I8": 8, "I16": 16, "I32": 32, "I64": 64}
BIN = {"iadd": "add", "isub": "sub", "imul": "mul", "udiv": "udiv", "urem": "urem", "band": "and", "bor": "or", "bxor": "xor"}
SH = {"ishl": "shl", "ushr": "lshr", "sshr": "ashr"}
CC = {"Equal": "eq", "NotEqual": "ne", "UnsignedGreaterThan": "ugt", "UnsignedGreaterThanOrEqual": "uge",
      "UnsignedLessThan": "ult", "UnsignedLessThanOrEqual": "ule", "SignedGreaterThan": "sgt",
      "SignedGreaterThanOrEqual": "sge", "SignedLessThan": "slt", "SignedLessThanOrEqual": "sle"}


class Unknown(Exception):
    pass


def _tyw(x):
    if isinstance(x, tuple) and x and x[0] == "obj":
        m = re.search(r"types::(I\d+)$", x[1])
        if m:
            return TYW[m.group(1)]
    return None


def cl_models():
    def bytes_(ev, vals, n, s, path, gens):
        w = _tyw(ev.deref_val(vals[0], s))
        return [(T.K(32, w // 8), s)] if w else None

    def bits_(ev, vals, n, s, path, gens):
        w = _tyw(ev.deref_val(vals[0], s))
        return [(T.K(32, w), s)] if w else None

    def peq(neg):
        def f(ev, vals, n, s, path, gens):
            a, b = ev.deref_val(vals[0], s), ev.deref_val(vals[1], s)
            if _tyw(a) and _tyw(b):
                r = (a == b) != neg
                return [(T.TRUE if r else T.FALSE, s)]
            if isinstance(a, tuple) and isinstance(b, tuple) and a and b and a[0] == b[0] == "struct" and not a[3] and not b[3]:
                r = (a[1:3] == b[1:3]) != neg
                return [(T.TRUE if r else T.FALSE, s)]
            return None
        return f

    def endian(ev, vals, n, s, path, gens):
        return [(symex.struct("cranelift_codegen::ir::Endianness", "Little", ()), s)]   # little-endian host (recorded assumption)

    def ptr_ty(ev, vals, n, s, path, gens):
        return [(("obj", "const:cranelift_codegen::ir::types::I64", "cranelift_codegen::ir::Type"), s)]   # 64-bit host

    return {
        "cranelift_codegen::isa::TargetIsa::pointer_type": ptr_ty,
        "<(dyn cranelift_codegen::isa::TargetIsa + 'a)>::pointer_type": ptr_ty,
        "<(dyn cranelift_codegen::isa::TargetIsa + 'a)>::endianness": endian,
        "cranelift_codegen::ir::Type::bytes": bytes_,
        "cranelift_codegen::ir::Type::bits": bits_,
        "core::cmp::PartialEq::ne": peq(True),
        "core::cmp::PartialEq::eq": peq(False),
        "cranelift_codegen::isa::TargetIsa::endianness": endian,
        "<cranelift_codegen::ir::Type as core::cmp::PartialEq>::ne": peq(True),
        "<cranelift_codegen::ir::Type as core::cmp::PartialEq>::eq": peq(False),
        "<cranelift_codegen::ir::Endianness as core::cmp::PartialEq>::eq": peq(False),
    }


class ClModel:
    def __init__(self, cx):
        self.cx = cx
        F = cx.F
        self.fn = cx.roles.cranelift_translate()
        self.ok = self.fn is not None
        if not self.ok:
            return
        self.lm = models.LoopModel(F, self.fn)
        self.lm.ev = symex.Evaluator(F, max_depth=8, models=cl_models())
        self.pcname, self.pcid = models.loop_counter_name(F, self.fn)
        self.extra = {}

    def canon(self, t):
        return models.canon(t, self.pcname, self.extra)

    def paths(self, v, d, s):
        """-> list of dict(conds, effects (ordered builder calls), pc, err, unrec)"""
        ev = self.lm.ev
        owner = ev.owner_of(self.fn)
        out = []
        for _val, st in self.lm.run(v, fields={"dst": T.K(8, d), "src": T.K(8, s)}, keep=lambda stmt: stmt["k"] == "let"):
            err = None
            if st.exit is not None and st.exit[0] == "ret":
                r = st.exit[1]
                if isinstance(r, tuple) and r and r[0] == "struct" and r[2] == "Err":
                    err = "Err"
            if st.exit is not None and st.exit[0] == "panic":
                err = "panic"
            effs = [e for e in st.effects if e[0] == "call"]
            pcv = st.env.get((owner, self.pcid))
            out.append({"conds": [self.canon(c) for c in st.conds], "effects": effs, "pc": self.canon(pcv) if pcv is not None else None,
                        "err": err, "unrec": [u for u in st.unrec if "field write on symbolic" not in u]})
        return out

    # ------------------------------------------------------------------ replay
    def interpret(self, path):
        vals = {}
        regs = {k: ("sel", REG, T.K(64, k), 64) for k in range(11)}
        # the prelude binds mem_start to the first entry parameter, the packet pointer (checked by C09/R09.f and C11/R11.d)
        named = {"mem_start": ("call", "as_ptr", (("obj", "MEM", "&[u8]"),), 64)}
        res = {"regs": {}, "stores": [], "atomics": [], "traps": [], "exit": None, "calls": [], "checks": [], "order": []}
        canon = self.canon

        def var_key(v):
            if isinstance(v, tuple) and v and v[0] == "elem":
                return ("reg", v[2])
            if isinstance(v, tuple) and v and v[0] == "obj":
                m = re.search(r"\.(\w+)$", v[1])
                return ("named", m.group(1) if m else v[1])
            raise Unknown("variable %r" % (v,))

        def val(x):
            if isinstance(x, tuple) and x and x[0] == "obj" and x in vals:
                return vals[x]
            if isinstance(x, tuple) and x and x[0] == "elem" and x[1] in vals and x[2] == 0 and vals[x[1]] is not None:
                return vals[x[1]]
            if isinstance(x, tuple) and symex._w(x):
                return canon(x)
            raise Unknown("value %r" % (x,))

        def ty(x):
            if isinstance(x, tuple) and x and x[0] == "obj":
                m = re.search(r"types::(I\d+)$", x[1])
                if m:
                    return TYW[m.group(1)]
            raise Unknown("type %r" % (x,))

        for e in path["effects"]:
            name, args, r = e[1], e[2], e[3]
            short = name.split("::")[-1]
            if name.endswith("FunctionBuilder::use_var"):
                k = var_key(args[1])
                vals[r] = regs[k[1]] if k[0] == "reg" else named.setdefault(k[1], ("v", "CL." + k[1], 64))
            elif name.endswith("FunctionBuilder::def_var"):
                k = var_key(args[1])
                if k[0] == "reg":
                    regs[k[1]] = val(args[2])
                    res["regs"][T.K(64, k[1])] = regs[k[1]]
                else:
                    named[k[1]] = val(args[2])
            elif name.endswith("FunctionBuilder::ins") or name.endswith("set_srcloc") or name.endswith("SourceLoc::new") \
                    or name.endswith("MemFlags::new") or name.endswith("set_endianness") or name.endswith("pointer_type") \
                    or name.endswith("current_block") or name.endswith("endianness") or "HashMap" in name or "BTreeMap" in name \
                    or "Option<" in name or "fmt" in name or name.endswith("unwrap") or name.endswith("copied") or name.endswith("ok_or_else"):
                continue
            elif "InstBuilder::" in name:
                a = args[1:]
                if short == "iconst":
                    w = ty(a[0])
                    vals[r] = T.trunc(w, val(a[1])) if w < 64 else val(a[1])
                elif short in BIN:
                    x, y = val(a[0]), val(a[1])
                    vals[r] = T.op(BIN[short], T.width(x), x, y)
                elif short in SH:
                    x, y = val(a[0]), val(a[1])
                    vals[r] = T.shift(SH[short], T.width(x), x, y)     # Cranelift: amount taken modulo the width
                elif short.endswith("_imm") and (short[:-4] in BIN or short[:-4] in SH or short == "irsub_imm"):
                    # InstBuilder `<op>_imm(x, Imm64)`: the immediate is the operand at x's width
                    x = val(a[0])
                    w = T.width(x)
                    y = val(a[1])
                    y = T.trunc(w, y) if T.width(y) > w else (T.sext(w, y) if T.width(y) < w else y)
                    base = short[:-4]
                    if base in BIN:
                        vals[r] = T.op(BIN[base], w, x, y)
                    elif base in SH:
                        vals[r] = T.shift(SH[base], w, x, y)
                    else:
                        vals[r] = T.op("sub", w, y, x)
                elif short == "bnot":
                    x = val(a[0])
                    vals[r] = T.op("xor", T.width(x), x, T.K(T.width(x), (1 << T.width(x)) - 1))
                elif short in ("uload8", "uload16", "uload32", "sload8", "sload16", "sload32"):
                    w = int(short[5:])
                    # uload8 / uload16 / sload8 / sload16 take the result type first; uload32 / sload32 always give I64
                    if len(a) == 4:
                        wide, pa, oa = ty(a[0]), a[2], a[3]
                    elif len(a) == 3:
                        wide, pa, oa = 64, a[1], a[2]
                    else:
                        raise Unknown("%s with %d arguments" % (short, len(a)))
                    addr = T.op("add", 64, val(pa), T.sext(64, val(oa)))
                    ld = ("load", w, addr)
                    vals[r] = T.zext(wide, ld) if short[0] == "u" else T.sext(wide, ld)
                    res["order"].append(("load", w, addr))
                elif short in ("istore8", "istore16", "istore32"):
                    w = int(short[6:])
                    v0 = T.trunc(w, val(a[1]))
                    addr = T.op("add", 64, val(a[2]), T.sext(64, val(a[3])))
                    res["stores"].append((w, addr, v0))
                    res["order"].append(("store", w, addr))
                elif short == "ineg":
                    x = val(a[0])
                    vals[r] = T.neg(T.width(x), x)
                elif short == "bswap":
                    x = val(a[0])
                    vals[r] = T.bswap(T.width(x), x)
                elif short == "ireduce":
                    vals[r] = T.trunc(ty(a[0]), val(a[1]))
                elif short == "uextend":
                    vals[r] = T.zext(ty(a[0]), val(a[1]))
                elif short == "sextend":
                    vals[r] = T.sext(ty(a[0]), val(a[1]))
                elif short == "icmp":
                    x, y = val(a[1]), val(a[2])
                    vals[r] = T.cmp(CC[a[0][2]], T.width(x), x, y)
                elif short == "icmp_imm":
                    x = val(a[1])
                    y = val(a[2])
                    y = T.trunc(T.width(x), y) if T.width(y) > T.width(x) else y
                    vals[r] = T.cmp(CC[a[0][2]], T.width(x), x, y)
                elif short == "select":
                    c, x, y = val(a[0]), val(a[1]), val(a[2])
                    c = c if T.width(c) == 1 else T.nz(c)
                    vals[r] = T.ite(c, x, y)
                elif short == "load":
                    w = ty(a[0])
                    addr = T.op("add", 64, val(a[2]), T.sext(64, val(a[3])))
                    vals[r] = ("load", w, addr)
                    res["order"].append(("load", w, addr))
                elif short == "store":
                    v0 = val(a[1])
                    addr = T.op("add", 64, val(a[2]), T.sext(64, val(a[3])))
                    res["stores"].append((T.width(v0), addr, v0))
                    res["order"].append(("store", T.width(v0), addr))
                elif short == "atomic_load":
                    w = ty(a[0])
                    addr = val(a[2])
                    vals[r] = ("load", w, addr)
                    res["order"].append(("load", w, addr))
                elif short == "atomic_store":
                    v0 = val(a[1])
                    addr = val(a[2])
                    res["stores"].append((T.width(v0), addr, v0))
                    res["order"].append(("store", T.width(v0), addr))
                elif short == "atomic_rmw":
                    w = ty(a[0])
                    if not (isinstance(a[2], tuple) and a[2][0] == "struct" and a[2][2] == "Add"):
                        raise Unknown("atomic op %r" % (a[2],))
                    v0 = val(a[4])
                    res["atomics"].append((w, val(a[3]), v0))
                    res["order"].append(("atomic", w, val(a[3])))
                    vals[r] = ("call", "atomic_old", (val(a[3]),), w)
                elif short == "trapz":
                    c = val(a[0])
                    res["traps"].append(c)
                    res["order"].append(("trapz", c))
                elif short == "brif":
                    c = val(a[0])
                    c = c if T.width(c) == 1 else T.nz(c)
                    res["exit"] = ("brif", c, a[1], a[3])
                elif short == "jump":
                    res["exit"] = ("jump", a[0])
                elif short == "return_":
                    rv = a[0]
                    item = rv[1][0] if isinstance(rv, tuple) and rv and rv[0] == "array" else rv
                    res["exit"] = ("return", val(item))
                elif short == "call":
                    argv = a[1]
                    items = argv[1] if isinstance(argv, tuple) and argv and argv[0] == "array" else ()
                    res["calls"].append((a[0], tuple(val(x) for x in items)))
                    vals[r] = ("call", "helper", (a[0],) + tuple(val(x) for x in items), 64)
                elif short == "stack_addr":
                    vals[r] = ("v", "CL.stack+%s" % T.show(val(a[2])) if symex._w(a[2]) else "CL.stack", 64)
                else:
                    raise Unknown("builder method %s" % short)
            elif name.endswith("FunctionBuilder::inst_results"):
                vals[r] = vals.get(args[1])
            elif "cranelift_frontend::FunctionBuilder::" in name or "cranelift_codegen::ir::InstBuilder" in name:
                raise Unknown("call %s" % name)
            else:
                continue    # bookkeeping outside the IR builder (maps, sets, formatting)
        res["regs_final"] = regs
        res["vals"] = vals
        return res


def ite_conds(t, acc):
    if isinstance(t, tuple):
        if t and t[0] == "ite":
            if t[1] not in acc:
                acc.append(t[1])
        for x in t:
            if isinstance(x, tuple):
                ite_conds(x, acc)
    return acc


def assume(t, c, truth):
    """simplify t under the assumption that condition c is `truth`"""
    def f(x):
        if x == c:
            return T.TRUE if truth else T.FALSE
        if x == T.lnot(c):
            return T.FALSE if truth else T.TRUE
        return None
    return T.rebuild(t, f)


def split(summary):
    """value-level selects -> condition-indexed paths: [(conds, regs, stores, atomics, exit)]"""
    conds = []
    for v in summary["regs"].values():
        ite_conds(v, conds)
    for _w, a, x in summary["stores"] + summary["atomics"]:
        ite_conds(a, conds)
        ite_conds(x, conds)
    conds = [c for c in conds][:4]
    outs = []
    import itertools
    for bits in itertools.product([True, False], repeat=len(conds)):
        cs = []
        regs = dict(summary["regs"])
        stores, atomics = list(summary["stores"]), list(summary["atomics"])
        ok = True
        for c, b in zip(conds, bits):
            # later conditions may already be decided by earlier assumptions
            cc = c
            for c0, b0 in cs:
                cc = assume(cc, c0, b0)
            if cc == T.TRUE and not b or cc == T.FALSE and b:
                ok = False
                break
            if cc in (T.TRUE, T.FALSE):
                continue
            cs.append((cc, b))
            regs = {k: assume(v, cc, b) for k, v in regs.items()}
            stores = [(w, assume(a, cc, b), assume(x, cc, b)) for w, a, x in stores]
            atomics = [(w, assume(a, cc, b), assume(x, cc, b)) for w, a, x in atomics]
        if ok:
            outs.append(([c if b else T.lnot(c) for c, b in cs], regs, stores, atomics))
    return outs
