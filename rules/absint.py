"""Interval + linear-fact + congruence abstract interpretation over MIR (used by the panic
inventory, E3).

State at a program point:
  iv    : key -> (lo, hi)      intervals of scalar places (`_5`, `_8.0`, `_16.opc`), of slice-length
                               symbols (`len(_1)`) and of enum discriminants (`_7#d`)
  facts : frozenset of G       linear forms known to be <= 0; dropped when a constituent place is
                               assigned
  sym   : key -> linear form   value of a place as a linear form over other places / symbols
  cong  : key -> m             the place / symbol is known to be a multiple of m
Places whose address is taken mutably are never tracked (they read as their type range).
Infeasible edges (empty refinement) propagate nothing, so code behind them is unreachable.
"""
import heapq
import re
from math import gcd

INT_RANGES = {}
for _w in (8, 16, 32, 64, 128):
    INT_RANGES["u%d" % _w] = (0, (1 << _w) - 1)
    INT_RANGES["i%d" % _w] = (-(1 << (_w - 1)), (1 << (_w - 1)) - 1)
INT_RANGES["usize"] = INT_RANGES["u64"]
INT_RANGES["isize"] = INT_RANGES["i64"]
INT_RANGES["bool"] = (0, 1)
INT_RANGES["char"] = (0, 0x10FFFF)
ISIZE_MAX = (1 << 63) - 1
BITS = {"u8": 8, "i8": 8, "u16": 16, "i16": 16, "u32": 32, "i32": 32, "u64": 64, "i64": 64,
        "usize": 64, "isize": 64, "u128": 128, "i128": 128}
NEG = {"Eq": "Ne", "Ne": "Eq", "Lt": "Ge", "Ge": "Lt", "Gt": "Le", "Le": "Gt"}
VARIANT_IDX = {"Ok": 0, "Err": 1, "None": 0, "Some": 1, "Continue": 0, "Break": 1}


def ty_range(ty):
    return INT_RANGES.get(ty)


# ------------------------------------------------------------------ linear forms
# (const, ((sym, coeff), ...)) with syms sorted.

def lin_const(c):
    return (c, ())


def lin_sym(s):
    return (0, ((s, 1),))


def lin_add(a, b, sign=1):
    d = dict(a[1])
    for s, c in b[1]:
        d[s] = d.get(s, 0) + sign * c
    return (a[0] + sign * b[0], tuple(sorted((s, c) for s, c in d.items() if c != 0)))


def lin_scale(a, k):
    if k == 0:
        return lin_const(0)
    return (a[0] * k, tuple((s, c * k) for s, c in a[1]))


def lin_syms(a):
    return {s for s, _ in a[1]}


def key_of(place):
    """Place key for locals with field-only projections; None otherwise."""
    if place is None:
        return None
    k = "_%d" % place["l"]
    for e in place["p"]:
        if isinstance(e, dict) and "f" in e:
            k += "." + e["f"]
        elif isinstance(e, dict) and "downcast" in e and e["downcast"]:
            k += ".@" + e["downcast"]
        else:
            return None
    return k


def op_place(o):
    return o.get("copy") or o.get("move")


def base_local(key):
    if key.startswith("len("):
        key = key[4:-1]
    return key.split(".")[0].split("#")[0]


_TOK = re.compile(r"_\d+(?:\.\w+)*")


def _mentions(sym, key):
    """does symbol / key `sym` depend on place `key` (or a field of it, or a prefix of it)?"""
    if sym.startswith("E:") or sym.startswith("len("):
        for b in _TOK.findall(sym):
            if b == key or b.startswith(key + ".") or key.startswith(b + "."):
                return True
        return False
    b = sym.split("#")[0]
    return b == key or b.startswith(key + ".") or key.startswith(b + ".")


def lin_repr(l):
    return "%d%s" % (l[0], "".join("%+d*%s" % (c, s) for s, c in l[1]))


def expr_sym(op, *parts):
    return lin_sym("E:%s(%s)" % (op, ",".join(parts)))


def _rv_ops(r):
    k = r["k"]
    if k in ("use", "cast", "repeat"):
        return [r["o"]]
    if k == "bin":
        return [r["a"], r["b"]]
    if k == "un":
        return [r["a"]]
    if k == "agg":
        return r["ops"]
    return []


class State:
    __slots__ = ("iv", "facts", "sym", "cong", "cond", "rel")

    def __init__(self, iv=None, facts=frozenset(), sym=None, cong=None, cond=None, rel=frozenset()):
        self.rel = rel      # relational congruences ("mult", a, b): a is a multiple of b
        self.iv = iv if iv is not None else {}
        self.facts = facts
        self.sym = sym if sym is not None else {}
        self.cong = cong if cong is not None else {}
        self.cond = cond if cond is not None else {}   # result local -> facts that hold if it is Ok

    def copy(self):
        return State(dict(self.iv), self.facts, dict(self.sym), dict(self.cong), dict(self.cond), self.rel)

    def kill(self, key):
        """An assignment to `key` invalidates everything known about it and its fields."""
        for k in [k for k in self.iv if _mentions(k, key)]:
            del self.iv[k]
        for k in [k for k in self.cong if _mentions(k, key)]:
            del self.cong[k]
        for k in [k for k, l in self.sym.items() if _mentions(k, key) or any(_mentions(s, key) for s in lin_syms(l))]:
            del self.sym[k]
        if self.facts:
            self.facts = frozenset(f for f in self.facts if not any(_mentions(s, key) for s in lin_syms(f)))
        if self.cond:
            for k in [k for k, fs in self.cond.items() if _mentions(k, key) or any(_mentions(f[1], key) for f in fs)]:
                del self.cond[k]
        if self.rel:
            self.rel = frozenset(r for r in self.rel if not (_mentions(r[1], key) or _mentions(r[2], key)))


def join(a, b):
    iv = {}
    for k in a.iv.keys() & b.iv.keys():
        x, y = a.iv[k], b.iv[k]
        iv[k] = (min(x[0], y[0]), max(x[1], y[1]))
    sym = {k: v for k, v in a.sym.items() if b.sym.get(k) == v}
    cong = {k: gcd(v, b.cong[k]) for k, v in a.cong.items() if k in b.cong and gcd(v, b.cong[k]) > 1}
    cond = {k: v for k, v in a.cond.items() if b.cond.get(k) == v}
    return State(iv, a.facts & b.facts, sym, cong, cond, a.rel & b.rel)


def same(a, b):
    return a.iv == b.iv and a.facts == b.facts and a.sym == b.sym and a.cong == b.cong and a.cond == b.cond and a.rel == b.rel


CONST_FIELDS = {}       # const item path -> {field: value} for struct constants (filled in by the inventory from the facts)


def norm_const_path(p):
    return re.sub(r"\b(std|alloc)::", "core::", p or "")


class Analysis:
    def __init__(self, body, entry_iv=None, adts=None, summaries=None):
        """entry_iv: {key: (lo,hi)} facts assumed at function entry.  adts: facts.adts.
        summaries: {callee path: {suffix: (lo,hi)}} return-value summaries of local functions."""
        self.b = body
        self.adts = adts or {}
        self.summaries = summaries or {}
        self.tys = {("_%d" % l["id"]): l["ty"] for l in body.locals}
        self._field_tys = {}
        self.addr_taken = self._addr_taken()
        self.entry_iv = entry_iv or {}
        self.entry_cong = {}
        self.inn = {}
        self._collect_defs()
        th = set()
        for blk in body.blocks:
            for st_ in blk["stmts"]:
                if st_["k"] == "assign":
                    for o in _rv_ops(st_["r"]):
                        v = o.get("const", {}).get("v") if isinstance(o, dict) else None
                        if isinstance(v, int) and not isinstance(v, bool):
                            th.update((v - 1, v, v + 1))
        self.thresholds = sorted(th)

    # -------------------------------------------------------------- prepass
    def _addr_taken(self):
        """Mutable borrows.  self.carriers[X] = locals that may hold a mutable reference to X
        (the `&mut X` temporaries, their copies / reborrows, aggregates and closures built from
        them).  X is modified behind our back only by a call that receives a carrier or by a
        write through a carrier; if a carrier is stored somewhere we cannot follow, X is never
        tracked (returned set)."""
        carriers = {}
        lost = set()
        for blk in self.b.blocks:
            for st in blk["stmts"]:
                if st["k"] == "assign":
                    r = st["r"]
                    if (r["k"] == "ref" and r["mut"]) or (r["k"] == "rawptr" and "Mut" in r.get("kind", "")):
                        if "deref" not in r["p"]["p"]:
                            x = "_%d" % r["p"]["l"]
                            dk = key_of(st["p"])
                            if dk is None or "." in dk:
                                lost.add(x)
                            else:
                                carriers.setdefault(x, set()).add(dk)
        changed = True
        while changed:
            changed = False
            for blk in self.b.blocks:
                for st in blk["stmts"]:
                    if st["k"] != "assign":
                        continue
                    r = st["r"]
                    srcs = []
                    if r["k"] in ("use", "cast"):
                        srcs = [r["o"]]
                    elif r["k"] == "agg":
                        srcs = r["ops"]
                    elif r["k"] in ("ref", "rawptr"):
                        srcs = [{"copy": r["p"]}]
                    for o in srcs:
                        p = op_place(o)
                        if p is None:
                            continue
                        b = "_%d" % p["l"]
                        for x, cs in carriers.items():
                            if b in cs:
                                dk = key_of(st["p"])
                                if dk is None:
                                    if x not in lost:
                                        lost.add(x)
                                        changed = True
                                else:
                                    d = dk.split(".")[0]
                                    if d not in cs:
                                        cs.add(d)
                                        changed = True
                t = blk["term"]
                if t["k"] == "call":
                    # a call returning something built from a carrier keeps the borrow alive in the result
                    dk = key_of(t["dest"])
                    for a in t["args"]:
                        p = op_place(a)
                        if p is None:
                            continue
                        b = "_%d" % p["l"]
                        for x, cs in carriers.items():
                            if b in cs and dk and ("&mut" in self.tys.get(dk.split(".")[0], "") or "*mut" in self.tys.get(dk.split(".")[0], "")):
                                d = dk.split(".")[0]
                                if d not in cs:
                                    cs.add(d)
                                    changed = True
        self.carriers = carriers
        return lost

    def _collect_defs(self):
        counts, defs, alld = {}, {}, {}
        for bi, blk in enumerate(self.b.blocks):
            for si, st in enumerate(blk["stmts"]):
                if st["k"] in ("assign", "setdiscr"):
                    k = key_of(st["p"])
                    if k:
                        counts[k] = counts.get(k, 0) + 1
                        defs[k] = (bi, si, st.get("r") or {"k": "setdiscr"})
                        alld.setdefault(k, []).append(defs[k])
                        b = base_local(k)
                        if b != k:
                            counts[b] = counts.get(b, 0) + 1
            t = blk["term"]
            if t["k"] == "call":
                k = key_of(t["dest"])
                if k:
                    counts[k] = counts.get(k, 0) + 1
                    defs[k] = (bi, -1, {"k": "callret", "t": t})
        self.single = {k: defs[k] for k, c in counts.items() if c == 1 and k in defs}
        self.alldefs = alld
        self.defcount = counts
        self.quotients = {}     # symbol of floor(a / c) -> (linear form a, constant c > 0)

    def place_ty(self, key):
        if key in self.tys:
            return self.tys[key]
        if key in self._field_tys:
            return self._field_tys[key]
        if key.startswith("len("):
            return "usize"
        parts = key.split(".")
        ty = self.tys.get(parts[0])
        for f in parts[1:]:
            ty = self.field_ty(ty, f)
            if ty is None:
                return None
        self._field_tys[key] = ty
        return ty

    def field_ty(self, ty, f):
        if ty is None:
            return None
        ty = ty.strip()
        if ty.startswith("(") and ty.endswith(")") and f.isdigit():
            parts, depth, cur = [], 0, ""
            for ch in ty[1:-1]:
                if ch in "(<[":
                    depth += 1
                elif ch in ")>]":
                    depth -= 1
                if ch == "," and depth == 0:
                    parts.append(cur.strip())
                    cur = ""
                else:
                    cur += ch
            if cur.strip():
                parts.append(cur.strip())
            i = int(f)
            return parts[i] if i < len(parts) else None
        base = re.sub(r"<.*>$", "", ty)
        adt = self.adts.get(base)
        if adt and adt["kind"] == "struct":
            for fd in adt["variants"][0]["fields"]:
                if fd["name"] == f:
                    return fd["ty"]
        return None

    def tracked(self, key):
        return key is not None and base_local(key) not in self.addr_taken

    # -------------------------------------------------------------- operand evaluation
    def op_ty(self, o):
        if "const" in o:
            return o["const"]["ty"]
        p = op_place(o)
        if p is None:
            return None
        if not p["p"]:
            return self.tys.get("_%d" % p["l"])
        k = key_of(p)
        return self.place_ty(k) if k else self._elem_ty(p)

    def op_iv(self, st, o, ty=None):
        if "const" in o:
            v = o["const"].get("v")
            if isinstance(v, bool):
                v = int(v)
            if isinstance(v, int):
                return (v, v)
            return ty_range(o["const"]["ty"])
        p = op_place(o)
        if p is None:
            return None
        k = key_of(p)
        if k is not None and self.tracked(k):
            if k in st.iv:
                return st.iv[k]
            ln = st.sym.get(k)
            if ln is not None:
                b = self._lin_iv(st, ln)
                if b is not None:
                    return b
        if k is None:
            ln = self.op_lin(st, o)
            if ln is not None and ln[1][0][0] in st.iv:
                return st.iv[ln[1][0][0]]
            if ty is None:
                ty = self._elem_ty(p)
        if ty:
            return ty_range(ty)
        return ty_range(self.place_ty(k)) if k else None

    def _elem_ty(self, p):
        t = self.tys.get("_%d" % p["l"], "")
        m = re.match(r"^\[(.*); *[^;\]]+\]$", t)
        if m and len(p["p"]) == 1:
            return m.group(1)
        return None

    def _lin_iv(self, st, ln):
        lo = hi = ln[0]
        for s, c in ln[1]:
            iv = self._sym_iv(st, s)
            if iv is None:
                return None
            lo += c * (iv[0] if c > 0 else iv[1])
            hi += c * (iv[1] if c > 0 else iv[0])
        return (lo, hi)

    def op_lin(self, st, o):
        if "const" in o:
            v = o["const"].get("v")
            if isinstance(v, bool):
                return lin_const(int(v))
            if isinstance(v, int):
                return lin_const(v)
            return None
        p = op_place(o)
        if p is None:
            return None
        k = key_of(p)
        if k is None:
            # `arr[_i]` on a local array: a symbol that dies when the array or the index is written
            pr = p["p"]
            if len(pr) == 1 and isinstance(pr[0], dict) and "idx" in pr[0]:
                arr = "_%d" % p["l"]
                ik = "_%d" % pr[0]["idx"]
                if self.tracked(arr) and self.tracked(ik):
                    il = st.sym.get(ik, lin_sym(ik))
                    return lin_sym("E:elem(%s,%s)" % (arr, lin_repr(il)))
            return None
        if not self.tracked(k):
            return None
        return st.sym.get(k, lin_sym(k))

    def nonzero(self, st, o):
        iv = self.op_iv(st, o)
        if iv and (iv[0] > 0 or iv[1] < 0):
            return True
        ln = self.op_lin(st, o)
        if ln is None or ln[0] != 0 or len(ln[1]) != 1 or abs(ln[1][0][1]) != 1:
            return False
        return self._nz_sym(st, ln[1][0][0], 0)

    def _nz_sym(self, st, s, depth):
        if ("E:NZ(%s)" % s) in st.iv:
            return True
        if depth > 3:
            return False
        # any integer cast of x being non-zero means x is non-zero (a truncation of 0 is 0)
        tail = "(0+1*%s))" % s
        if any(k.startswith("E:NZ(E:cast<") and k.endswith(tail) for k in st.iv):
            return True
        # a widening (or same-width) integer cast of a non-zero value is non-zero
        m = re.match(r"E:cast<(\w+)>\(0\+1\*(.*)\)$", s)
        if m and self._nz_sym(st, m.group(2), depth + 1):
            src_ty = self.place_ty(m.group(2)) if not m.group(2).startswith("E:") else None
            if src_ty and BITS.get(src_ty, 999) <= BITS.get(m.group(1), 0):
                return True
        return False

    def op_cong(self, st, o):
        ln = self.op_lin(st, o)
        if ln is None:
            return 1
        g = abs(ln[0])
        for s, c in ln[1]:
            g = gcd(g, abs(c) * st.cong.get(s, 1))
        return g if g > 0 else 0  # 0 = the value is exactly 0

    # -------------------------------------------------------------- rvalues
    def rvalue(self, st, r, dest_ty):
        """-> (interval | None, linear form | None, overflow-tuple?)"""
        k = r["k"]
        rng = ty_range(dest_ty)
        if k == "use":
            return self.op_iv(st, r["o"], dest_ty), self.op_lin(st, r["o"]), False
        if k == "cast":
            lo = self.op_lin(st, r["o"])
            if r["ck"] == "IntToInt":
                src = self.op_iv(st, r["o"], r["from"]) or ty_range(r["from"])
                trg = ty_range(r["to"])
                if src and trg and trg[0] <= src[0] and src[1] <= trg[1]:
                    return src, lo, False
                es = expr_sym("cast<%s>" % r["to"], lin_repr(lo)) if lo is not None else None
                if es is not None and es[1][0][0] in st.iv:
                    return st.iv[es[1][0][0]], es, False
                return trg, es, False
            if r["ck"] in ("PtrToPtr", "PointerExposeProvenance", "PointerWithExposedProvenance", "Transmute") \
                    and ("*" in r["to"] or r["to"] in ("usize", "u64")) and ("*" in r["from"] or r["from"] in ("usize", "u64")):
                return (self.op_iv(st, r["o"], "usize") if lo is not None else (0, (1 << 64) - 1)), lo, False
            return rng, None, False
        if k == "bin":
            return self._bin(st, r, rng)
        if k == "un":
            a = self.op_iv(st, r["a"])
            if r["op"] == "PtrMetadata":
                p = op_place(r["a"])
                kk = self._ref_source(key_of(p)) if p else None
                if kk and (self.tracked(kk) or ("len(%s)" % kk) in st.iv):
                    s = "len(%s)" % kk
                    return st.iv.get(s, (0, ISIZE_MAX)), lin_sym(s), False
                return (0, ISIZE_MAX), None, False
            if r["op"] == "Not" and dest_ty == "bool" and a:
                return (1 - a[1], 1 - a[0]), None, False
            if r["op"] == "Neg" and a and rng:
                raw = (-a[1], -a[0])
                if rng[0] <= raw[0] and raw[1] <= rng[1]:
                    return raw, None, False
            return rng, None, False
        if k == "discr":
            dk = key_of(r["p"])
            if dk and self.tracked(dk) and (dk + "#d") in st.iv:
                return st.iv[dk + "#d"], None, False
            return rng, None, False
        return rng, None, False

    def _bin(self, st, r, rng):
        op = r["op"]
        aty = r.get("aty")
        a = self.op_iv(st, r["a"], aty) or ty_range(aty)
        bty = self.op_ty(r["b"]) or aty
        b = self.op_iv(st, r["b"], bty) or ty_range(bty)
        la, lb = self.op_lin(st, r["a"]), self.op_lin(st, r["b"])
        arng = ty_range(aty)
        if op in NEG:
            return self._cmp_iv(op, a, b), None, False
        checked = op.endswith("WithOverflow")
        if a is None or b is None or arng is None:
            return (None if checked else rng), None, checked
        raw = lin = None
        base = op.replace("WithOverflow", "").replace("Unchecked", "")
        if base == "Add":
            raw = (a[0] + b[0], a[1] + b[1])
            if la is not None and lb is not None:
                lin = lin_add(la, lb)
        elif base == "Sub":
            raw = (a[0] - b[1], a[1] - b[0])
            if la is not None and lb is not None:
                lin = lin_add(la, lb, -1)
        elif base == "Mul":
            c = [a[0] * b[0], a[0] * b[1], a[1] * b[0], a[1] * b[1]]
            raw = (min(c), max(c))
            if la is not None and lb is not None:
                if not la[1]:
                    lin = lin_scale(lb, la[0])
                elif not lb[1]:
                    lin = lin_scale(la, lb[0])
        elif base == "Div":
            if b[0] > 0 and a[0] >= 0:
                lo, hi = a[0] // b[1], a[1] // b[0]
                if b[0] == b[1]:
                    c = b[0]
                    m = self.op_cong(st, r["a"])
                    exact = (m == 0 or m % c == 0)
                    if exact:
                        lo = -((-a[0]) // c)  # ceil: the dividend is a multiple of the divisor
                    if la is not None:
                        # q = floor(a / c):  c*q <= a  and  a <= c*q + (c-1)   (a == c*q when exact)
                        q = expr_sym("Div<%s>" % aty, lin_repr(la), lin_repr(lb))
                        self.quotients[q[1][0][0]] = (la, c)
                        st.facts = st.facts | frozenset([
                            lin_add(lin_scale(q, c), la, -1),
                            lin_add(lin_add(la, lin_scale(q, c), -1), lin_const(0 if exact else c - 1), -1)])
                raw = (lo, hi)
        elif base == "Rem":
            if b[0] > 0 and a[0] >= 0:
                raw = (0, min(a[1], b[1] - 1))
        elif base == "BitAnd":
            if a[0] >= 0 and b[0] >= 0:
                raw = (0, min(a[1], b[1]))
            elif b[0] >= 0:
                raw = (0, b[1])
            elif a[0] >= 0:
                raw = (0, a[1])
        elif base in ("BitOr", "BitXor"):
            if a[0] >= 0 and b[0] >= 0:
                m = max(a[1], b[1])
                raw = (max(a[0], b[0]) if base == "BitOr" else 0, (1 << m.bit_length()) - 1)
        elif base == "Shr":
            if b[0] == b[1] and 0 <= b[0] < 128 and (a[0] >= 0 or arng[0] < 0):
                raw = (a[0] >> b[0], a[1] >> b[0])   # logical for unsigned, arithmetic for signed
            elif a[0] >= 0:
                raw = (0, a[1])
        elif base == "Shl":
            if a[0] >= 0 and b[0] == b[1] and 0 <= b[0] < 128 and arng[0] == 0:
                c = b[0]
                raw = (a[0] << c, a[1] << c) if (a[1] << c) <= arng[1] else (0, (arng[1] >> c) << c)
        if checked:
            val = arng
            if raw is not None:
                lo, hi = max(raw[0], arng[0]), min(raw[1], arng[1])
                if lo <= hi:
                    val = (lo, hi)
            return val, (lin if base in ("Add", "Sub", "Mul") else None), True
        if lin is None and la is not None and lb is not None and base in (
                "BitAnd", "BitOr", "BitXor", "Shl", "Shr", "Div", "Rem", "Mul", "Add", "Sub"):
            parts = [lin_repr(la), lin_repr(lb)]
            if base in ("BitAnd", "BitOr", "BitXor", "Mul", "Add"):
                parts.sort()
            lin = expr_sym("%s<%s>" % (base, aty), *parts)
            if base == "BitAnd":
                # x & mask is a multiple of the mask's lowest set bit
                for m_ in (a, b):
                    if m_ is not None and m_[0] == m_[1] and m_[0] > 0:
                        low = m_[0] & -m_[0]
                        if low > 1:
                            sym_ = lin[1][0][0]
                            st.cong[sym_] = st.cong.get(sym_, 1) * low // gcd(st.cong.get(sym_, 1), low)
        elif lin is not None and not (raw is not None and arng[0] <= raw[0] and raw[1] <= arng[1]):
            lin = expr_sym("w%s<%s>" % (base, aty), lin_repr(la), lin_repr(lb))  # may wrap
        res = raw if (raw is not None and arng[0] <= raw[0] and raw[1] <= arng[1]) else arng
        if lin is not None and len(lin[1]) == 1 and lin[1][0][0].startswith("E:") and lin[1][0][0] in st.iv:
            known = st.iv[lin[1][0][0]]
            res = (max(res[0], known[0]), min(res[1], known[1])) if max(res[0], known[0]) <= min(res[1], known[1]) else res
        return res, lin, False

    @staticmethod
    def _cmp_iv(op, a, b):
        if a is None or b is None:
            return (0, 1)
        t = f = False
        if op == "Lt":
            t, f = a[1] < b[0], a[0] >= b[1]
        elif op == "Le":
            t, f = a[1] <= b[0], a[0] > b[1]
        elif op == "Gt":
            t, f = a[0] > b[1], a[1] <= b[0]
        elif op == "Ge":
            t, f = a[0] >= b[1], a[1] < b[0]
        elif op == "Eq":
            t, f = a[0] == a[1] == b[0] == b[1], (a[1] < b[0] or b[1] < a[0])
        elif op == "Ne":
            f, t = a[0] == a[1] == b[0] == b[1], (a[1] < b[0] or b[1] < a[0])
        return (1, 1) if t else ((0, 0) if f else (0, 1))

    # -------------------------------------------------------------- transfer
    def assign(self, st, place, r):
        key = key_of(place)
        if key is None:
            # write through deref / index: only locals reachable through a carrier can be hit
            b = "_%d" % place["l"]
            if "deref" in place["p"]:
                for x, cs in self.carriers.items():
                    if b in cs:
                        st.kill(x)
            else:
                st.kill(b)
            return
        if r["k"] == "agg" and r.get("ak") in ("adt", "tuple"):
            vals = []
            names = r.get("fields") or [str(i) for i in range(len(r["ops"]))]
            for nm, o in zip(names, r["ops"]):
                vals.append((nm, self.op_ty(o), self.op_iv(st, o, self.op_ty(o)), self.op_lin(st, o)))
            st.kill(key)
            if not self.tracked(key):
                return
            if r.get("is_enum"):
                st.iv[key + "#d"] = (r["vidx"], r["vidx"])
                return
            for nm, fty, iv, ln in vals:
                fk = key + "." + nm
                if fty:
                    self._field_tys[fk] = fty
                if iv is not None:
                    st.iv[fk] = iv
                if ln is not None and not any(_mentions(s, key) for s in lin_syms(ln)):
                    st.sym[fk] = ln
            return
        dest_ty = self.place_ty(key)
        iv, ln, checked = self.rvalue(st, r, dest_ty)
        moved = None
        moved_sym = []
        if r["k"] == "use":
            sk = key_of(op_place(r["o"])) if op_place(r["o"]) else None
            if sk and self.tracked(sk):
                moved = [(k2[len(sk):], v) for k2, v in st.iv.items() if k2.startswith(sk + ".") or k2 == sk + "#d"]
                moved_sym = [(k2[len(sk):], v) for k2, v in st.sym.items() if k2.startswith(sk + ".")]
        cg = self.op_cong(st, r["o"]) if r["k"] in ("use",) else 1
        st.kill(key)
        if not self.tracked(key):
            return
        if checked:
            aty = r.get("aty")
            self._field_tys[key + ".0"] = aty
            self._field_tys[key + ".1"] = "bool"
            if iv is not None:
                st.iv[key + ".0"] = iv
            st.iv[key + ".1"] = (0, 1)
            if ln is not None and not any(_mentions(s, key) for s in lin_syms(ln)):
                st.sym[key + ".0"] = ln
            return
        if iv is not None:
            st.iv[key] = iv
        if ln is not None and not any(_mentions(s, key) for s in lin_syms(ln)):
            st.sym[key] = ln
        if moved:
            for suf, v in moved:
                st.iv[key + suf] = v
        for suf, v in moved_sym:
            if not any(_mentions(x, key) for x in lin_syms(v)):
                st.sym[key + suf] = v

    def block_transfer(self, bi, st, upto=None):
        blk = self.b.blocks[bi]
        for si, s in enumerate(blk["stmts"]):
            if upto is not None and si >= upto:
                break
            if s["k"] == "assign":
                self.assign(st, s["p"], s["r"])
            elif s["k"] == "setdiscr":
                k = key_of(s["p"])
                if k:
                    st.kill(k)
                    if self.tracked(k):
                        st.iv[k + "#d"] = (s["variant"], s["variant"])
        return st

    # -------------------------------------------------------------- conditions
    def _resolve_bool(self, o, bi, depth=0):
        """operand -> ('cmp', op, a, b, aty) | ('call', name, args, positive) for a single-def bool
        temporary whose defining operands cannot have changed since."""
        p = op_place(o)
        if p is None or depth > 3:
            return None
        k = key_of(p)
        d = self.single.get(k)
        if not d:
            return self._resolve_conjunction(k, bi, depth)
        return self._resolve_def(d, bi, depth)

    def _resolve_conjunction(self, k, bi, depth):
        """`let c = a && b;` lowers to two assignments of the local: `c = false` where `a` failed and `c = <b>` where
        it held.  When c is true the second one ran: both `a` (the edge into that block) and `b` hold."""
        ds = self.alldefs.get(k) or []
        if len(ds) != 2 or self.defcount.get(k, 0) != 2:
            return None

        def is_false(r):
            return r.get("k") == "use" and isinstance(r.get("o"), dict) and isinstance(r["o"].get("const"), dict) and r["o"]["const"].get("ty") == "bool" and r["o"]["const"].get("v") in (0, False)
        fl = [d for d in ds if is_false(d[2])]
        ot = [d for d in ds if not is_false(d[2])]
        if len(fl) != 1 or len(ot) != 1:
            return None
        dbi, dsi, r = ot[0]
        tgo = self.b.blocks[dbi]["term"]
        if not (tgo["k"] == "goto" and tgo["target"] == bi):
            return None     # only when the conjunction is consumed right where its two assignments join
        second = self._resolve_def(ot[0], bi, depth + 1)
        if second is None:
            return None
        # the first conjunct: the conditional edge through which the block of the second assignment is entered
        cur = dbi
        chain = [dbi]
        preds = [q for q in self.b.pred[cur]]
        hops = 0
        while len(preds) == 1 and self.b.blocks[preds[0]]["term"]["k"] in ("goto", "drop", "call", "assert") and hops < 8:
            cur = preds[0]
            chain.insert(0, cur)
            preds = [q for q in self.b.pred[cur]]
            hops += 1
        if len(preds) != 1:
            return None
        pt = self.b.blocks[preds[0]]["term"]
        if not (pt["k"] == "switch" and pt.get("dty") == "bool" and len(pt["values"]) == 1) or (pt["targets"][0] == cur and pt["otherwise"] == cur):
            return None
        first = self._resolve_bool(pt["discr"], preds[0], depth + 1)
        if first is None:
            return None
        truth1 = (pt["targets"][0] == cur and bool(pt["values"][0])) or (pt["otherwise"] == cur and not bool(pt["values"][0]))
        # the temporaries the second conjunct compares are computed in `chain` (straight-line code from single-def
        # inputs): they are recomputed when the conjunction is used, because the join with the `false` branch forgot them
        for cb in chain:
            for st_ in self.b.blocks[cb]["stmts"]:
                if st_["k"] == "assign":
                    kk = key_of(st_["p"])
                    if kk != k and (kk is None or self.defcount.get(base_local(kk), 0) > 1):
                        return None
        return ("conj", ((first, truth1), (second, True)), tuple(chain), True)

    def _resolve_def(self, d, bi, depth):
        dbi, dsi, r = d
        if r["k"] == "bin" and r["op"] in NEG:
            if not self._stable(bi, dbi, dsi, [r["a"], r["b"]]):
                return None
            return ("cmp", r["op"], r["a"], r["b"], r.get("aty"))
        if r["k"] == "un" and r["op"] == "Not":
            inner = self._resolve_bool(r["a"], dbi, depth + 1)
            if inner is None:
                return None
            if inner[0] == "cmp":
                return ("cmp", NEG[inner[1]]) + inner[2:]
            return (inner[0], inner[1], inner[2], not inner[3])
        if r["k"] == "use":
            return self._resolve_bool(r["o"], dbi, depth + 1)
        if r["k"] == "callret":
            from mirlib import callee_name
            t = r["t"]
            rc = self._range_contains(t)
            if rc is not None:
                if self.defcount.get(base_local(rc[0]), 0) > 1:
                    return None
                return ("inrange", rc, None, True)
            if not self._stable(bi, dbi, len(self.b.blocks[dbi]["stmts"]), t["args"]):
                return None
            return ("call", callee_name(t) or "", t["args"], True)
        return None

    def _stable(self, bi, dbi, dsi, operands):
        keys = []
        for x in operands:
            px = op_place(x)
            if px is not None:
                kx = key_of(px)
                if kx is None:
                    return False
                keys.append(kx)
        if dbi != bi:
            return all(self.defcount.get(base_local(kx), 0) <= 1 and self.defcount.get(kx, 0) <= 1 for kx in keys)
        for s2 in self.b.blocks[bi]["stmts"][dsi + 1:]:
            if s2["k"] == "assign":
                k2 = key_of(s2["p"])
                if k2 and any(_mentions(kx, k2) for kx in keys):
                    return False
        return True

    def predicate_of(self, st, name, args):
        """(op, a, b) in this function's terms when `name` is a local predicate summarised as `arg-linear a <op> b`"""
        summ = self.summaries.get(name) or {}
        if "bool" not in summ:
            return None
        op, la, lb = summ["bool"]

        def sub(l):
            out = lin_const(l[0])
            for sy, c in l[1]:
                islen = sy.startswith("len(")
                base = sy[4:-1] if islen else sy
                ai = int(base[1:]) - 1
                if ai >= len(args):
                    return None
                if islen:
                    ls = self._len_sym(args[ai])
                    x = lin_sym(ls) if ls else None
                else:
                    x = self.op_lin(st, args[ai])
                if x is None:
                    return None
                out = lin_add(out, lin_scale(x, c))
            return out
        a, b = sub(la), sub(lb)
        if a is None or b is None:
            return None
        return op, a, b

    def apply_cond(self, st, cond, truth):
        """Refine `st` with `cond` being `truth`.  Returns False when the edge is infeasible."""
        if cond is None:
            return True
        if cond[0] == "cmp":
            return self.refine_cmp(st, cond[1], cond[2], cond[3], cond[4], truth)
        if cond[0] == "conj":
            truth = truth if cond[3] else not truth
            if not truth:
                return True         # a false conjunction says nothing about either part
            (c1, t1), (c2, t2) = cond[1]
            if not self.apply_cond(st, c1, t1):
                return False
            for cb in cond[2] or ():
                self.block_transfer(cb, st)
                tt = self.b.blocks[cb]["term"]
                if tt["k"] == "call":
                    self._call_effect(st, tt)
            return self.apply_cond(st, c2, t2)
        if cond[0] == "inrange":
            (x, lo, hi), positive = cond[1], cond[3]
            truth = truth if positive else not truth
            cur = st.iv.get(x) or ty_range(self.place_ty(x))
            if cur is None:
                return True
            if truth:
                nlo, nhi = max(cur[0], lo), min(cur[1], hi)
                if nlo > nhi:
                    return False
                st.iv[x] = (nlo, nhi)
            else:
                if lo <= cur[0] and cur[1] <= hi:
                    return False
                if lo <= cur[0] <= hi:
                    st.iv[x] = (hi + 1, cur[1])
                elif lo <= cur[1] <= hi:
                    st.iv[x] = (cur[0], lo - 1)
            return True
        _, name, args, positive = cond
        truth = truth if positive else not truth
        pred = self.predicate_of(st, name, args)
        if pred is not None:
            op, la, lb = pred
            if not truth:
                op = NEG[op]
            new = {"Lt": [lin_add(lin_add(la, lin_const(1)), lb, -1)], "Le": [lin_add(la, lb, -1)],
                   "Gt": [lin_add(lin_add(lb, lin_const(1)), la, -1)], "Ge": [lin_add(lb, la, -1)],
                   "Eq": [lin_add(la, lb, -1), lin_add(lb, la, -1)]}.get(op, [])
            new = [g for g in new if g[1]]
            if new:
                st.facts = st.facts | frozenset(new)
            return True
        if name.endswith("::is_empty") and args:
            s = self._len_sym(args[0])
            if s:
                cur = st.iv.get(s, (0, ISIZE_MAX))
                new = (0, 0) if truth else (max(cur[0], 1), cur[1])
                lo, hi = max(cur[0], new[0]), min(cur[1], new[1])
                if lo > hi:
                    return False
                st.iv[s] = (lo, hi)
        elif name.endswith("::is_multiple_of") and len(args) == 2:
            m = self.op_iv(st, args[1])
            ln = self.op_lin(st, args[0])
            if truth and m and m[0] == m[1] and m[0] > 1 and ln is not None and ln[0] == 0 and len(ln[1]) == 1 and ln[1][0][1] == 1:
                s = ln[1][0][0]
                st.cong[s] = st.cong.get(s, 1) * m[0] // gcd(st.cong.get(s, 1), m[0])
            elif truth and ln is not None and ln[0] == 0 and len(ln[1]) == 1 and ln[1][0][1] == 1:
                lm = self.op_lin(st, args[1])
                if lm is not None and lm[0] == 0 and len(lm[1]) == 1 and lm[1][0][1] == 1:
                    st.rel = st.rel | frozenset([("mult", ln[1][0][0], lm[1][0][0])])
        return True

    def _len_sym(self, o):
        p = op_place(o)
        k = key_of(p) if p else None
        src = self._ref_source(k) if k else None
        if src and self.tracked(src):
            return "len(%s)" % src
        return None

    def refine_cmp(self, st, op, a, b, aty, truth):
        if not truth:
            op = NEG[op]
        ia = self.op_iv(st, a, aty) or ty_range(aty)
        ib = self.op_iv(st, b, aty) or ty_range(aty)
        if ia is None or ib is None:
            return True
        na, nb = ia, ib
        if op == "Lt":
            na, nb = (ia[0], min(ia[1], ib[1] - 1)), (max(ib[0], ia[0] + 1), ib[1])
        elif op == "Le":
            na, nb = (ia[0], min(ia[1], ib[1])), (max(ib[0], ia[0]), ib[1])
        elif op == "Gt":
            na, nb = (max(ia[0], ib[0] + 1), ia[1]), (ib[0], min(ib[1], ia[1] - 1))
        elif op == "Ge":
            na, nb = (max(ia[0], ib[0]), ia[1]), (ib[0], min(ib[1], ia[1]))
        elif op == "Eq":
            lo, hi = max(ia[0], ib[0]), min(ia[1], ib[1])
            na = nb = (lo, hi)
        elif op == "Ne":
            if ib[0] == ib[1]:
                if ia[0] == ia[1] == ib[0]:
                    return False
                if ia[0] == ib[0]:
                    na = (ia[0] + 1, ia[1])
                elif ia[1] == ib[0]:
                    na = (ia[0], ia[1] - 1)
            if ia[0] == ia[1]:
                if ib[0] == ia[0]:
                    nb = (ib[0] + 1, ib[1])
                elif ib[1] == ia[0]:
                    nb = (ib[0], ib[1] - 1)
        if na[0] > na[1] or nb[0] > nb[1]:
            return False
        if op in ("Ne", "Eq"):
            for x, ix, iy in ((a, ia, ib), (b, ib, ia)):
                if iy == (0, 0):
                    lx = self.op_lin(st, x)
                    if lx is not None and lx[0] == 0 and len(lx[1]) == 1 and lx[1][0][1] == 1:
                        nzk = "E:NZ(%s)" % lx[1][0][0]
                        if op == "Ne":
                            st.iv[nzk] = (1, 1)
                        elif nzk in st.iv:
                            return False
        self._set(st, a, na)
        self._set(st, b, nb)
        la, lb = self.op_lin(st, a), self.op_lin(st, b)
        if la is not None and lb is not None:
            new = []
            if op == "Lt":
                new = [lin_add(lin_add(la, lin_const(1)), lb, -1)]
            elif op == "Le":
                new = [lin_add(la, lb, -1)]
            elif op == "Gt":
                new = [lin_add(lin_add(lb, lin_const(1)), la, -1)]
            elif op == "Ge":
                new = [lin_add(lb, la, -1)]
            elif op == "Eq":
                new = [lin_add(la, lb, -1), lin_add(lb, la, -1)]
            new = [g for g in new if g[1]]
            if new:
                st.facts = st.facts | frozenset(new)
        return True

    def _set(self, st, o, n):
        p = op_place(o)
        if p is None:
            return
        k = key_of(p)
        if k is None:
            ln = self.op_lin(st, o)
            if ln is not None and ln[0] == 0 and len(ln[1]) == 1 and ln[1][0][1] == 1:
                st.iv[ln[1][0][0]] = n
            return
        if not self.tracked(k):
            return
        st.iv[k] = n
        ln = st.sym.get(k)
        # a place that equals `c*s + d`: refine the underlying symbol too
        if ln is not None and len(ln[1]) == 1:
            s, c = ln[1][0]
            d = ln[0]
            if c > 0 and (s.startswith("len(") or s.startswith("E:") or self.tracked(s)):
                old = self._sym_iv(st, s)
                lo = -((-(n[0] - d)) // c)
                hi = (n[1] - d) // c
                if old:
                    lo, hi = max(lo, old[0]), min(hi, old[1])
                if lo <= hi:
                    st.iv[s] = (lo, hi)

    # -------------------------------------------------------------- edges
    def edge_states(self, bi, st):
        """state after block `bi` -> {succ: state}; infeasible edges are omitted"""
        t = self.b.blocks[bi]["term"]
        k = t["k"]
        out = {}

        def put(tg, s):
            out[tg] = join(out[tg], s) if tg in out else s

        if k == "goto":
            put(t["target"], st)
        elif k == "switch":
            d = t["discr"]
            cond = self._resolve_bool(d, bi) if t["dty"] == "bool" else None
            div = self.op_iv(st, d, t["dty"])
            for v, tg in zip(t["values"], t["targets"]):
                if div and not (div[0] <= v <= div[1]):
                    continue
                s2 = st.copy()
                if cond is not None and not self.apply_cond(s2, cond, bool(v)):
                    continue
                self._set(s2, d, (v, v))
                self._set_discr(s2, d, (v, v))
                put(tg, s2)
            s3 = st.copy()
            feasible = True
            if cond is not None and len(t["values"]) == 1:
                feasible = self.apply_cond(s3, cond, not bool(t["values"][0]))
            if div and feasible:
                lo, hi = div
                vals = set(t["values"])
                mod = self.op_cong(st, d)
                if mod and mod > 1 and hi - lo <= 4096 and all(x in vals for x in range(lo + (-lo) % mod, hi + 1, mod)):
                    feasible = False        # every value the discriminant can take (interval and congruence) has its own edge
            if div and feasible:
                while lo in vals and lo <= hi:
                    lo += 1
                while hi in vals and hi >= lo:
                    hi -= 1
                if lo > hi:
                    feasible = False
                else:
                    self._set(s3, d, (lo, hi))
                    self._set_discr(s3, d, (lo, hi))
            if feasible:
                put(t["otherwise"], s3)
        elif k == "assert":
            s2 = st.copy()
            cond = self._resolve_bool(t["cond"], bi)
            if self.apply_cond(s2, cond, t["expected"]):
                put(t["target"], s2)
        elif k == "call":
            if t.get("target") is not None:
                s2 = st.copy()
                self._call_effect(s2, t)
                put(t["target"], s2)
        elif k == "drop":
            put(t["target"], st)
        return out

    def _set_discr(self, st, d, iv):
        """`_x = discriminant(_r); switch _x`: remember the discriminant of `_r` on each edge."""
        p = op_place(d)
        k = key_of(p) if p else None
        dd = self.single.get(k) if k else None
        if dd and dd[2]["k"] == "discr":
            rk = key_of(dd[2]["p"])
            if rk and self.tracked(rk) and self.defcount.get(k, 0) == 1:
                st.iv[rk + "#d"] = iv
                if iv == (0, 0) and rk in st.cond:
                    for kind, sym, val in st.cond[rk]:
                        if kind == "iv":
                            cur = self._sym_iv(st, sym)
                            lo, hi = (max(cur[0], val[0]), min(cur[1], val[1])) if cur else val
                            if lo <= hi:
                                st.iv[sym] = (lo, hi)
                        elif kind == "cong":
                            c0 = st.cong.get(sym, 1)
                            st.cong[sym] = c0 * val // gcd(c0, val)
                    # a multiple of m within [lo, hi] lies within [ceil(lo/m)*m, floor(hi/m)*m]
                    for kind, sym, val in st.cond[rk]:
                        m = st.cong.get(sym, 1)
                        cur = st.iv.get(sym)
                        if m > 1 and cur is not None:
                            lo, hi = -((-cur[0]) // m) * m, (cur[1] // m) * m
                            if lo <= hi:
                                st.iv[sym] = (lo, hi)

    def _call_effect(self, st, t):
        from mirlib import callee_name
        name = callee_name(t) or ""
        key = key_of(t["dest"])
        args = t["args"]
        # values needed from the pre-state
        arg_d = None
        arg_cond = None
        if name.endswith("::branch") and "Try" in name and args:
            ak = key_of(op_place(args[0])) if op_place(args[0]) else None
            if ak and self.tracked(ak):
                arg_d = st.iv.get(ak + "#d")
                arg_cond = st.cond.get(ak)
        range_next = None
        if re.search(r"iter::range::<impl core::iter::Iterator for core::ops::Range<A>>::next$|Iterator for core::ops::Range<A>>::next$", name) and args:
            pk = key_of(op_place(args[0])) if op_place(args[0]) else None
            it = self._pointee(pk) if pk else None
            if it:
                s_iv = st.iv.get(it + ".start") or ty_range(self.place_ty(it + ".start") or "usize")
                e_iv = st.iv.get(it + ".end") or ty_range(self.place_ty(it + ".end") or "usize")
                e_ln = st.sym.get(it + ".end")
                if e_ln is not None and any(_mentions(x, it) for x in lin_syms(e_ln)):
                    e_ln = None
                range_next = (s_iv, e_iv, e_ln, it)
        incl_next = None
        if re.search(r"Iterator for core::ops::RangeInclusive<A>>::next$|<core::iter::Rev<I> as core::iter::Iterator>::next$", name) and args:
            pk = key_of(op_place(args[0])) if op_place(args[0]) else None
            it = self._pointee(pk) if pk else None
            if it and "Rev<I>" in name:
                it = it + ".iter"
            if it:
                s_iv, e_iv = st.iv.get(it + ".start"), st.iv.get(it + ".end")
                if s_iv and e_iv:      # for a reversed half-open range [start, end] over-approximates [start, end)
                    incl_next = (s_iv, e_iv, it)
        incl_new = None
        if re.search(r"ops::RangeInclusive<Idx>::new$", name) and len(args) == 2:
            ia, ib = self.op_iv(st, args[0]), self.op_iv(st, args[1])
            if ia is not None and ib is not None:
                incl_new = (ia, ib)
        rev_of = None
        if re.search(r"iter::Iterator::rev$", name) and args and op_place(args[0]) is not None:
            sk = key_of(op_place(args[0]))
            if sk and self.tracked(sk):
                rev_of = [(k2[len(sk):], v) for k2, v in st.iv.items() if k2.startswith(sk + ".")]
        copy_fields = None
        if name.endswith("IntoIterator>::into_iter") and args and isinstance(args[0], dict) and "const" in args[0]:
            flds = CONST_FIELDS.get(norm_const_path(args[0]["const"].get("path")))
            if flds:
                copy_fields = ([("." + f, (v, v)) for f, v in flds.items() if isinstance(v, int)], [])
        if name.endswith("IntoIterator>::into_iter") and args and op_place(args[0]) is not None:
            sk = key_of(op_place(args[0]))
            if sk and self.tracked(sk):
                copy_fields = ([(k2[len(sk):], v) for k2, v in st.iv.items() if k2.startswith(sk + ".")],
                               [(k2[len(sk):], v) for k2, v in st.sym.items() if k2.startswith(sk + ".")])
        slice_len = None
        if re.search(r"::index(_mut)?$|::get_unchecked(_mut)?$", name) and len(args) == 2:
            rp = op_place(args[1])
            rk = key_of(rp) if rp is not None else None
            if rk:
                s_ln, e_ln = st.sym.get(rk + ".start"), st.sym.get(rk + ".end")
                s_iv, e_iv = st.iv.get(rk + ".start"), st.iv.get(rk + ".end")
                if s_ln is not None and e_ln is not None:
                    d = lin_add(e_ln, s_ln, -1)
                    if not d[1]:
                        slice_len = (d[0], d[0])
                if slice_len is None and s_iv and e_iv and s_iv[0] == s_iv[1] and e_iv[0] == e_iv[1]:
                    slice_len = (e_iv[0] - s_iv[0], e_iv[0] - s_iv[0])
        minmax = None
        mm = re.search(r"(?:cmp::Ord::|core::cmp::)(min|max)$|::(saturating_sub)$", name)
        if mm and len(args) == 2:
            ia, ib = self.op_iv(st, args[0]), self.op_iv(st, args[1])
            if ia is not None and ib is not None:
                if mm.group(1) == "min":
                    minmax = (min(ia[0], ib[0]), min(ia[1], ib[1]))
                elif mm.group(1) == "max":
                    minmax = (max(ia[0], ib[0]), max(ia[1], ib[1]))
                elif ia[0] >= 0 and ib[0] >= 0:
                    minmax = (max(0, ia[0] - ib[1]), ia[1])
        checked = None
        mc = re.search(r"num::<impl (u8|u16|u32|u64|u128|usize)>::checked_(add|mul)$", name)
        if mc and len(args) == 2:
            ia, ib = self.op_iv(st, args[0]), self.op_iv(st, args[1])
            tr = ty_range(mc.group(1))
            if ia is not None and ib is not None and tr and ia[0] >= 0 and ib[0] >= 0:
                lo = ia[0] + ib[0] if mc.group(2) == "add" else ia[0] * ib[0]
                hi = ia[1] + ib[1] if mc.group(2) == "add" else ia[1] * ib[1]
                if lo <= tr[1]:
                    checked = (lo, min(hi, tr[1]))     # the payload of Some: no wrap happened
        tryfrom = None
        mt = re.search(r"TryFrom<([iu](?:8|16|32|64|128|size))> for ([iu](?:8|16|32|64|128|size))>::try_from$", name)
        if mt and len(args) == 1:
            ia = self.op_iv(st, args[0], mt.group(1))
            tr = ty_range(mt.group(2))
            if ia is not None and tr:
                fits = tr[0] <= ia[0] and ia[1] <= tr[1]
                lo, hi = max(ia[0], tr[0]), min(ia[1], tr[1])
                tryfrom = ((0, 0) if fits else ((1, 1) if lo > hi else (0, 1)), (lo, hi) if lo <= hi else None)
        widen = None
        mf = re.search(r"convert::From<(bool|[iu](?:8|16|32|64|128|size))> for ([iu](?:8|16|32|64|128|size))>::from$", name)
        if mf and len(args) == 1:
            ia = self.op_iv(st, args[0], mf.group(1) if mf.group(1) != "bool" else "u8")
            if mf.group(1) == "bool":
                ia = (max(0, ia[0]), min(1, ia[1])) if ia else (0, 1)
            tr = ty_range(mf.group(2))
            if ia is not None and tr and tr[0] <= ia[0] and ia[1] <= tr[1]:
                widen = ia                # a lossless conversion keeps the value
        is_variant = None
        mv = re.search(r"(result::Result<T, E>::(is_ok|is_err)|option::Option<T>::(is_some|is_none))$", name)
        if mv and args and op_place(args[0]) is not None:
            ak = key_of(op_place(args[0]))
            src = self._pointee(ak) if ak else None
            d0 = st.iv.get((src or ak or "") + "#d") if (src or ak) else None
            if d0 is not None and d0[0] == d0[1]:
                meth = name.rsplit("::", 1)[1]
                first = d0 == (0, 0)            # Ok / None are variant 0
                truth = first if meth in ("is_ok", "is_none") else not first
                is_variant = (1, 1) if truth else (0, 0)
        keep_d = None
        if re.search(r"result::Result<T, E>::(map_err|map|or_else|and_then)$", name) and args and op_place(args[0]) is not None:
            ak = key_of(op_place(args[0]))
            if ak and self.tracked(ak):
                d0 = st.iv.get(ak + "#d")
                meth = name.rsplit("::", 1)[1]
                if d0 is not None and (meth in ("map_err", "map") or (meth == "or_else" and d0 == (0, 0)) or (meth == "and_then" and d0 == (1, 1))):
                    keep_d = (d0, st.iv.get(ak + ".@Ok.0") if meth in ("map_err", "or_else") else None)
        new_cond = None
        summ = self.summaries.get(name)
        if summ and summ.get("ok"):
            out = []
            for kind, sym, val in summ["ok"]:
                if kind == "mult":
                    # Ok implies `argument a is a multiple of argument b`: a congruence of a when b is a known constant
                    ma, mb = re.match(r"^_(\d+)$", sym), re.match(r"^_(\d+)$", val)
                    if ma and mb and int(ma.group(1)) <= len(args) and int(mb.group(1)) <= len(args):
                        la = self.op_lin(st, args[int(ma.group(1)) - 1])
                        bv = self.op_iv(st, args[int(mb.group(1)) - 1])
                        if la is not None and la[0] == 0 and len(la[1]) == 1 and la[1][0][1] == 1 and bv and bv[0] == bv[1] and bv[0] > 1:
                            out.append(("cong", la[1][0][0], bv[0]))
                    continue
                m = re.match(r"^(len\()?_(\d+)\)?$", sym)
                if not m:
                    continue
                ai = int(m.group(2)) - 1
                if ai >= len(args):
                    continue
                if m.group(1):
                    cs = self._len_sym(args[ai])
                else:
                    la = self.op_lin(st, args[ai])
                    cs = la[1][0][0] if (la is not None and la[0] == 0 and len(la[1]) == 1 and la[1][0][1] == 1) else None
                if cs:
                    out.append((kind, cs, val))
            if out:
                new_cond = tuple(sorted(out))
        for a in args:
            p = op_place(a)
            if p is not None:
                b = "_%d" % p["l"]
                for x, cs in self.carriers.items():
                    if b in cs:
                        st.kill(x)
        if key:
            st.kill(key)
        if key and slice_len is not None and slice_len[0] >= 0:
            st.iv["len(%s)" % key] = slice_len     # `&s[a..b]` that returned has b - a elements
        if not key or not self.tracked(key):
            return
        dty = self.tys.get(key)
        if re.search(r"slice::<impl \[T\]>::chunks_exact(_mut)?$", name) and len(args) == 2:
            civ = self.op_iv(st, args[1], "usize")
            if civ:
                st.iv[key + ".chunk"] = civ           # every piece the iterator yields has this many elements
            return
        if re.search(r"slice::ChunksExact(Mut)?<'a, T> as core::iter::(Iterator|DoubleEndedIterator)>::(last|next|next_back|nth)$", name) and args:
            ap = op_place(args[0])
            ak = key_of(ap) if ap else None
            ak = (self._ref_source(ak) or ak) if ak else None
            civ = st.iv.get(ak + ".chunk") if ak else None
            if civ:
                st.iv["len(%s.@Some.0)" % key] = civ
            return
        if range_next is not None:
            s_iv, e_iv, e_ln, it = range_next
            pay = key + ".@Some.0"
            if s_iv and e_iv and s_iv[0] <= e_iv[1] - 1:
                st.iv[pay] = (s_iv[0], e_iv[1] - 1)
            if e_ln is not None:
                st.facts = st.facts | frozenset([lin_add(lin_add(lin_sym(pay), lin_const(1)), e_ln, -1)])
            # the iterator keeps its end; its start only grows
            if e_iv:
                st.iv[it + ".end"] = e_iv
            if e_ln is not None:
                st.sym[it + ".end"] = e_ln
            if s_iv and e_iv:
                st.iv[it + ".start"] = (s_iv[0], max(e_iv[1], s_iv[1]))
            return
        if is_variant is not None:
            st.iv[key] = is_variant
            return
        if widen is not None:
            st.iv[key] = widen
            return
        if tryfrom is not None:
            st.iv[key + "#d"] = tryfrom[0]
            if tryfrom[1] is not None:
                st.iv[key + ".@Ok.0"] = tryfrom[1]
            return
        if keep_d is not None:
            st.iv[key + "#d"] = keep_d[0]
            if keep_d[1] is not None:
                st.iv[key + ".@Ok.0"] = keep_d[1]
            return
        if checked is not None:
            st.iv[key + ".@Some.0"] = checked
            return
        if incl_new is not None:
            st.iv[key + ".start"], st.iv[key + ".end"], st.iv[key + ".exhausted"] = incl_new[0], incl_new[1], (0, 0)
            return
        if rev_of is not None:
            for suf, v in rev_of:
                st.iv[key + ".iter" + suf] = v
            return
        if incl_next is not None:
            s_iv, e_iv, it = incl_next
            if s_iv[0] <= e_iv[1]:
                st.iv[key + ".@Some.0"] = (s_iv[0], e_iv[1])
            # the iterator only moves its start upwards and keeps its end
            st.iv[it + ".end"] = e_iv
            st.iv[it + ".start"] = (s_iv[0], max(e_iv[1], s_iv[1]))
            return
        if copy_fields is not None:
            for suf, v in copy_fields[0]:
                st.iv[key + suf] = v
            for suf, v in copy_fields[1]:
                if not any(_mentions(x, key) for x in lin_syms(v)):
                    st.sym[key + suf] = v
            return
        rc = self._range_contains(t)
        if minmax is not None:
            st.iv[key] = minmax
        elif rc is not None:
            cur = st.iv.get(rc[0]) or ty_range(self.place_ty(rc[0]))
            if cur and rc[1] <= cur[0] and cur[1] <= rc[2]:
                st.iv[key] = (1, 1)
            elif cur and (cur[1] < rc[1] or cur[0] > rc[2]):
                st.iv[key] = (0, 0)
            else:
                st.iv[key] = (0, 1)
        elif re.search(r"core::mem::(align_of|size_of)$", name) and not args:
            g = (t.get("callee") or {}).get("generics") or []
            w = BITS.get(g[0]) if g else None
            if w:
                st.iv[key] = (w // 8, w // 8)
                st.sym[key] = lin_const(w // 8)
            else:
                st.iv[key] = (1, ISIZE_MAX)
        elif name.endswith("::len") and args:
            s = self._len_sym(args[0])
            if s:
                st.iv[key] = st.iv.get(s, (0, ISIZE_MAX))
                st.sym[key] = lin_sym(s)
            else:
                st.iv[key] = (0, ISIZE_MAX)
        elif name.endswith("::from_residual") and "FromResidual" in name and "Result<" in (dty or ""):
            st.iv[key + "#d"] = (1, 1)  # Result::from_residual always builds Err
        elif name.endswith("::branch") and "Try" in name:
            if arg_d is not None:
                st.iv[key + "#d"] = arg_d  # Ok -> Continue (0), Err -> Break (1); Some/None likewise
            if arg_cond is not None:
                st.cond[key] = arg_cond
        elif summ is not None:
            ret = summ.get("ret", {})
            cb = getattr(self, "ctx_summary", None)
            if cb is not None and ret.get("#d") not in ((0, 0), (1, 1)):
                # the callee's result variant is not known in general: analyse it once more for the values of this call
                # (arguments whose interval is a single value - typically a flag or a constant)
                ent = {}
                for i_, a_ in enumerate(args):
                    iv_ = self.op_iv(st, a_)
                    if iv_ is not None and iv_[0] == iv_[1]:
                        ent["_%d" % (i_ + 1)] = iv_
                if ent:
                    s2 = cb(name, ent)
                    if s2 is not None:
                        ret = s2.get("ret", ret)
            for suf, iv in ret.items():
                st.iv[key + suf] = iv
            if new_cond:
                st.cond[key] = new_cond
        elif ty_range(dty):
            st.iv[key] = ty_range(dty)

    def _pointee(self, k, depth=0):
        """`_10 = &(*_11); _11 = &_2`  ->  '_2' (the place a shared-reference temporary points to)"""
        d = self.single.get(k)
        if not d or depth > 6:
            return None
        r = d[2]
        if r["k"] == "ref":
            pk = key_of({"l": r["p"]["l"], "p": [e for e in r["p"]["p"] if e != "deref"]})
            if "deref" in r["p"]["p"]:
                if r["p"]["p"][0] == "deref":
                    base = "_%d" % r["p"]["l"]
                    inner = self._pointee(base, depth + 1)
                    if inner is None:
                        return None
                    rest = [e for e in r["p"]["p"][1:]]
                    if all(isinstance(e, dict) and "f" in e for e in rest):
                        return inner + "".join("." + e["f"] for e in rest)
                return None
            return pk
        if r["k"] == "use" and op_place(r["o"]) is not None and key_of(op_place(r["o"])):
            return self._pointee(key_of(op_place(r["o"])), depth + 1)
        return None

    def _const_range(self, k, depth=0):
        """constant `&Range<int>` / `&RangeInclusive<int>` operand -> (lo, hi inclusive)"""
        d = self.single.get(k)
        if not d or depth > 6:
            return None
        r = d[2]
        if r["k"] == "ref" and r["p"]["p"] == ["deref"]:
            return self._const_range("_%d" % r["p"]["l"], depth + 1)
        if r["k"] == "use":
            c = r["o"].get("const")
            if c and "pbytes" in c:
                m = re.match(r"^(?:core|std)::ops::(Range|RangeInclusive)<([iu](?:8|16|32|64|128|size))>$", c["pty"])
                if not m:
                    return None
                w = BITS[m.group(2)] // 8
                raw = bytes.fromhex(c["pbytes"])
                if len(raw) < 2 * w:
                    return None
                signed = m.group(2).startswith("i")
                lo = int.from_bytes(raw[0:w], "little", signed=signed)
                hi = int.from_bytes(raw[w:2 * w], "little", signed=signed)
                return (lo, hi if m.group(1) == "RangeInclusive" else hi - 1)
            if op_place(r["o"]) is not None and key_of(op_place(r["o"])):
                return self._const_range(key_of(op_place(r["o"])), depth + 1)
        return None

    def _range_contains(self, t):
        """(x place key, lo, hi) for a call `Range::contains(&range, &x)` with a constant range"""
        from mirlib import callee_name
        name = callee_name(t) or ""
        if not re.search(r"ops::Range(Inclusive)?<Idx>::contains$", name) or len(t["args"]) != 2:
            return None
        rk = key_of(op_place(t["args"][0])) if op_place(t["args"][0]) else None
        xk = key_of(op_place(t["args"][1])) if op_place(t["args"][1]) else None
        if not rk or not xk:
            return None
        rng = self._const_range(rk)
        x = self._pointee(xk)
        if rng is None or x is None or not self.tracked(x):
            return None
        return (x, rng[0], rng[1])

    def _ref_source(self, k):
        """`_11 = &(*_1)` -> `_1` (reborrows / copies of a reference local), following single defs."""
        n = 0
        while k and n < 8:
            n += 1
            d = self.single.get(k)
            if not d:
                return k
            r = d[2]
            if r["k"] == "ref" and r["p"]["p"] == ["deref"]:
                k = "_%d" % r["p"]["l"]
            elif r["k"] == "use" and op_place(r["o"]) is not None and key_of(op_place(r["o"])):
                k = key_of(op_place(r["o"]))
            elif r["k"] == "cast" and r["ck"].startswith("PointerCoercion") and op_place(r["o"]) is not None:
                return k
            else:
                return k
        return k

    # -------------------------------------------------------------- fixpoint
    def run(self):
        b = self.b
        entry = State()
        for k, v in self.entry_iv.items():
            entry.iv[k] = v
        for k, v in self.entry_cong.items():
            entry.cong[k] = v
        self.inn = {0: entry}
        visits = {}
        rpo_index = {blk: i for i, blk in enumerate(b.rpo())}
        heap = [(0, 0)]
        inq = {0}
        while heap:
            _, bi = heapq.heappop(heap)
            inq.discard(bi)
            st = self.inn[bi].copy()
            self.block_transfer(bi, st)
            for succ, s2 in self.edge_states(bi, st).items():
                if succ is None:
                    continue
                old = self.inn.get(succ)
                if old is None:
                    new = s2
                else:
                    new = join(old, s2)
                    visits[succ] = visits.get(succ, 0) + 1
                    back = rpo_index.get(succ, 0) <= rpo_index.get(bi, 0)
                    if (back and visits[succ] > 3) or visits[succ] > 400:
                        for k in list(new.iv):
                            if k in old.iv and new.iv[k] != old.iv[k]:
                                rng = ty_range(self.place_ty(k.split("#")[0])) if "#" not in k else None
                                o, n = old.iv[k], new.iv[k]
                                lo = o[0] if n[0] >= o[0] else self._thr_down(n[0], rng)
                                hi = o[1] if n[1] <= o[1] else self._thr_up(n[1], rng)
                                if lo is None or hi is None:
                                    del new.iv[k]
                                else:
                                    new.iv[k] = (lo, hi)
                    if same(old, new):
                        continue
                self.inn[succ] = new
                if succ not in inq:
                    inq.add(succ)
                    heapq.heappush(heap, (rpo_index.get(succ, 1 << 30), succ))
        # narrowing sweeps (no widening)
        for _ in range(2):
            for bi in b.rpo():
                if bi == 0 or bi not in self.inn:
                    continue
                acc = None
                for p in b.pred[bi]:
                    if p in self.inn:
                        stp = self.inn[p].copy()
                        self.block_transfer(p, stp)
                        es = self.edge_states(p, stp)
                        if bi in es:
                            acc = es[bi] if acc is None else join(acc, es[bi])
                if acc is None:
                    continue
                old = self.inn[bi]
                iv = {}
                for k in acc.iv:
                    if k in old.iv:
                        lo, hi = max(acc.iv[k][0], old.iv[k][0]), min(acc.iv[k][1], old.iv[k][1])
                        iv[k] = (lo, hi) if lo <= hi else acc.iv[k]
                    else:
                        iv[k] = acc.iv[k]
                self.inn[bi] = State(iv, acc.facts, acc.sym, acc.cong, acc.cond, acc.rel)
        return self

    def _thr_up(self, v, rng):
        for t in self.thresholds:
            if t >= v and (rng is None or t <= rng[1]):
                return t
        return rng[1] if rng else None

    def _thr_down(self, v, rng):
        for t in reversed(self.thresholds):
            if t <= v and (rng is None or t >= rng[0]):
                return t
        return rng[0] if rng else None

    def state_at_term(self, bi):
        if bi not in self.inn:
            return None
        st = self.inn[bi].copy()
        self.block_transfer(bi, st)
        return st

    def return_summary(self):
        """{'ret': join of `_0`, `_0.*`, `_0#d` intervals over all return blocks,
            'ok': facts about never-assigned arguments that hold whenever `_0` is variant 0 (Ok):
                  collected where `_0` is assigned variant 0; unsound cases (an assignment of `_0`
                  whose variant is unknown) yield no facts}"""
        acc = None
        for bi, blk in enumerate(self.b.blocks):
            if blk["term"]["k"] == "return" and bi in self.inn:
                st = self.state_at_term(bi)
                cur = {k[2:]: v for k, v in st.iv.items() if k == "_0" or k.startswith("_0.") or k.startswith("_0#")}
                if acc is None:
                    acc = cur
                else:
                    acc = {k: (min(v[0], cur[k][0]), max(v[1], cur[k][1])) for k, v in acc.items() if k in cur}
        args = ["_%d" % i for i in range(1, self.b.argc + 1) if self.defcount.get("_%d" % i, 0) == 0]
        ok = None
        sound = True

        def collect(st):
            facts = set()
            for a in args:
                for sym in (a, "len(%s)" % a):
                    if sym in st.iv:
                        facts.add(("iv", sym, st.iv[sym]))
                    if st.cong.get(sym, 1) > 1:
                        facts.add(("cong", sym, st.cong[sym]))
            for r in st.rel:
                if r[1] in args and r[2] in args:
                    facts.add(r)
            return facts

        def merge(ok, facts):
            if ok is None:
                return facts
            merged = set()
            for f in ok:
                for g in facts:
                    if f[0] == "mult":
                        if f == g:
                            merged.add(f)
                    elif f[0] == g[0] and f[1] == g[1]:
                        if f[0] == "iv":
                            merged.add(("iv", f[1], (min(f[2][0], g[2][0]), max(f[2][1], g[2][1]))))
                        elif gcd(f[2], g[2]) > 1:
                            merged.add(("cong", f[1], gcd(f[2], g[2])))
            return merged

        for bi, blk in enumerate(self.b.blocks):
            if bi not in self.inn:
                continue
            for si, stmt in enumerate(blk["stmts"]):
                if stmt["k"] == "assign" and key_of(stmt["p"]) == "_0":
                    r = stmt["r"]
                    st = self.inn[bi].copy()
                    self.block_transfer(bi, st, upto=si)
                    if r["k"] == "agg" and r.get("is_enum"):
                        if r["vidx"] == 0:
                            ok = merge(ok, collect(st))
                    else:
                        self.assign(st, stmt["p"], r)
                        d = st.iv.get("_0#d")
                        if d == (0, 0):
                            ok = merge(ok, collect(st))
                        elif d is None or d[0] <= 0:
                            sound = False
            t = blk["term"]
            if t["k"] == "call" and key_of(t["dest"]) == "_0" and t.get("target") is not None:
                st = self.state_at_term(bi)
                self._call_effect(st, t)
                d = st.iv.get("_0#d")
                if d == (0, 0):
                    ok = merge(ok, collect(st))
                elif d is None or d[0] <= 0:
                    sound = False
        out = {"ret": acc or {}, "ok": sorted(ok) if (ok and sound) else []}
        # a predicate: the function returns exactly `a <op> b` with a, b linear in its (never assigned) arguments
        d0 = self.single.get("_0")
        if d0 and d0[2].get("k") == "bin" and d0[2].get("op") in NEG and d0[0] in self.inn:
            st0 = self.inn[d0[0]].copy()
            self.block_transfer(d0[0], st0, upto=d0[1])
            la, lb = self.op_lin(st0, d0[2]["a"]), self.op_lin(st0, d0[2]["b"])

            def over_args(l):
                for sy, _c in l[1]:
                    base = sy[4:-1] if sy.startswith("len(") else sy
                    if base not in args:
                        return False
                return True
            if la is not None and lb is not None and over_args(la) and over_args(lb):
                out["bool"] = (d0[2]["op"], la, lb)
        return out

    # -------------------------------------------------------------- proofs
    def _sym_iv(self, st, s):
        if s in st.iv:
            return st.iv[s]
        if s.startswith("len("):
            return (0, ISIZE_MAX)
        if s.startswith("E:"):
            m = re.match(r"E:\w+<([a-z0-9]+)>", s)
            if m:
                return ty_range(m.group(1))
            m = re.match(r"E:elem\((_\d+),", s)
            if m:
                t = self.tys.get(m.group(1), "")
                m2 = re.match(r"^\[(.*); *[^;\]]+\]$", t)
                return ty_range(m2.group(1)) if m2 else None
            return None
        return ty_range(self.place_ty(s))

    def upper(self, st, lin, depth=0):
        """best provable upper bound of a linear form (None = unknown)"""
        best = None
        b = self._lin_iv(st, lin)
        if b is not None:
            best = b[1]
        if depth < 3 and lin[1]:
            mine = lin_syms(lin)
            for g in self._tight_facts(st):
                gs = lin_syms(g)
                if not (gs & mine):
                    continue
                # try lin - k*g for the k that cancels a shared symbol (k > 0 since g <= 0)
                gd = dict(g[1])
                for s, c in lin[1]:
                    if s in gd and (c > 0) == (gd[s] > 0) and c % gd[s] == 0:
                        kk = c // gd[s]
                        cand = lin_add(lin, lin_scale(g, kk), -1)
                        if len(cand[1]) <= len(lin[1]):
                            u = self.upper(st, cand, depth + 1)
                            if u is not None and (best is None or u < best):
                                best = u
            # single symbol with a positive coefficient: solve a fact for it
            if len(lin[1]) == 1 and lin[1][0][1] > 0:
                s, c = lin[1][0]
                for g in self._tight_facts(st):
                    gd = dict(g[1])
                    if gd.get(s, 0) > 0:
                        rest = lin_add(g, lin_scale(lin_sym(s), gd[s]), -1)  # g = k*s + rest <= 0
                        lo_rest = self.upper(st, lin_scale(rest, -1), depth + 1)  # upper(-rest)
                        if lo_rest is not None:
                            u = lin[0] + c * (lo_rest // gd[s])
                            if best is None or u < best:
                                best = u
            if len(lin[1]) == 1 and lin[1][0][1] < 0:
                s, c = lin[1][0]
                for g in self._tight_facts(st):
                    gd = dict(g[1])
                    if gd.get(s, 0) < 0:
                        k = -gd[s]
                        rest = lin_add(g, lin_scale(lin_sym(s), gd[s]), -1)  # g = -k*s + rest <= 0  =>  s >= rest/k
                        up_neg = self.upper(st, lin_scale(rest, -1), depth + 1)
                        if up_neg is not None:
                            lo_rest = -up_neg
                            lo_s = -((-lo_rest) // k)  # ceil
                            u = lin[0] + c * lo_s
                            if best is None or u < best:
                                best = u
        return best

    def _tight_facts(self, st):
        """facts G <= 0 with the constant tightened using congruences: if every variable term is a
        multiple of m then  sum <= -c0  implies  sum <= floor(-c0/m)*m."""
        out = []
        for g in st.facts:
            m = 0
            for s, c in g[1]:
                m = gcd(m, abs(c) * st.cong.get(s, 1))
            if m > 1:
                bound = (-g[0]) // m * m
                g = (-bound, g[1])
            out.append(g)
        return out

    def proves_le(self, st, l1, l2):
        u = self.upper(st, lin_add(l1, l2, -1))
        return u is not None and u <= 0
