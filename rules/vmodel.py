"""Extraction of the default verifier's accept conditions (shared by C05, C06, C12) and the
reference rule table of property C06, both as canonical terms."""
import isa
import models
import symex
import terms as T

PC = ("v", "pc", 64)
LEN = ("call", "len", (("obj", "PROG", "&[u8]"),), 64)
NINSN = T.op("udiv", 64, LEN, T.K(64, 8))


def sym(name, w):
    return ("v", name, w)


def insn_at(idx, f, w):
    return ("v", ("insn", idx, f), w)


def simplify_atoms(atoms):
    """conjunction clean-up: drop `x != K1` when the set has `x == K2`, K1 != K2; split `land`"""
    out = set()
    for a in atoms:
        stack = [a]
        while stack:
            x = stack.pop()
            if isinstance(x, tuple) and x and x[0] == "land":
                stack.extend([x[1], x[2]])
            elif x != T.TRUE:
                out.add(x)
    eqs = {}
    for a in out:
        if a[0] == "cmp" and a[1] == "eq":
            for p, q in ((a[3], a[4]), (a[4], a[3])):
                if T.is_k(p):
                    eqs[q] = p[2]
    res = set()
    for a in out:
        if a[0] == "cmp" and a[1] == "ne":
            red = False
            for p, q in ((a[3], a[4]), (a[4], a[3])):
                if T.is_k(p) and q in eqs and eqs[q] != p[2]:
                    red = True
            if red:
                continue
        res.add(a)
    # a multiple of c that is at least c is a multiple of c that is not 0: `c <= x` is written `x != 0` when the set
    # has `x % c == 0` (the same set of values, one spelling)
    mults = {}
    for a in res:
        if a[0] == "cmp" and a[1] == "eq":
            for p, q in ((a[3], a[4]), (a[4], a[3])):
                if p == T.K(a[2], 0) and isinstance(q, tuple) and q[0] == "op" and q[1] == "urem" and T.is_k(q[4]):
                    mults[q[3]] = q[4][2]
    res2 = set()
    for a in res:
        if a[0] == "cmp" and a[1] == "ule" and T.is_k(a[3]) and mults.get(a[4]) == a[3][2]:
            a = T.cmp("ne", a[2], a[4], T.K(a[2], 0))
        res2.add(a)
    # `x % c != 0` already says `x != 0`
    nonmult = set()
    for a in res2:
        if a[0] == "cmp" and a[1] == "ne":
            for p, q in ((a[3], a[4]), (a[4], a[3])):
                if p == T.K(a[2], 0) and isinstance(q, tuple) and q[0] == "op" and q[1] == "urem" and T.is_k(q[4]):
                    nonmult.add(q[3])
    res2 = {a for a in res2 if not (a[0] == "cmp" and a[1] == "ne" and ((a[3] in nonmult and a[4] == T.K(a[2], 0)) or (a[4] in nonmult and a[3] == T.K(a[2], 0))))}
    return frozenset(res2)


class VerifierModel:
    def __init__(self, cx):
        self.cx = cx
        self.fn = cx.roles.verifier()
        self.ok = self.fn is not None
        if not self.ok:
            return
        F = cx.F
        self.lm = models.LoopModel(F, self.fn)
        self.pcname, self.pcid = models.loop_counter_name(F, self.fn)
        self.extra = {}
        # the program parameter: the verifier has exactly one parameter
        th = F.fns[self.fn]["thir"]
        p0 = th["params"][0]["pat"] if th["params"] else None
        if p0 and p0["k"] == "bind":
            self.extra[p0["name"]] = "PROG"
        self._per = {}

    def canon(self, t):
        return models.canon(t, self.pcname, self.extra)

    def per_opcode(self, v):
        """-> dict(accept=[(atoms, pc_next)], reject=[atoms], unrec=[...], panics=[...])"""
        if v in self._per:
            return self._per[v]
        acc, rej, unrec, loops = [], [], [], 0
        for _val, s in self.lm.run(v):
            atoms = simplify_atoms(self.canon(c) for c in s.conds)
            if s.unrec:
                unrec.extend(s.unrec)
            if s.exit is not None:
                if s.exit[0] == "ret":
                    r = s.exit[1]
                    if isinstance(r, tuple) and r and r[0] == "struct" and r[2] == "Err":
                        rej.append(atoms)
                        continue
                if s.exit[0] != "continue":     # `continue` ends the iteration like falling off the body
                    unrec.append("unexpected exit %r" % (s.exit[0],))
                    continue
            pcv = s.env.get((self.lm.ev.owner_of(self.fn), self.pcid))
            acc.append((atoms, self.canon(pcv) if pcv is not None else None))
        r = {"accept": acc, "reject": rej, "unrec": unrec}
        self._per[v] = r
        return r

    def prelude(self):
        """whole-function evaluation (the loop is summarised): -> (accept atoms, reject list, unrec)"""
        ev = symex.Evaluator(self.cx.F)
        outs = ev.run_fn(self.fn, [("obj", "PROG", "&[u8]")])
        acc, rej, unrec = [], [], []
        for v, s in outs or []:
            atoms = simplify_atoms(self.canon(c) for c in s.conds)
            unrec.extend(s.unrec)
            if isinstance(v, tuple) and v and v[0] == "struct" and v[2] == "Err":
                rej.append(atoms)
            elif isinstance(v, tuple) and v and v[0] == "struct" and v[2] == "Ok":
                acc.append(atoms)
            else:
                unrec.append("unexpected result %r" % (v,))
        return acc, rej, unrec


def pre_loop_atoms(vm):
    """conditions established on the (single) non-rejecting path through the statements that precede
    the per-instruction loop of the verifier: -> (set of atoms, problems)"""
    from facts import walk, strip
    F = vm.cx.F
    fn = F.fns[vm.fn]
    body = strip(fn["thir"]["body"])
    if body.get("k") != "block":
        return set(), ["verifier body is not a block"]
    loop_node = vm.lm.block
    ev = symex.Evaluator(F)
    owner = ev.owner_of(vm.fn)
    st = symex.St()
    for q in fn["thir"]["params"]:
        if q["pat"] and q["pat"].get("k") == "bind":
            st = st.set((owner, q["pat"]["id"]), ("obj", "PROG", q["ty"]))
    states = [st]
    for stmt in body["stmts"]:
        inner = stmt.get("e") if stmt["k"] == "expr" else stmt.get("init")
        if inner is not None and any(x is loop_node for x in walk(inner)):
            break
        fake = {"k": "block", "stmts": [stmt], "tail": None, "ty": "()"}
        nxt = []
        for s0 in states:
            for _v, s2 in ev.ev(fake, s0, vm.fn):
                if s2.exit is None and s2.feasible:
                    nxt.append(s2)
        states = nxt
    else:
        return set(), ["the per-instruction loop is not a statement of the verifier's top-level block"]
    if len(states) != 1:
        return set(), ["%d continuing paths before the loop" % len(states)]
    atoms = set(simplify_atoms(vm.canon(c) for c in states[0].conds))
    return atoms, list(states[0].unrec)


# ---------------------------------------------------------------- reference (the C06 statement)
def target(field, w):
    return T.op("add", 64, T.op("add", 64, PC, T.K(64, 1)), T.sext(64, sym(field, w)))


def target_atoms(tgt):
    return [T.land(T.cmp("sle", 64, T.K(64, 0), tgt), T.cmp("ult", 64, tgt, NINSN)),
            T.cmp("ne", 8, insn_at(tgt, "opc", 8), T.K(8, 0))]


def reference_paths(v):
    """accepting paths the statement prescribes for opcode v: list of (atoms, next pc)"""
    d = isa.TABLE.get(v)
    if d is None or d["kind"] == "tail_call":
        return []
    src_ok = T.cmp("ule", 8, sym("src", 8), T.K(8, 10))
    if isa.is_store(d):
        dst_ok = T.lor(T.cmp("ule", 8, sym("dst", 8), T.K(8, 9)), T.cmp("eq", 8, sym("dst", 8), T.K(8, 10)))
    else:
        dst_ok = T.cmp("ule", 8, sym("dst", 8), T.K(8, 9))
    base = [src_ok, dst_ok]
    nxt = T.op("add", 64, PC, T.K(64, 1))
    k = d["kind"]
    if k == "lddw":
        return [(simplify_atoms(base + [T.cmp("eq", 8, sym("next.opc", 8), T.K(8, 0))]), T.op("add", 64, PC, T.K(64, 2)))]
    if k in ("ja", "jcond"):
        return [(simplify_atoms(base + [T.cmp("ne", 16, sym("off", 16), T.K(16, -1))] + target_atoms(target("off", 16))), nxt)]
    if k == "end":
        i = sym("imm", 32)
        widths = T.lor(T.lor(T.cmp("eq", 32, i, T.K(32, 16)), T.cmp("eq", 32, i, T.K(32, 32))), T.cmp("eq", 32, i, T.K(32, 64)))
        return [(simplify_atoms(base + [widths]), nxt)]
    if k == "xadd":
        return [(simplify_atoms(base + [T.cmp("eq", 32, sym("imm", 32), T.K(32, 0))]), nxt)]
    if k == "call":
        s = sym("src", 8)
        return [(simplify_atoms(base + [T.cmp("eq", 8, s, T.K(8, 0))]), nxt),
                (simplify_atoms(base + [T.cmp("eq", 8, s, T.K(8, 1))] + target_atoms(target("imm", 32))), nxt)]
    return [(simplify_atoms(base), nxt)]


def reference_prelude(max_size, exit_opc, ja_opc):
    last = insn_at(T.op("add", 64, NINSN, T.K(64, -1)), "opc", 8)
    return simplify_atoms([
        T.cmp("eq", 64, T.op("urem", 64, LEN, T.K(64, 8)), T.K(64, 0)),
        T.cmp("ule", 64, LEN, T.K(64, max_size)),
        T.cmp("ne", 64, LEN, T.K(64, 0)),
        T.lor(T.cmp("eq", 8, last, T.K(8, exit_opc)), T.cmp("eq", 8, last, T.K(8, ja_opc))),
    ])


def show_atoms(atoms):
    return sorted(T.show(a) for a in atoms)


# ---------------------------------------------------------------------------------------------------------------
# equivalence of two sets of accepting paths as boolean functions (a path set is a DNF; the same acceptance
# condition can be split into paths in many ways, e.g. `(0..=9, _) | (10, true)` vs `0..=9` / `10 if store`)
def _leaves(c, out):
    if isinstance(c, tuple) and c and c[0] in ("land", "lor"):
        _leaves(c[1], out)
        _leaves(c[2], out)
    elif isinstance(c, tuple) and c and c[0] == "not":
        _leaves(c[1], out)
    else:
        out.append(c)


def _field_vars(t, acc):
    if isinstance(t, tuple):
        if len(t) == 3 and t[0] == "v" and isinstance(t[1], str):
            acc.add(t)
            return True
        if t and t[0] == "k":
            return True
        if t and t[0] in ("zext", "sext", "trunc") and len(t) == 3:
            return _field_vars(t[2], acc)
        if t and t[0] == "cmp":
            return _field_vars(t[3], acc) and _field_vars(t[4], acc)
    return False


def _consts(t, acc):
    if isinstance(t, tuple):
        if t and t[0] == "k":
            acc.add(t[2])
        else:
            for x in t:
                _consts(x, acc)


def _ceval(t, env):
    k = t[0]
    if k == "k":
        return t[2] & ((1 << t[1]) - 1)
    if k == "v":
        return env[t] & ((1 << t[2]) - 1)
    if k == "zext":
        return _ceval(t[2], env)
    if k == "trunc":
        return _ceval(t[2], env) & ((1 << t[1]) - 1)
    if k == "sext":
        w0 = T.width(t[2])
        x = _ceval(t[2], env)
        if x >> (w0 - 1):
            x |= ((1 << t[1]) - 1) ^ ((1 << w0) - 1)
        return x
    raise ValueError(k)


def _cmp_eval(c, env):
    _, opn, w, a, b = c
    x, y = _ceval(a, env), _ceval(b, env)
    if opn[0] == "s":
        sx = x - (1 << w) if x >> (w - 1) else x
        sy = y - (1 << w) if y >> (w - 1) else y
        x, y, opn = sx, sy, "u" + opn[1:]
    return {"eq": x == y, "ne": x != y, "ult": x < y, "ule": x <= y, "ugt": x > y, "uge": x >= y}[opn]


def _beval(c, env, opaque):
    if c == T.TRUE:
        return True
    if c == T.FALSE:
        return False
    k = c[0]
    if k == "land":
        return _beval(c[1], env, opaque) and _beval(c[2], env, opaque)
    if k == "lor":
        return _beval(c[1], env, opaque) or _beval(c[2], env, opaque)
    if k == "not":
        return not _beval(c[1], env, opaque)
    key = opaque.get(c)
    if key is not None:
        return env[key[0]] == key[1]
    return _cmp_eval(c, env)


def equivalent(paths_a, paths_b):
    """paths: [(atoms, pc term)] -> (bool, explanation).  Atoms over a single instruction field compared with constants
    are evaluated on a representative of every interval the constants cut the field's range into; any other atom is an
    independent boolean unknown (an atom and its negation share the unknown)."""
    import itertools
    pcs_a, pcs_b = {p for _a, p in paths_a}, {p for _a, p in paths_b}
    if pcs_a != pcs_b:
        return False, "pc advances differ"
    leaves = []
    for atoms, _p in list(paths_a) + list(paths_b):
        for a in atoms:
            _leaves(a, leaves)
    opaque, fvars, consts = {}, set(), {}
    for lf in set(leaves):
        vs = set()
        if isinstance(lf, tuple) and lf and lf[0] == "cmp" and _field_vars(lf, vs) and len(vs) == 1:
            v = next(iter(vs))
            fvars.add(v)
            _consts(lf, consts.setdefault(v, set()))
            continue
        neg = T.lnot(lf)
        base = min(lf, neg, key=repr)
        opaque[lf] = (("opaque", repr(base)), lf == base)
    unknowns = sorted({k[0] for k in opaque.values()})
    if len(unknowns) > 12:
        return False, "too many distinct conditions to compare (%d)" % len(unknowns)
    doms = []
    fvars = sorted(fvars, key=repr)
    for v in fvars:
        w = v[2]
        m = (1 << w) - 1
        reps = {0, 1, m, m >> 1, (m >> 1) + 1}
        for c in consts.get(v, ()):
            for d in (-1, 0, 1):
                reps.add((c + d) & m)
        doms.append(sorted(reps))

    def holds(paths, pc, env):
        return any(p == pc and all(_beval(a, env, opaque) for a in atoms) for atoms, p in paths)
    for vals in itertools.product(*doms):
        env = dict(zip(fvars, vals))
        for bits in itertools.product((False, True), repeat=len(unknowns)):
            env.update(zip(unknowns, bits))
            for pc in pcs_a:
                if holds(paths_a, pc, env) != holds(paths_b, pc, env):
                    return False, "differ at %s" % ", ".join("%s=%#x" % (v[1], x) for v, x in zip(fvars, vals))
    return True, "equivalent on %d field valuations x %d unknown conditions" % (max(1, len(list(itertools.product(*doms)))), len(unknowns))
