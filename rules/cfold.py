"""Constant folding of closed THIR expressions (E4): evaluates integer / boolean expressions
whose leaves are literals, named constants and variables bound in `env`.  Used to enumerate
predicates over the 256 opcode bytes, register numbers, enum discriminants.  Anything outside
the vocabulary yields UNKNOWN (never a guess)."""
from facts import strip, callee_path, pat_consts

UNKNOWN = object()

INT_BITS = {"u8": 8, "u16": 16, "u32": 32, "u64": 64, "u128": 128, "usize": 64,
            "i8": 8, "i16": 16, "i32": 32, "i64": 64, "i128": 128, "isize": 64}


def wrap(v, ty):
    if ty == "bool":
        return bool(v)
    b = INT_BITS.get(ty)
    if b is None or isinstance(v, bool):
        return v
    v &= (1 << b) - 1
    if ty.startswith("i") and v >> (b - 1):
        v -= 1 << b
    return v


class Folder:
    def __init__(self, facts, env=None, fields=None):
        """env: {var id or name: value}; fields: {(var name/id, field): value} for struct fields"""
        self.facts = facts
        self.env = env or {}
        self.fields = fields or {}

    def ev(self, n):
        n = strip(n)
        if n is None:
            return UNKNOWN
        k = n.get("k")
        ty = n.get("ty")
        if k == "lit":
            v = n["v"]
            return wrap(v, ty) if isinstance(v, int) and not isinstance(v, bool) else v
        if k == "const":
            v = self.facts.const(_norm(n["path"]))
            return UNKNOWN if v is None else v
        if k in ("var", "upvar"):
            if n["id"] in self.env:
                return self.env[n["id"]]
            if n["name"] in self.env:
                return self.env[n["name"]]
            return UNKNOWN
        if k == "field":
            base = strip(n["e"])
            if base.get("k") == "deref":
                base = strip(base["e"])
            if base.get("k") in ("var", "upvar"):
                for key in ((base["id"], n["name"]), (base["name"], n["name"])):
                    if key in self.fields:
                        return self.fields[key]
            return UNKNOWN
        if k == "cast":
            v = self.ev(n["e"])
            if v is UNKNOWN:
                return v
            if isinstance(v, bool):
                v = int(v)
            return wrap(v, ty) if isinstance(v, int) else UNKNOWN
        if k == "un":
            v = self.ev(n["e"])
            if v is UNKNOWN:
                return v
            if n["op"] == "Not":
                return (not v) if isinstance(v, bool) else wrap(~v, ty)
            if n["op"] == "Neg":
                return wrap(-v, ty)
            return UNKNOWN
        if k == "logic":
            l = self.ev(n["l"])
            if n["op"] == "And":
                if l is False:
                    return False
                r = self.ev(n["r"])
                if r is False:
                    return False
                return UNKNOWN if (l is UNKNOWN or r is UNKNOWN) else bool(l and r)
            if l is True:
                return True
            r = self.ev(n["r"])
            if r is True:
                return True
            return UNKNOWN if (l is UNKNOWN or r is UNKNOWN) else bool(l or r)
        if k == "bin":
            l, r = self.ev(n["l"]), self.ev(n["r"])
            if l is UNKNOWN or r is UNKNOWN:
                return UNKNOWN
            op = n["op"]
            try:
                if op == "Eq":
                    return l == r
                if op == "Ne":
                    return l != r
                if op == "Lt":
                    return l < r
                if op == "Le":
                    return l <= r
                if op == "Gt":
                    return l > r
                if op == "Ge":
                    return l >= r
                if isinstance(l, bool) or isinstance(r, bool):
                    if op == "BitAnd":
                        return bool(l) & bool(r)
                    if op == "BitOr":
                        return bool(l) | bool(r)
                    if op == "BitXor":
                        return bool(l) ^ bool(r)
                    return UNKNOWN
                res = {"Add": l + r, "Sub": l - r, "Mul": l * r, "BitAnd": l & r, "BitOr": l | r,
                       "BitXor": l ^ r}.get(op)
                if res is None:
                    if op == "Shl":
                        res = l << r
                    elif op == "Shr":
                        res = l >> r
                    elif op == "Div" and r != 0:
                        res = abs(l) // abs(r) * (1 if (l >= 0) == (r >= 0) else -1)
                    elif op == "Rem" and r != 0:
                        res = abs(l) % abs(r) * (1 if l >= 0 else -1)
                    else:
                        return UNKNOWN
                return wrap(res, ty)
            except TypeError:
                return UNKNOWN
        if k == "call":
            cp = callee_path(n) or ""
            args = [self.ev(a) for a in n["args"]]
            if any(a is UNKNOWN for a in args):
                return UNKNOWN
            tail = cp.split("::")[-1]
            if "core::num::" in cp:
                a = args
                if tail == "wrapping_add":
                    return wrap(a[0] + a[1], ty)
                if tail == "wrapping_sub":
                    return wrap(a[0] - a[1], ty)
                if tail == "wrapping_mul":
                    return wrap(a[0] * a[1], ty)
                if tail == "wrapping_shl":
                    return wrap(a[0] << (a[1] % INT_BITS[ty]), ty)
                if tail == "wrapping_shr":
                    return wrap(a[0] >> (a[1] % INT_BITS[ty]), ty)
                if tail == "is_multiple_of":
                    return a[1] != 0 and a[0] % a[1] == 0 if a[1] != 0 else a[0] == 0
            return UNKNOWN
        if k == "match":
            s = self.ev(n["scrut"])
            if s is UNKNOWN:
                return UNKNOWN
            for arm in n["arms"]:
                pc = pat_consts(arm["pat"])
                hit = pc == ("wild",) or (pc is not None and s in pc)
                if pc is None:
                    return UNKNOWN
                if hit:
                    if arm["guard"] is not None:
                        env2 = self._bind(arm["pat"], s)
                        g = Folder(self.facts, env2, self.fields).ev(arm["guard"])
                        if g is UNKNOWN:
                            return UNKNOWN
                        if not g:
                            continue
                    return Folder(self.facts, self._bind(arm["pat"], s), self.fields).ev(arm["body"])
            return UNKNOWN
        if k == "if":
            c = self.ev(n["c"])
            if c is UNKNOWN:
                return UNKNOWN
            if c:
                return self.ev(n["t"])
            return self.ev(n["e"]) if n.get("e") is not None else UNKNOWN
        if k == "block" and not n["stmts"] and n.get("tail") is not None:
            return self.ev(n["tail"])
        return UNKNOWN

    def _bind(self, pat, val):
        env = dict(self.env)
        if pat["k"] == "bind":
            env[pat["id"]] = val
            env[pat["name"]] = val
        return env


def _norm(p):
    from facts import norm_path
    return norm_path(p)
