"""E3 panic inventory.

For a set of root functions: every panic-capable site of every reachable local function (MIR
Assert terminators, calls to panicking primitives, preconditions of local callees) is enumerated
and given a status:
  proven   - the interval / linear-fact / congruence analysis shows it cannot fire
  lifted   - (non-root functions only) it cannot fire provided a linear precondition over the
             function's own arguments holds; the precondition becomes an obligation at every
             call site of that function
  open     - everything else; carries a name-free provenance descriptor so that the property
             module can match it against its assume-guarantee rows (D3/D4) or report it
"""
import re

from absint import (Analysis, ty_range, key_of, op_place, lin_add, lin_const, lin_sym, lin_scale, lin_syms,
                    ISIZE_MAX, BITS, NEG)
from mirlib import callee_name

UB_CHECK_KINDS = ("MisalignedPointerDereference", "NullPointerDereference", "InvalidEnumConstruction")

PANIC_FNS = re.compile(
    r"^(core::panicking::|core::rt::begin_panic|core::rt::panic_|core::option::expect_failed|"
    r"core::option::unwrap_failed|core::result::unwrap_failed|core::slice::index::slice_|core::str::slice_error_fail|"
    r"core::cell::panic_|alloc::raw_vec::capacity_overflow|alloc::alloc::handle_alloc_error)")
UNWRAP_FNS = re.compile(
    r"^(core|std)::(option::Option<T>|result::Result<T, E>)::(unwrap|expect|unwrap_err|expect_err|unwrap_unchecked)$")
INDEX_FNS = re.compile(r"ops::Index(Mut)?(<[^>]*>)? for .*>::index(_mut)?$|ops::Index(Mut)?(<[^>]*>)?>::index(_mut)?$|"
                       r"ops::Index(Mut)?::index(_mut)?$")
LEN_EQ_FNS = re.compile(r"::(copy_from_slice|clone_from_slice|swap_with_slice)$")
SLICE_PANIC_FNS = re.compile(
    r"(slice::<impl \[T\]>|vec::Vec<T, A>|str::<impl str>|string::String|collections::\w+::\w+<[^>]*>)::"
    r"(split_at|split_at_mut|swap|remove|swap_remove|insert|drain|split_off|rotate_left|rotate_right|chunks|chunks_exact|"
    r"windows|chunks_mut|first_chunk|copy_within|select_nth_unstable|truncate_front)$")
ARITH_PANIC_FNS = re.compile(
    r"^(core|std)::num::<impl [iu](8|16|32|64|128|size)>::(pow|abs|div_euclid|rem_euclid|ilog|ilog2|ilog10|isqrt|"
    r"next_power_of_two|div_ceil|next_multiple_of|strict_\w+|midpoint)$")
BYTEORDER = re.compile(r"byteorder::ByteOrder(>)?::(read|write)_([iu])(16|32|64|128)$")
MISC_PANIC_FNS = {
    "core::thread::LocalKey<T>::with": "tls-with",
    "core::cell::RefCell<T>::borrow": "refcell",
    "core::cell::RefCell<T>::borrow_mut": "refcell",
    "core::iter::Iterator::step_by": "step-by",
    "core::io::_print": "stdout",
    "core::io::_eprint": "stderr",
}
RADIX_FNS = re.compile(r"::from_str_radix$|::to_digit$|::from_digit$")


class Site:
    __slots__ = ("fn", "block", "kind", "detail", "ops", "line", "mac", "status", "how", "desc", "term",
                 "goals", "via", "swctx")

    def __init__(self, fn, block, kind, detail, ops, line, mac, term):
        self.fn, self.block, self.kind, self.detail = fn, block, kind, detail
        self.ops, self.line, self.mac, self.term = ops, line, mac or [], term
        self.status, self.how, self.desc, self.goals, self.via = "open", None, None, None, None
        self.swctx = None

    @property
    def proven(self):
        return self.status == "proven"

    def __repr__(self):
        return "<%s %s %s %s %s>" % (self.fn, self.kind, self.detail, self.line,
                                     self.status + ":" + str(self.how if self.status != "open" else self.desc))


def classify_call(name):
    if name is None:
        return None
    if PANIC_FNS.search(name):
        return "panic"
    if UNWRAP_FNS.search(name):
        return "unwrap"
    if INDEX_FNS.search(name):
        return "index"
    if LEN_EQ_FNS.search(name):
        return "len-eq"
    if SLICE_PANIC_FNS.search(name):
        return "slice-op"
    if ARITH_PANIC_FNS.search(name):
        return "arith-call"
    if BYTEORDER.search(name):
        return "byteorder"
    if name in MISC_PANIC_FNS:
        return MISC_PANIC_FNS[name]
    if RADIX_FNS.search(name):
        return "radix"
    return None


class Inventory:
    """One instance per (facts, call graph).  `run(roots)` returns all sites of the reachable set."""

    def __init__(self, facts, cg):
        self.facts = facts
        self.cg = cg
        import absint as _ai
        _ai.CONST_FIELDS.clear()
        for k, c in (facts.consts or {}).items():
            v = c.get("value") if isinstance(c, dict) else None
            if isinstance(v, dict) and isinstance(v.get("fields"), dict):
                _ai.CONST_FIELDS[_ai.norm_const_path(k)] = v["fields"]
        self.summaries = {}
        self.preconds = {}      # fn -> [(goal lin over callee arg symbols, origin site)]
        self.analyses = {}
        self.done = {}

    # ---------------------------------------------------------------- driver
    def run(self, roots, entry=None, extra_reach=()):
        """entry: {fn: {'iv': {key: (lo,hi)}, 'cong': {key: m}}} assumptions at function entry."""
        entry = entry or {}
        roots = [r for r in roots if r in self.cg.bodies]
        reach = self.cg.reach(roots) | set(extra_reach)
        order = self._bottom_up(reach)
        sites = []
        for f in order:
            if f not in self.cg.bodies:
                continue
            sites.extend(self._do_fn(f, roots, entry.get(f)))
        self._context_retry(sites, reach, roots)
        return sites, reach

    def _context_retry(self, sites, reach, roots):
        """open sites of small non-root functions: re-analyse the function under the argument
        intervals of each of its call sites; if the sites are proven in every calling context of the
        analysed set they are discharged (context-sensitive second pass)."""
        by_fn = {}
        for s in sites:
            if s.status == "open" and s.kind != "precond":
                by_fn.setdefault(s.fn, []).append(s)
        for g, open_sites in by_fn.items():
            if self.facts.fns.get(g, {}).get("kind") == "Closure" and len(self.cg.bodies[g].blocks) <= 80:
                contexts = self._closure_contexts(g, reach)
                if contexts:
                    self._retry_under(g, open_sites, contexts, "each of the %d places its closure is applied (elements of a constant array / range)" % len(contexts))
                continue
            if not self.liftable(g, roots) or len(self.cg.bodies[g].blocks) > 80:
                continue
            contexts = []
            for f in reach:
                an = self.analyses.get(f)
                if an is None:
                    continue
                for bi, t in self.cg.bodies[f].calls():
                    if callee_name(t) == g and bi in an.inn:
                        st = an.state_at_term(bi)
                        ent = {}
                        for i, a in enumerate(t["args"]):
                            iv = an.op_iv(st, a)
                            if iv is not None:
                                ent["_%d" % (i + 1)] = iv
                        contexts.append(tuple(sorted(ent.items())))
            contexts = set(contexts)
            if not contexts or len(contexts) > 300:
                continue
            failing = set()
            for ctx in contexts:
                sub = Analysis(self.cg.bodies[g], entry_iv=dict(ctx), adts=self.facts.adts, summaries=self.summaries).run()
                for s in open_sites:
                    if s.block not in sub.inn:
                        continue
                    probe = Site(s.fn, s.block, s.kind, s.detail, s.ops, s.line, s.mac, s.term)
                    st = sub.state_at_term(s.block)
                    if s.kind in ("assert", "ubcheck"):
                        self._assert_goals(sub, st, s.block, probe)
                    else:
                        self._call_goals(sub, st, s.block, probe)
                    ok = probe.status == "proven" or (probe.goals is not None and all(self._prove_goal(sub, st, g2) for g2 in probe.goals))
                    if not ok:
                        failing.add(id(s))
            for s in open_sites:
                if id(s) not in failing:
                    s.status = "proven"
                    s.how = "proved under the argument intervals of each of its %d calling contexts" % len(contexts)

    def _retry_under(self, g, open_sites, contexts, how):
        failing = set()
        for ctx in contexts:
            sub = Analysis(self.cg.bodies[g], entry_iv=dict(ctx), adts=self.facts.adts, summaries=self.summaries).run()
            for s in open_sites:
                if s.block not in sub.inn:
                    continue
                probe = Site(s.fn, s.block, s.kind, s.detail, s.ops, s.line, s.mac, s.term)
                st = sub.state_at_term(s.block)
                if s.kind in ("assert", "ubcheck"):
                    self._assert_goals(sub, st, s.block, probe)
                else:
                    self._call_goals(sub, st, s.block, probe)
                ok = probe.status == "proven" or (probe.goals is not None and all(self._prove_goal(sub, st, g2) for g2 in probe.goals))
                if not ok:
                    failing.add(id(s))
        for s in open_sites:
            if id(s) not in failing:
                s.status = "proven"
                s.how = "proved under the argument intervals of " + how

    def _closure_contexts(self, g, reach):
        """a closure handed to `[..].map(f)` or to an iterator adaptor over a constant range: its parameter ranges over the
        elements.  -> set of entry contexts, or None when some use of the closure is not of that kind"""
        parent = g.rsplit("::{closure#", 1)[0]
        an = self.analyses.get(parent)
        body = self.cg.bodies.get(parent)
        if an is None or body is None:
            return None
        clos = set()
        for blk in body.blocks:
            for st_ in blk["stmts"]:
                if st_["k"] == "assign" and st_["r"].get("k") == "agg" and st_["r"].get("ak") == "closure" and st_["r"].get("path") == g \
                        and not st_["p"]["p"]:
                    clos.add(st_["p"]["l"])
        if not clos:
            return None
        contexts = set()
        for bi, t in body.calls():
            idx = [i for i, a in enumerate(t["args"]) if op_place(a) is not None and not op_place(a)["p"] and op_place(a)["l"] in clos]
            if not idx:
                continue
            if bi not in an.inn or idx != [1]:
                return None
            st = an.state_at_term(bi)
            name = callee_name(t) or ""
            coll = op_place(t["args"][0])
            ck = key_of(coll) if coll is not None else None
            iv = None
            a0 = t["args"][0]
            if re.search(r"array::<impl \[T; N\]>::map$", name) and isinstance(a0, dict) and "const" in a0:
                # a named constant array (`const REGS: [usize; 5] = [..]; REGS.map(f)`): its evaluated elements
                cv = (self.facts.consts.get(a0["const"].get("path")) or {}).get("value")
                if isinstance(cv, list) and cv and all(isinstance(x, int) and not isinstance(x, bool) for x in cv):
                    iv = (min(cv), max(cv))
            elif re.search(r"array::<impl \[T; N\]>::map$", name) and ck:
                d = an.single.get(ck)
                if d and d[2]["k"] == "agg" and d[2].get("ak") == "array":
                    ivs = [an.op_iv(st, o) for o in d[2]["ops"]]
                    if ivs and all(x is not None for x in ivs):
                        iv = (min(x[0] for x in ivs), max(x[1] for x in ivs))
            elif re.search(r"iter::Iterator::(map|any|all|for_each|filter|position|find|find_map|filter_map|take_while|skip_while|inspect|fold)$", name) and ck:
                ty = an.tys.get(ck, "")
                s_iv, e_iv = st.iv.get(ck + ".start"), st.iv.get(ck + ".end")
                if s_iv and e_iv and re.search(r"ops::Range(Inclusive)?<", ty):
                    iv = (s_iv[0], e_iv[1] if "RangeInclusive" in ty else e_iv[1] - 1)
            if iv is None or iv[0] > iv[1]:
                return None
            contexts.add((("_2", iv),))
        return contexts or None

    def _bottom_up(self, reach):
        order, seen, onstack = [], set(), set()

        def visit(f):
            if f in seen:
                return
            seen.add(f)
            onstack.add(f)
            for g in sorted(self.cg.edges.get(f, ())):
                if g in reach and g not in seen:
                    visit(g)
            onstack.discard(f)
            order.append(f)

        import sys
        sys.setrecursionlimit(10000)
        for f in sorted(reach):
            visit(f)
        return order

    def ctx_summary(self, name, ent, _depth=[0]):
        """return-value summary of a local function analysed for particular argument values (memoised; one level deep)"""
        cache = self.__dict__.setdefault("_ctx_cache", {})
        key = (name, tuple(sorted(ent.items())))
        if key in cache:
            return cache[key]
        body = self.cg.bodies.get(name)
        if body is None or _depth[0] >= 2:
            return None
        cache[key] = None
        _depth[0] += 1
        try:
            sub = Analysis(body, entry_iv=dict(ent), adts=self.facts.adts, summaries=self.summaries)
            sub.ctx_summary = self.ctx_summary
            sub.run()
            cache[key] = sub.return_summary()
        except Exception:
            cache[key] = None
        finally:
            _depth[0] -= 1
        return cache[key]

    def _diverging(self, f, roots):
        fn = self.facts.fns.get(f) if f else None
        return bool(fn) and fn.get("ret") == "!" and fn.get("kind") != "Closure" and self.liftable(f, roots)

    def liftable(self, f, roots):
        if f in roots:
            return False
        fn = self.facts.fns[f]
        if fn.get("kind") == "Closure":
            return False
        for cs in self.cg.reified.values():
            if f in cs:
                return False
        if fn.get("impl_trait"):
            return False
        return True

    def _do_fn(self, f, roots, ent):
        key = (f, repr(ent))
        if key in self.done:
            return self.done[key]
        body = self.cg.bodies[f]
        an = Analysis(body, entry_iv=(ent or {}).get("iv"), adts=self.facts.adts, summaries=self.summaries)
        an.entry_cong = (ent or {}).get("cong", {})
        an.ctx_summary = self.ctx_summary
        an.run()
        self.analyses[f] = an
        out = []
        reach = body.reachable()
        for bi in sorted(reach):
            blk = body.blocks[bi]
            t = blk["term"]
            feasible = bi in an.inn
            st = an.state_at_term(bi) if feasible else None
            new = []
            if t["k"] == "assert":
                s = Site(f, bi, "ubcheck" if t["kind"] in UB_CHECK_KINDS else "assert", t["kind"], t["ops"],
                         blk["line"], None, t)
                new.append(s)
                if feasible:
                    self._assert_goals(an, st, bi, s)
            elif t["k"] == "call":
                name = callee_name(t)
                cls = classify_call(name)
                mac = t.get("mac")
                if cls is None and self._diverging(name, roots):
                    # a private function that never returns (`-> !`): calling it is the panic, and the condition
                    # under which it is called is the condition of the panic, exactly as for an inline `panic!`
                    cls = "panic"
                    inner = [m for k2, ss in self.done.items() if k2[0] == name for x in ss if x.kind == "panic" for m in (x.mac or [])]
                    mac = list(mac or []) + (inner or ["panic"])
                if cls is not None:
                    s = Site(f, bi, cls, name, t["args"], blk["line"], mac, t)
                    new.append(s)
                    if feasible:
                        self._call_goals(an, st, bi, s)
                if name in self.preconds and feasible:
                    for goal, origin in self.preconds[name]:
                        s = Site(f, bi, "precond", name, t["args"], blk["line"], t.get("mac"), t)
                        s.via = origin
                        g = self._subst(an, st, goal, t["args"])
                        s.goals = [g] if g is not None else None
                        new.append(s)
            for s in new:
                if not feasible:
                    s.status, s.how = "proven", "unreachable under the interval analysis"
                elif s.status != "proven" and s.goals is not None:
                    if all(self._prove_goal(an, st, g) for g in s.goals):
                        s.status = "proven"
                        s.how = s.how or "interval/linear facts"
                out.append(s)
        # lifting
        lift = self.liftable(f, roots)
        pre = []
        if self._diverging(f, roots):
            for s in out:
                if s.kind == "panic" and s.status != "proven":
                    s.status, s.how = "proven", "inside a function that never returns: every call of it is a panic site of its caller"
        for s in out:
            if s.status == "proven":
                continue
            if lift and s.goals is not None:
                st = an.state_at_term(s.block)
                lifted = [self._lift(an, st, g) for g in s.goals if not self._prove_goal(an, st, g)]
                if lifted and all(l is not None for l in lifted):
                    s.status = "lifted"
                    s.how = "holds under a precondition on the arguments, checked at every call site"
                    for ls in lifted:
                        for l in ls:
                            if not any(l == q for q, _ in pre):
                                pre.append((l, s.via or s))
                    continue
            s.swctx = switch_context(body, s.block)
            s.desc = self.describe(an, s)
        if pre:
            self.preconds[f] = pre
        self.summaries[f] = an.return_summary()
        self.done[key] = out
        return out

    # ---------------------------------------------------------------- goals
    def _lb(self, an, st, o, ty=None):
        """(linear form or None, interval) of an operand"""
        return an.op_lin(st, o), an.op_iv(st, o, ty)

    def _assert_goals(self, an, st, bi, s):
        t = s.term
        kind, ops = t["kind"], t["ops"]
        m = re.match(r"Overflow\((\w+)\)", kind)
        if m:
            op = m.group(1)
            a, b = ops
            aty = an.op_ty(a)
            rng = ty_range(aty)
            if rng is None:
                return
            bty = an.op_ty(b) or aty
            la, ia = self._lb(an, st, a, aty)
            lb, ib = self._lb(an, st, b, bty)
            if op in ("Shl", "Shr"):
                bits = BITS.get(aty)
                if ib and bits and 0 <= ib[0] and ib[1] < bits:
                    s.status, s.how = "proven", "shift amount in [%d,%d] < %d" % (ib[0], ib[1], bits)
                return
            ea = la if la is not None else None
            eb = lb if lb is not None else None
            if op in ("Add", "Sub") and ia and ib:
                lo, hi = (ia[0] + ib[0], ia[1] + ib[1]) if op == "Add" else (ia[0] - ib[1], ia[1] - ib[0])
                if rng[0] <= lo and hi <= rng[1]:
                    s.status, s.how = "proven", "intervals [%d,%d] %s [%d,%d] fit %s" % (ia + (op,) + ib + (aty,))
                    return
            if op in ("Add", "Sub"):
                sign = 1 if op == "Add" else -1
                if ea is None and ia is None or eb is None and ib is None:
                    return
                up = self._combine(ea, ia, eb, ib, sign, upper=True)
                lo = self._combine(ea, ia, eb, ib, sign, upper=False)
                if up is None or lo is None:
                    return
                s.goals = [lin_add(up, lin_const(rng[1]), -1), lin_add(lin_const(rng[0]), lo, -1)]
                return
            if op == "Mul":
                if ia and ib:
                    c = [ia[0] * ib[0], ia[0] * ib[1], ia[1] * ib[0], ia[1] * ib[1]]
                    if min(c) >= rng[0] and max(c) <= rng[1]:
                        s.status, s.how = "proven", "intervals [%d,%d]*[%d,%d] fit %s" % (ia + ib + (aty,))
                        return
                if la is not None and lb is not None and rng[0] == 0:
                    prod = lin_scale(lb, la[0]) if not la[1] else (lin_scale(la, lb[0]) if not lb[1] else None)
                    if prod is not None and (la[0] if not la[1] else lb[0]) >= 0:
                        s.goals = [lin_add(prod, lin_const(rng[1]), -1)]
                return
            return
        if kind == "OverflowNeg":
            a = ops[0]
            aty = an.op_ty(a)
            rng, ia = ty_range(aty), an.op_iv(st, a, aty)
            if rng and ia and ia[0] > rng[0]:
                s.status, s.how = "proven", "operand interval excludes %s::MIN" % aty
            return
        if kind in ("DivisionByZero", "RemainderByZero"):
            cond = an._resolve_bool(t["cond"], bi)
            if cond and cond[0] == "cmp" and cond[1] in ("Eq", "Ne"):
                for x, y in ((cond[2], cond[3]), (cond[3], cond[2])):
                    if an.op_iv(st, y, cond[4]) == (0, 0):
                        s.ops = [x]
                        if an.nonzero(st, x):
                            s.status, s.how = "proven", "divisor is known to be non-zero (dominating guard)"
                        return
            return
        if kind == "BoundsCheck":
            ln, idx = ops
            ll, il = self._lb(an, st, ln, "usize")
            li, ii = self._lb(an, st, idx, "usize")
            if il and ii and ii[1] < il[0]:
                s.status, s.how = "proven", "index <= %d < len >= %d" % (ii[1], il[0])
                return
            if ll is not None and li is not None:
                s.goals = [lin_add(lin_add(li, lin_const(1)), ll, -1)]
            return
        if kind == "MisalignedPointerDereference":
            req, found = ops
            r = an.op_iv(st, req, "usize")
            if r and r[0] == r[1]:
                if r[0] == 1:
                    s.status, s.how = "proven", "alignment 1"
                    return
                c = an.op_cong(st, found)
                if c == 0 or c % r[0] == 0:
                    s.status, s.how = "proven", "address is a multiple of %d (dominating alignment test)" % r[0]
            return

    @staticmethod
    def _combine(ea, ia, eb, ib, sign, upper):
        """linear upper (or lower) bound of a + sign*b using linear forms where available and
        interval ends otherwise"""
        if ea is not None:
            x = ea
        elif ia is not None:
            x = lin_const(ia[1] if upper else ia[0])
        else:
            return None
        if eb is not None:
            y = eb
        elif ib is not None:
            pick_hi = upper if sign > 0 else not upper
            y = lin_const(ib[1] if pick_hi else ib[0])
        else:
            return None
        return lin_add(x, y, sign)

    def _call_goals(self, an, st, bi, s):
        t = s.term
        if s.kind == "panic":
            # a panic reached through a single conditional edge: the goal is that edge's negation
            body = an.b
            cur = bi
            preds = [p for p in body.pred[cur] if p in an.inn]
            hops = 0
            # walk back through the straight-line blocks that build the panic message
            while len(preds) == 1 and body.blocks[preds[0]]["term"]["k"] in ("call", "goto", "drop") and hops < 40:
                cur = preds[0]
                preds = [p for p in body.pred[cur] if p in an.inn]
                hops += 1
            bi = cur
            if len(preds) == 1:
                pt = body.blocks[preds[0]]["term"]
                if pt["k"] == "switch" and pt["dty"] == "bool" and len(pt["values"]) == 1:
                    cond = an._resolve_bool(pt["discr"], preds[0])
                    if cond and cond[0] == "call":
                        # the edge is decided by a local predicate `a <op> b` over its arguments
                        pst0 = an.state_at_term(preds[0])
                        pr = an.predicate_of(pst0, cond[1], cond[2]) if pst0 is not None else None
                        if pr is not None and not (pt["targets"][0] == bi and pt["otherwise"] == bi):
                            truth = (pt["targets"][0] == bi and bool(pt["values"][0])) or (pt["otherwise"] == bi and not bool(pt["values"][0]))
                            truth = truth if cond[3] else not truth
                            op = pr[0] if truth else NEG[pr[0]]
                            la, lb = pr[1], pr[2]
                            g = {"Gt": lin_add(la, lb, -1), "Ge": lin_add(lin_add(la, lin_const(1)), lb, -1),
                                 "Lt": lin_add(lb, la, -1), "Le": lin_add(lin_add(lb, lin_const(1)), la, -1)}.get(op)
                            if g is not None:
                                s.goals = [g]
                    if cond and cond[0] == "cmp":
                        truth = (pt["targets"][0] == bi and bool(pt["values"][0])) or \
                                (pt["otherwise"] == bi and not bool(pt["values"][0]))
                        if pt["targets"][0] == bi and pt["otherwise"] == bi:
                            return
                        op = cond[1] if truth else NEG[cond[1]]
                        pst = an.state_at_term(preds[0])
                        la, lb = an.op_lin(pst, cond[2]), an.op_lin(pst, cond[3])
                        if la is not None and lb is not None:
                            # the panic needs `a op b`; safe iff NOT(a op b)
                            g = {"Gt": lin_add(la, lb, -1), "Ge": lin_add(lin_add(la, lin_const(1)), lb, -1),
                                 "Lt": lin_add(lb, la, -1), "Le": lin_add(lin_add(lb, lin_const(1)), la, -1)}.get(op)
                            if g is not None:
                                s.goals = [g]
            return
        if s.kind == "slice-op" and re.search(r"::(chunks|chunks_exact|chunks_mut|chunks_exact_mut|windows)$", s.detail or "") and len(t["args"]) == 2:
            # these panic exactly when the piece size is 0
            iv = an.op_iv(st, t["args"][1], "usize")
            if iv and iv[0] >= 1:
                s.status, s.how = "proven", "piece size in [%d,%d], never 0" % iv
            return
        if s.kind == "unwrap":
            return self._unwrap_of_local_call(an, st, s)
        if s.kind == "index":
            return self._range_index_goals(an, st, s)
        if s.kind == "radix":
            if len(t["args"]) >= 2:
                iv = an.op_iv(st, t["args"][1], "u32")
                if iv and 2 <= iv[0] and iv[1] <= 36:
                    s.status, s.how = "proven", "radix argument in [%d,%d] within 2..=36" % iv
            return
        if s.kind == "arith-call":
            m = re.search(r"::(ilog|ilog2|ilog10)$", s.detail or "")
            if m and t["args"]:
                iv = an.op_iv(st, t["args"][0])
                okx = iv is not None and iv[0] >= 1
                okb = True
                if m.group(1) == "ilog":
                    ib = an.op_iv(st, t["args"][1], "u64") if len(t["args"]) > 1 else None
                    okb = ib is not None and ib[0] >= 2
                if okx and okb:
                    s.status, s.how = "proven", "logarithm of a value >= 1%s" % (" to a base >= 2" if m.group(1) == "ilog" else "")
            return
        if s.kind == "byteorder":
            m = BYTEORDER.search(s.detail)
            need = int(m.group(4)) // 8
            ln = self.slice_len(an, st, t["args"][0])
            if ln is not None:
                s.goals = [lin_add(lin_const(need), ln, -1)]
            return
        if s.kind == "len-eq" and len(t["args"]) == 2:
            a, b = self.slice_len(an, st, t["args"][0]), self.slice_len(an, st, t["args"][1])
            if a is not None and b is not None:
                s.goals = [lin_add(a, b, -1), lin_add(b, a, -1)]
            return

    def _unwrap_of_local_call(self, an, st, s):
        """`f(args).unwrap()` with f local: re-analyse f under the argument intervals of this call
        site; proven when every return of f then has the Ok / Some discriminant."""
        t = s.term
        if not t["args"]:
            return
        k = key_of(op_place(t["args"][0])) if op_place(t["args"][0]) else None
        hops = 0
        while k and hops < 4:
            d = an.single.get(k)
            if not d:
                return
            r = d[2]
            if r["k"] == "use" and op_place(r["o"]) is not None and key_of(op_place(r["o"])):
                k = key_of(op_place(r["o"]))
                hops += 1
                continue
            break
        d = an.single.get(k) if k else None
        if not d or d[2]["k"] != "callret":
            return
        ct = d[2]["t"]
        callee = callee_name(ct)
        if callee not in self.cg.bodies:
            return
        cst = an.state_at_term(d[0])
        if cst is None:
            return
        entry = {}
        for i, a in enumerate(ct["args"]):
            iv = an.op_iv(cst, a)
            if iv is not None:
                entry["_%d" % (i + 1)] = iv
        sub = Analysis(self.cg.bodies[callee], entry_iv=entry, adts=self.facts.adts, summaries=self.summaries)
        sub.ctx_summary = self.ctx_summary
        sub = sub.run()
        disc = sub.return_summary()["ret"].get("#d")
        want = (1, 1) if "Option<" in (ct.get("argtys") and an.tys.get(k, "") or an.tys.get(k, "")) else (0, 0)
        if disc == want:
            s.status = "proven"
            s.how = "callee %s always returns %s for the argument intervals of this call site" % (
                callee, "Some" if want == (1, 1) else "Ok")

    def _agg_of(self, an, key, depth=0):
        d = an.single.get(key)
        if not d or depth > 4:
            return None
        r = d[2]
        if r["k"] == "agg":
            return r
        if r["k"] == "use" and op_place(r["o"]) is not None and key_of(op_place(r["o"])):
            return self._agg_of(an, key_of(op_place(r["o"])), depth + 1)
        return None

    def _range_of(self, an, st, o):
        """('from'|'range'|'to'|'incl', start lin, end lin) of a range-typed operand"""
        if isinstance(o, dict) and isinstance(o.get("const"), dict) and o["const"].get("path"):
            import absint as _ai
            flds = _ai.CONST_FIELDS.get(_ai.norm_const_path(o["const"]["path"]))
            cty = o["const"].get("ty", "")
            if flds and isinstance(flds.get("start"), int) and isinstance(flds.get("end"), int):
                if "RangeInclusive" in cty:
                    return ("range", lin_const(flds["start"]), lin_const(flds["end"] + 1))
                if re.search(r"ops::Range<", cty):
                    return ("range", lin_const(flds["start"]), lin_const(flds["end"]))
            return None
        p = op_place(o)
        k = key_of(p) if p else None
        if not k:
            return None
        agg = self._agg_of(an, k)
        if agg is not None:
            path = agg.get("path", "")
            if path.endswith("RangeFrom"):
                return ("from", an.op_lin(st, agg["ops"][0]), None)
            if path.endswith("::Range"):
                return ("range", an.op_lin(st, agg["ops"][0]), an.op_lin(st, agg["ops"][1]))
            if path.endswith("RangeTo"):
                return ("to", None, an.op_lin(st, agg["ops"][0]))
            return None
        d = an.single.get(k)
        if d and d[2]["k"] == "callret":
            ct = d[2]["t"]
            if (callee_name(ct) or "").endswith("RangeInclusive<Idx>::new") and len(ct["args"]) == 2:
                a, b = an.op_lin(st, ct["args"][0]), an.op_lin(st, ct["args"][1])
                if a is not None and b is not None and not a[1] and not b[1]:
                    return ("range", a, lin_add(b, lin_const(1)))
        return None

    def slice_len(self, an, st, o, depth=0):
        """linear form for the length of the slice / array a reference operand points to"""
        p = op_place(o)
        k = key_of(p) if p else None
        if k is None or depth > 6:
            return None
        ty = an.place_ty(k) or ""
        m = re.match(r"^&(?:'\w+ )?(?:mut )?\[.*; *(\d+)\]$", ty)
        if m:
            return lin_const(int(m.group(1)))
        d = an.single.get(k)
        if d is None:
            return lin_sym("len(%s)" % k) if an.tracked(k) and ty.startswith("&") else None
        r = d[2]
        if r["k"] == "ref" and r["p"]["p"] == ["deref"]:
            return self.slice_len(an, st, {"copy": {"l": r["p"]["l"], "p": []}}, depth + 1)
        if r["k"] == "ref" and not r["p"]["p"]:
            t2 = an.tys.get("_%d" % r["p"]["l"], "")
            m = re.match(r"^\[.*; *(\d+)\]$", t2)
            if m:
                return lin_const(int(m.group(1)))
            return None
        if r["k"] in ("use", "cast") and op_place(r["o"]) is not None:
            return self.slice_len(an, st, r["o"], depth + 1)
        if r["k"] == "callret":
            ct = r["t"]
            nm = callee_name(ct) or ""
            if INDEX_FNS.search(nm) and len(ct["args"]) == 2:
                base = self.slice_len(an, st, ct["args"][0], depth + 1)
                rg = self._range_of(an, st, ct["args"][1])
                if base is not None and rg is not None:
                    if rg[0] == "from" and rg[1] is not None:
                        return lin_add(base, rg[1], -1)
                    if rg[0] == "range" and rg[1] is not None and rg[2] is not None:
                        return lin_add(rg[2], rg[1], -1)
                    if rg[0] == "to" and rg[2] is not None:
                        return rg[2]
            if nm.endswith("::as_slice") or nm.endswith("::as_mut_slice") or nm.endswith("Deref>::deref"):
                return self.slice_len(an, st, ct["args"][0], depth + 1)
            return None
        return None

    def _range_index_goals(self, an, st, s):
        t = s.term
        if len(t["args"]) != 2:
            return
        rg = self._range_of(an, st, t["args"][1])
        ln = self.slice_len(an, st, t["args"][0])
        if rg is None or ln is None:
            return
        kind, a, b = rg
        if kind == "from" and a is not None:
            s.goals = [lin_add(a, ln, -1)]
        elif kind == "range" and a is not None and b is not None:
            s.goals = [lin_add(a, b, -1), lin_add(b, ln, -1)]
        elif kind == "to" and b is not None:
            s.goals = [lin_add(b, ln, -1)]

    # ---------------------------------------------------------------- proving / lifting
    def _prove_goal(self, an, st, g):
        u = an.upper(st, g)
        return u is not None and u <= 0

    def _lift(self, an, st, g):
        """rewrite goal over the function's never-assigned arguments (and their slice lengths);
        other symbols are replaced by their interval ends"""
        out = lin_const(g[0])
        extra = []

        def is_arg(base):
            return re.match(r"^_(\d+)$", base) and 1 <= int(base[1:]) <= an.b.argc and an.defcount.get(base, 0) == 0

        # k <= floor(a / c) is a >= k*c: a lower bound asked of a quotient alone becomes one on the dividend
        if len(g[1]) == 1 and g[1][0][1] < 0 and g[1][0][0] in getattr(an, "quotients", {}):
            a, c = an.quotients[g[1][0][0]]
            k = -((-g[0]) // (-g[1][0][1]))        # ceil(const / |coef|)
            return self._lift(an, st, lin_add(lin_const(k * c), a, -1))
        for s, c in g[1]:
            base = s[4:-1] if s.startswith("len(") else s
            m = re.match(r"^E:cast<(\w+)>\(0\+1\*(_\d+)\)$", s)
            if is_arg(base):
                out = lin_add(out, lin_scale(lin_sym(s), c))
            elif m and is_arg(m.group(2)) and ty_range(m.group(1)):
                # `arg as T`: equal to arg whenever arg fits T; make that part of the precondition
                rng = ty_range(m.group(1))
                extra.append(lin_add(lin_sym(m.group(2)), lin_const(rng[1]), -1))
                if rng[0] > (ty_range(an.place_ty(m.group(2))) or (0, 0))[0]:
                    extra.append(lin_add(lin_const(rng[0]), lin_sym(m.group(2)), -1))
                out = lin_add(out, lin_scale(lin_sym(m.group(2)), c))
            else:
                iv = an._sym_iv(st, s)
                if iv is None:
                    return None
                out = lin_add(out, lin_const(c * (iv[1] if c > 0 else iv[0])))
        if not out[1]:
            return None  # constant goal: no caller can help
        return [out] + extra

    def _subst(self, an, st, goal, args):
        out = lin_const(goal[0])
        for s, c in goal[1]:
            islen = s.startswith("len(")
            base = s[4:-1] if islen else s
            ai = int(base[1:]) - 1
            if ai >= len(args):
                return None
            if islen:
                ln = self.slice_len(an, st, args[ai])
            else:
                ln = an.op_lin(st, args[ai])
            if ln is None:
                iv = an.op_iv(st, args[ai]) if not islen else (0, ISIZE_MAX)
                if iv is None:
                    return None
                ln = lin_const(iv[1] if c > 0 else iv[0])
            out = lin_add(out, lin_scale(ln, c))
        return out

    # ---------------------------------------------------------------- provenance
    def describe(self, an, s):
        if s.kind == "panic":
            macs = [str(m).rsplit("::", 1)[-1].lstrip("$") for m in s.mac]
            # an assertion is described with the condition it states (the text of its failure message), so that a
            # discharge row speaks about that assertion and no other
            text = ""
            for o in s.ops or []:
                c = o.get("const") if isinstance(o, dict) else None
                if isinstance(c, dict) and isinstance(c.get("str"), str) and c["str"].startswith("assertion failed: "):
                    text = "[%s]" % c["str"][len("assertion failed: "):]
            if not text and len(s.ops or []) >= 3 and (callee_name(s.term) or "").endswith("assert_failed"):
                # assert_eq! / assert_ne!: the two compared expressions
                try:
                    text = "[%s <> %s]" % (self.prov(an, s.ops[1], 0), self.prov(an, s.ops[2], 0))
                except Exception:
                    text = ""
            for m in ("debug_assert", "debug_assert_eq", "debug_assert_ne"):
                if m in macs:
                    return "panic!%s@%s%s" % (m, s.swctx or "", text)
            for m in ("unreachable", "unimplemented", "assert", "assert_eq", "assert_ne", "todo", "panic"):
                if m in macs:
                    return "panic!%s@%s" % (m, s.swctx or "")
            return "panic!core@%s" % (s.swctx or "")
        ops = ",".join(self.prov(an, o, 0) for o in s.ops)
        if s.kind == "precond":
            o = s.via
            od = (o.desc or o.detail) if isinstance(o, Site) else o
            if isinstance(o, Site) and o.kind == "panic" and not o.desc and o.fn in self.analyses and o.fn in self.cg.bodies:
                # the panic a precondition guards is named as it would be where it stands (macro and switch context),
                # not by the runtime function it ends in
                if o.swctx is None:
                    o.swctx = switch_context(self.cg.bodies[o.fn], o.block)
                od = self.describe(self.analyses[o.fn], o)
            callee = _short(s.detail)
            if isinstance(o, Site) and o.kind == "panic" and o.fn != s.detail:
                callee += "@" + _short(o.fn)        # the panic sits deeper than the function called here: name where
            return "precond:%s<-%s(%s)" % (callee, od, ops)
        d = s.detail if s.kind in ("assert", "ubcheck") else "%s:%s" % (s.kind, _short(s.detail))
        return self._name_captures(s.fn, "%s(%s)" % (d, ops))

    def _name_captures(self, fn, text):
        """inside a closure, `arg1<{closure}>.N` is its N-th captured place: name it after the expression the
        enclosing function captured (`upvar<&self.pc_locs>`), so that rows can speak about the same objects"""
        if "::{closure#" not in fn or "arg1<{closure}>." not in text:
            return text
        ups = self._upvars(fn)
        if not ups:
            return text
        return re.sub(r"arg1<\{closure\}>\.(\d+)", lambda m: ("upvar<%s>" % ups[int(m.group(1))]) if int(m.group(1)) < len(ups) else m.group(0), text)

    def _upvars(self, fn):
        cache = self.__dict__.setdefault("_upvar_cache", {})
        if fn in cache:
            return cache[fn]
        out = None
        parent = fn.rsplit("::{closure#", 1)[0]
        pf = self.facts.fns.get(parent)
        if pf and pf.get("thir"):
            from facts import walk
            for n in walk(pf["thir"]["body"]):
                if n.get("k") == "closure" and n.get("path") == fn:
                    out = [_render_thir(u) for u in n.get("upvars") or []]
                    break
        cache[fn] = out
        return out

    def prov(self, an, o, depth):
        if "const" in o:
            c = o["const"]
            if "v" in c:
                return "%s" % c["v"]
            if "path" in c:
                return "const:" + c["path"].split("::")[-1]
            return "const<%s>" % _short_ty(c["ty"])
        if "fn" in o:
            return "fn:" + _short(o["fn"]["path"])
        p = op_place(o)
        if p is None:
            return "?"
        return self.prov_place(an, p, depth)

    def prov_place(self, an, p, depth):
        s = self.prov_local(an, "_%d" % p["l"], depth)
        for e in p["p"]:
            if e == "deref":
                s = "*" + s if not s.startswith("&") else s[1:]
            elif isinstance(e, dict) and "f" in e:
                s = "%s.%s" % (s, e["f"])
            elif isinstance(e, dict) and "idx" in e:
                s = "%s[%s]" % (s, self.prov_local(an, "_%d" % e["idx"], depth + 1))
            elif isinstance(e, dict) and "cidx" in e:
                s = "%s[%d]" % (s, e["cidx"])
            elif isinstance(e, dict) and "downcast" in e:
                s = "%s@%s" % (s, e["downcast"])
            else:
                s = "%s{?}" % s
        return s

    def prov_local(self, an, key, depth):
        idx = int(key[1:])
        ty = an.tys.get(key, "?")
        if 1 <= idx <= an.b.argc and an.defcount.get(key, 0) == 0:
            return "arg%d<%s>" % (idx, _short_ty(ty))
        d = an.single.get(key)
        if d is None or depth > 7:
            return "mut<%s>" % _short_ty(ty) if an.defcount.get(key, 0) > 1 else "tmp<%s>" % _short_ty(ty)
        r = d[2]
        k = r["k"]
        if k == "use":
            return self.prov(an, r["o"], depth + 1)
        if k == "cast":
            return "(%s as %s)" % (self.prov(an, r["o"], depth + 1), _short_ty(r["to"]))
        if k == "bin":
            op = r["op"].replace("WithOverflow", "")
            return "%s(%s,%s)" % (op, self.prov(an, r["a"], depth + 1), self.prov(an, r["b"], depth + 1))
        if k == "un":
            return "%s(%s)" % (r["op"], self.prov(an, r["a"], depth + 1))
        if k == "ref":
            return "&" + self.prov_place(an, r["p"], depth + 1)
        if k == "rawptr":
            return "&raw " + self.prov_place(an, r["p"], depth + 1)
        if k == "agg":
            if r.get("ak") == "array" and len(r["ops"]) > 4:
                return "array<%s>" % _short_ty(ty)
            return "%s{%s}" % (_short(r.get("path", r.get("ak", "agg"))),
                               ",".join(self.prov(an, x, depth + 1) for x in r["ops"]))
        if k == "discr":
            return "discr(%s)" % self.prov_place(an, r["p"], depth + 1)
        if k == "callret":
            t = r["t"]
            nm = callee_name(t)
            if nm is None:
                return "indirect-call<%s>" % _short_ty(ty)
            mconv = re.search(r"convert::From<(bool|[iu](?:8|16|32|64|128|size))> for ([iu](?:8|16|32|64|128|size))>::from$", nm)
            if mconv and len(t["args"]) == 1:
                # a lossless integer conversion reads like the cast it replaces
                return "(%s as %s)" % (self.prov(an, t["args"][0], depth + 1), mconv.group(2))
            return "%s(%s)" % (_short(nm), ",".join(self.prov(an, a, depth + 1) for a in t["args"]))
        return "tmp<%s>" % _short_ty(ty)


def _render_thir(n):
    from facts import strip
    n = strip(n)
    k = n.get("k")
    if k in ("var", "upvar"):
        return n.get("name") or "?"
    if k == "field":
        b = strip(n["e"])
        if b.get("k") == "deref":
            b = strip(b["e"])           # auto-deref of `self`
        return "%s.%s" % (_render_thir(b), n.get("name"))
    if k == "deref":
        return "*%s" % _render_thir(n["e"])
    if k == "ref":
        return "&%s" % _render_thir(n["e"])
    if k == "index":
        return "%s[..]" % _render_thir(n.get("l") or n.get("e") or {})
    return "?"


def switch_context(body, bi):
    """name-free description of the integer switches that decide whether block `bi` runs:
    `u8=212;i32!in[16,32,64]` = reached through the u8 switch edge for 212, then through the
    `otherwise` edge of an i32 switch over {16,32,64}"""
    dom = body.dominators().get(bi)
    if not dom:
        return ""
    out = []
    order = {b: i for i, b in enumerate(body.rpo())}
    for d in sorted(dom, key=lambda b: order.get(b, 0)):
        t = body.blocks[d]["term"]
        if d == bi or t["k"] != "switch" or t["dty"] in ("bool", "isize"):
            continue
        succs = {}
        for v, tg in zip(t["values"], t["targets"]):
            succs.setdefault(tg, []).append(v)
        hit = [tg for tg in set(t["targets"]) | {t["otherwise"]} if tg == bi or body.dominates(tg, bi)]
        if len(hit) != 1:
            continue
        tg = hit[0]
        if tg == t["otherwise"] and tg not in succs:
            vals = sorted(t["values"])
            lab = "%s!in%s" % (t["dty"], ("[%s]" % ",".join(map(str, vals))) if len(vals) <= 6 else "[%d values]" % len(vals))
        else:
            vals = sorted(succs.get(tg, []))
            lab = "%s=%s" % (t["dty"], ",".join(map(str, vals[:8])) + ("..." if len(vals) > 8 else ""))
        out.append(lab)
    return ";".join(out)


def _short(path):
    path = re.sub(r"<impl ([^>]*)>", r"\1", path)
    parts = [p for p in re.split(r"::", path) if p]
    return "::".join(parts[-2:]) if len(parts) > 1 else path


def _short_ty(ty):
    ty = re.sub(r"\{closure@[^}]*\}", "{closure}", ty)
    ty = re.sub(r"(std|core|alloc)::(\w+::)*", "", ty)
    return ty
