"""x86-64 JIT model: per (opcode, dst, src) the byte template the code generator emits (from the
symbolic evaluation of its arm down to the emit macro), decoded and interpreted by x86model."""
import models
import symex
import terms as T
import x86model as X
from facts import walk, strip, callee_path

REG = ("obj", "REG", "[u64; 11]")


def emit_hook(ev, n, st, fp):
    """the `emit_bytes!(mem, data, ty)` expansion: record one emitted item"""
    data = None
    for x in walk(n):
        if x.get("k") == "call" and (callee_path(x) or "").endswith("write_unaligned"):
            data = x["args"][1]
            break
    if data is None:
        return None
    out = []
    for v, s in ev.ev(data, st, fp):
        w = symex._w(v) if isinstance(v, tuple) else 0
        if not w:
            w = ev.bits(strip(data).get("ty") or data.get("ty"))
            v = ("opaque", "emitted", w)
        out.append((symex.UNIT, s.effect(("emit", w, v))))
    return out


def emit_functions(F):
    """local functions that are an emission primitive: they write their data argument through `write_unaligned` into
    the code buffer and advance a field named `offset` (the `emit_bytes!` macro written as a generic method)"""
    out = []
    for p, fn in F.fns.items():
        if not p.startswith("jit::") or not fn.get("thir") or "{closure" in p or len(fn["thir"]["params"]) != 2:
            continue
        body = fn["thir"]["body"]
        writes = [x for x in walk(body) if x.get("k") == "call" and (callee_path(x) or "").endswith("write_unaligned")]
        adv = [x for x in walk(body) if x.get("k") == "assignop" and strip(x["l"]).get("k") == "field" and strip(x["l"]).get("name") == "offset"]
        # the written value is the function's own data parameter (not a wrapper around another emitter)
        pn = fn["thir"]["params"][1]["pat"]["name"] if fn["thir"]["params"][1].get("pat") and fn["thir"]["params"][1]["pat"].get("k") == "bind" else None
        if len(writes) == 1 and len(adv) == 1 and pn and any(x.get("k") in ("var", "upvar") and x.get("name") == pn for x in walk(writes[0]["args"][1])):
            out.append(p)
    return out


def emit_model(ev, vals, n, s, path, gens):
    v = vals[1]
    w = symex._w(v) if isinstance(v, tuple) else 0
    if not w:
        w = ev.bits(strip(n["args"][1]).get("ty"))
        v = ("opaque", "emitted", w)
    return [(symex.UNIT, s.effect(("emit", w, v)))]


class JitModel:
    def __init__(self, cx):
        self.cx = cx
        F = cx.F
        self.fn = cx.roles.jit()
        self.ok = self.fn is not None
        if not self.ok:
            return
        self.lm = models.LoopModel(F, self.fn)
        self.lm.ev = symex.Evaluator(F, macro_hooks={"emit_bytes": emit_hook}, max_depth=10, models={p: emit_model for p in emit_functions(F)})
        self.pcname, self.pcid = models.loop_counter_name(F, self.fn)
        self.regmap = F.const("jit::REGISTER_MAP")
        self.extra = {}
        names = [p["pat"]["name"] if p["pat"] and p["pat"]["k"] == "bind" else None for p in F.fns[self.fn]["thir"]["params"]]
        # jit_compile(&mut self, mem, prog, use_mbuff, update_data_ptr, helpers)
        for nm, ty in zip(names, [p["ty"] for p in F.fns[self.fn]["thir"]["params"]]):
            if nm and ty.startswith("&[u8]"):
                self.extra[nm] = "PROG"
            if nm and "HashMap" in ty:
                self.extra[nm] = "HELPERS"

    def canon(self, t):
        return models.canon(t, self.pcname, self.extra)

    def templates(self, v, d, s):
        """-> list of dict(conds, items, pc, unrec, err) for opcode v with concrete register numbers"""
        ev = self.lm.ev
        owner = ev.owner_of(self.fn)
        out = []
        for _val, st in self.lm.run(v, fields={"dst": T.K(8, d), "src": T.K(8, s)}):
            items, pending = [], None
            err = None
            for e in st.effects:
                if e[0] == "emit":
                    t = self.canon(e[2])
                    tag = None
                    if pending is not None and e[1] == 32 and t == T.K(32, 0):
                        tag, pending = ("reloc", pending), None
                    items.append((e[1], t, tag))
                elif e[0] == "call" and isinstance(e[1], str) and e[1].endswith("Vec<T, A>::push"):
                    val = e[2][1]
                    if isinstance(val, tuple) and val and val[0] == "struct" and val[1].endswith("Jump"):
                        pending = self.canon(symex.sfield(val, "target_pc"))
                elif e[0] == "call" and isinstance(e[1], str) and e[1].startswith("core::panicking"):
                    err = "panic"
            ex = st.exit
            if ex is not None and ex[0] == "ret":
                r = ex[1]
                err = "Err" if (isinstance(r, tuple) and r and r[0] == "struct" and r[2] == "Err") else err
            pcv = st.env.get((owner, self.pcid))
            out.append({"conds": [self.canon(c) for c in st.conds], "items": items, "pc": self.canon(pcv) if pcv is not None else None,
                        "unrec": [u for u in st.unrec if "field write on symbolic" not in u], "err": err,
                        "panic_in": next((e[1] for e in st.effects if e[0] == "panic_in"), None),
                        "lookups": [self.canon(e) for e in st.effects if e[0] == "call" and isinstance(e[1], str) and e[1].endswith("HashMap<K, V, S, A>::get")]})
        return out

    def initial_machine(self):
        regs = [("v", "x86_" + X.NAMES[r], 64) for r in range(16)]
        for k, r in enumerate(self.regmap):
            regs[r] = ("sel", REG, T.K(64, k), 64)
        regs[X.R10] = ("call", "as_ptr", (("obj", "MEM", "&[u8]"),), 64)
        return X.M(regs)


# ---------------------------------------------------------------- comparison with the interpreter
def _atoms(conds):
    out = set()
    for c in conds:
        st = [c]
        while st:
            x = st.pop()
            if isinstance(x, tuple) and x and x[0] == "land":
                st.extend([x[1], x[2]])
            else:
                out.add(x)
    return out


def contradictory(a, b):
    A, B = _atoms(a), _atoms(b)
    for x in A:
        if T.lnot(x) in B:
            return True
    # x == K1 in one set and x == K2 in the other
    eq = {}
    for x in A | B:
        if x[0] == "cmp" and x[1] == "eq" and T.is_k(x[3]):
            if x[4] in eq and eq[x[4]] != x[3][2]:
                return True
            eq[x[4]] = x[3][2]
    for x in A | B:
        if x[0] == "cmp" and x[1] == "ne" and T.is_k(x[3]) and eq.get(x[4]) == x[3][2]:
            return True
    return False


def fit_rewrites(conds):
    """terms X for which a path condition says `X fits in n signed bits`: sext(trunc_n(X)) == sext(X)"""
    fits = {}
    for c in _atoms(conds) | set(conds):
        if c[0] == "land":
            parts = _atoms([c])
        else:
            parts = {c}
        lo = hi = None
        for p in parts:
            if p[0] == "cmp" and p[1] == "sle" and T.is_k(p[3]):
                lo = (p[3], p[4])
            elif p[0] == "cmp" and p[1] == "sle" and T.is_k(p[4]):
                hi = (p[4], p[3])
        if lo and hi and lo[1] == hi[1]:
            w = T.width(lo[1])
            lov, hiv = T.sval(lo[0]), T.sval(hi[0])
            for n in (8, 32):
                if lov >= -(1 << (n - 1)) and hiv <= (1 << (n - 1)) - 1:
                    x = lo[1]
                    while x[0] == "sext":
                        x = x[2]
                    fits.setdefault(n, set()).add(x)
    return fits


def apply_fits(t, fits):
    def f(x):
        if x[0] in ("sext", "zext") and isinstance(x[2], tuple) and x[2][0] == "trunc":
            n, inner = x[2][1], x[2][2]
            if x[0] == "sext" and inner in fits.get(n, ()):
                return T.sext(x[1], inner) if T.width(inner) < x[1] else (inner if T.width(inner) == x[1] else T.trunc(x[1], inner))
        return None
    return T.rebuild(t, f)


def same_value(a, b):
    if a == b:
        return True
    try:
        if T.width(a) != T.width(b):
            return False
        la, lb = T.lanes(a), T.lanes(b)
        return None not in la and la == lb
    except Exception:
        return False


def rsp_offset(t):
    """constant k such that t == rsp0 + k (None otherwise)"""
    base = ("v", "x86_rsp", 64)
    if t == base:
        return 0
    if isinstance(t, tuple) and t[0] == "op" and t[1] == "add" and t[3][0] == "k" and t[4] == base:
        return T.sval(t[3])
    return None


def frame_templates(jm, use_mbuff, update_data_ptr):
    """(prologue items, epilogue items, problems): byte templates emitted before / after the
    per-instruction loop of the code generator, for the given wrapper flags"""
    ev = jm.lm.ev
    F = jm.cx.F
    fn = F.fns[jm.fn]
    params = fn["thir"]["params"]
    key = ("self", "jit")
    selfv = ev.sym_for("self", "jit::JitCompiler")
    st = symex.St().set(key, selfv)
    args = [("ref", ("pv", key)), ("obj", "JITMEM", "&mut jit::JitMemory"), ("obj", "PROG", "&[u8]"),
            T.K(1, int(use_mbuff)), T.K(1, int(update_data_ptr)), ("obj", "HELPERS", "&HashMap")]
    outs = ev.run_fn(jm.fn, args, st) or []
    # the per-instruction loop is the loop that contains the opcode match; any other loop the evaluator had to
    # summarise (one whose trip count depends on the program) makes the frame unknown, not empty
    main_line = None
    try:
        mnode = jm.lm.match.node
        for n_ in walk(fn["thir"]["body"]):
            if n_.get("k") == "loop" and any(x is mnode for x in walk(n_)):
                main_line = n_.get("line")
    except Exception:
        main_line = None
    res = []
    for v, s in outs:
        pro, epi, seen_loop, pending = [], [], False, None
        other_loops = []
        for e in s.effects:
            if e[0] == "loop":
                if main_line is None or e[1] == main_line:
                    seen_loop = True
                else:
                    other_loops.append(e[1])
            elif e[0] == "emit":
                t = jm.canon(e[2])
                tag = None
                if pending is not None and e[1] == 32 and t == T.K(32, 0):
                    tag, pending = ("reloc", pending), None
                (epi if seen_loop else pro).append((e[1], t, tag))
            elif e[0] == "call" and isinstance(e[1], str) and e[1].endswith("Vec<T, A>::push"):
                val = e[2][1]
                if isinstance(val, tuple) and val and val[0] == "struct" and val[1].endswith("Jump"):
                    pending = jm.canon(symex.sfield(val, "target_pc"))
        ok = isinstance(v, tuple) and v and v[0] == "struct" and v[2] == "Ok"
        res.append({"conds": [jm.canon(c) for c in s.conds], "prologue": pro, "epilogue": epi, "ok": ok and not other_loops,
                    "unrec": [u for u in s.unrec if "field write" not in u] + ["a loop outside the per-instruction loop whose trip count depends on the program (%s)" % l for l in other_loops]})
    return res
