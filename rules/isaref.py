"""ISA reference semantics per opcode, as path summaries in the canonical term vocabulary
(REG[...] register file, dst/src/off/imm/next.imm instruction fields, pc = index of the current
instruction).  Written from the eBPF instruction-set specification and the property statements;
independent of rbpf's source."""
import isa
import terms as T

REG = ("obj", "REG", "[u64; 11]")
PC = ("v", "pc", 64)
IMM = ("v", "imm", 32)
OFF = ("v", "off", 16)
NEXT_IMM = ("v", "next.imm", 32)
MEM = ("call", "as_ptr", (("obj", "MEM", "&[u8]"),), 64)


def reg(i):
    return ("sel", REG, i, 64)


DSTI = T.zext(64, ("v", "dst", 8))
SRCI = T.zext(64, ("v", "src", 8))
DST, SRC = reg(DSTI), reg(SRCI)
NEXT = T.op("add", 64, PC, T.K(64, 1))
R = [reg(T.K(64, i)) for i in range(11)]


def inb(addr, nbytes):
    return ("inbounds", addr, nbytes)


def path(conds=(), regs=None, pc=NEXT, stores=(), atomics=(), exit=None, calls=()):
    return {"conds": frozenset(conds), "regs": dict(regs or {}), "pc": pc, "stores": list(stores),
            "atomics": list(atomics), "exit": exit, "calls": list(calls)}


ALU = {"add": "add", "sub": "sub", "mul": "mul", "or": "or", "and": "and", "xor": "xor"}
CMP = {"jeq": "eq", "jne": "ne", "jgt": "ugt", "jge": "uge", "jlt": "ult", "jle": "ule",
       "jsgt": "sgt", "jsge": "sge", "jslt": "slt", "jsle": "sle"}


def branch_target(field=OFF):
    return T.op("add", 64, NEXT, T.sext(64, field))


def reference(v, imm_sext_in_unsigned_cmp=True):
    """list of reference paths for opcode v (None if the opcode's semantics are decided elsewhere)"""
    d = isa.TABLE.get(v)
    if d is None:
        return None
    k = d["kind"]
    if k == "alu":
        w = d["width"]
        if w == 64:
            a, b = DST, (T.sext(64, IMM) if d["src"] == "K" else SRC)
            wrap = lambda x: x
            zero = T.cmp("eq", 32, IMM, T.K(32, 0)) if d["src"] == "K" else T.cmp("eq", 64, SRC, T.K(64, 0))
        else:
            a, b = T.trunc(32, DST), (IMM if d["src"] == "K" else T.trunc(32, SRC))
            wrap = lambda x: T.zext(64, x)
            zero = T.cmp("eq", 32, b, T.K(32, 0))
        op = d["op"]
        if op in ALU:
            return [path(regs={DSTI: wrap(T.op(ALU[op], w, a, b))})]
        if op in ("lsh", "rsh", "arsh"):
            return [path(regs={DSTI: wrap(T.shift({"lsh": "shl", "rsh": "lshr", "arsh": "ashr"}[op], w, a, b))})]
        if op == "mov":
            return [path(regs={DSTI: wrap(b)})]
        if op == "div":
            return [path(conds=[zero], regs={DSTI: T.K(64, 0)}),
                    path(conds=[T.lnot(zero)], regs={DSTI: wrap(T.op("udiv", w, a, b))})]
        if op == "mod":
            return [path(conds=[zero]),
                    path(conds=[T.lnot(zero)], regs={DSTI: wrap(T.op("urem", w, a, b))})]
        return None
    if k == "neg":
        w = d["width"]
        return [path(regs={DSTI: T.neg(64, DST) if w == 64 else T.zext(64, T.neg(32, T.trunc(32, DST)))})]
    if k == "end":
        out = []
        for bits in (16, 32, 64):
            x = DST if bits == 64 else T.trunc(bits, DST)
            if d["op"] == "be":
                x = T.bswap(bits, x)
            out.append(path(conds=[T.cmp("eq", 32, IMM, T.K(32, bits))], regs={DSTI: x if bits == 64 else T.zext(64, x)}))
        return out
    if k == "lddw":
        val = T.op("or", 64, T.zext(64, IMM), T.shift("shl", 64, T.zext(64, NEXT_IMM), T.K(64, 32)))
        return [path(regs={DSTI: val}, pc=T.op("add", 64, PC, T.K(64, 2)))]
    if k == "ja":
        return [path(pc=branch_target())]
    if k == "jcond":
        w = d["width"]
        if w == 64:
            a = DST
            if d["src"] == "X":
                b = SRC
            else:
                signed_op = d["op"] in ("jsgt", "jsge", "jslt", "jsle", "jset")
                b = T.sext(64, IMM) if (imm_sext_in_unsigned_cmp or signed_op) else T.zext(64, IMM)
        else:
            a, b = T.trunc(32, DST), (IMM if d["src"] == "K" else T.trunc(32, SRC))
        if d["op"] == "jset":
            c = T.nz(T.op("and", w, a, b))
        else:
            c = T.cmp(CMP[d["op"]], w, a, b)
        return [path(conds=[c], pc=branch_target()), path(conds=[T.lnot(c)])]
    if k in ("ldx", "ldabs", "ldind"):
        nb = d["size"]
        if k == "ldx":
            addr, tgt = T.op("add", 64, SRC, T.sext(64, OFF)), DSTI
        else:
            addr = T.op("add", 64, MEM, T.zext(64, IMM))
            if k == "ldind":
                addr = T.op("add", 64, addr, SRC)
            tgt = T.K(64, 0)
        val = ("load", nb * 8, addr)
        return [path(conds=[inb(addr, nb)], regs={tgt: T.zext(64, val) if nb < 8 else val}),
                path(conds=[T.lnot(inb(addr, nb))], exit=("err",))]
    if k in ("st", "stx"):
        nb = d["size"]
        addr = T.op("add", 64, DST, T.sext(64, OFF))
        val = T.sext(64, IMM) if k == "st" else SRC
        val = val if nb == 8 else T.trunc(nb * 8, val)
        return [path(conds=[inb(addr, nb)], stores=[(nb * 8, addr, val)]),
                path(conds=[T.lnot(inb(addr, nb))], exit=("err",))]
    if k == "xadd":
        nb = d["size"]
        addr = T.op("add", 64, DST, T.sext(64, OFF))
        val = SRC if nb == 8 else T.trunc(32, SRC)
        aligned = T.cmp("eq", 64, T.op("urem", 64, addr, T.K(64, nb)), T.K(64, 0))
        return [path(conds=[inb(addr, nb), aligned], atomics=[(nb * 8, addr, val)]),
                path(conds=[inb(addr, nb), T.lnot(aligned)], exit=("err",)),
                path(conds=[T.lnot(inb(addr, nb))], exit=("err",))]
    return None
