"""E1/E2 on MIR: CFG, dominators, call graph with resolved callees, closure and fn-pointer edges."""
from facts import norm_path


def place_str(p):
    s = "_%d" % p["l"]
    for e in p["p"]:
        if e == "deref":
            s = "(*%s)" % s
        elif isinstance(e, dict) and "f" in e:
            s += "." + e["f"]
        elif isinstance(e, dict) and "idx" in e:
            s += "[_%d]" % e["idx"]
        elif isinstance(e, dict) and "cidx" in e:
            s += "[%d]" % e["cidx"]
        elif isinstance(e, dict) and "downcast" in e:
            s += " as " + e["downcast"]
        else:
            s += "{%s}" % (e,)
    return s


def op_place(o):
    if "copy" in o:
        return o["copy"]
    if "move" in o:
        return o["move"]
    return None


def op_const(o):
    c = o.get("const")
    if c is not None and "v" in c:
        return c["v"]
    return None


def op_str(o):
    p = op_place(o)
    if p is not None:
        return place_str(p)
    if "const" in o:
        c = o["const"]
        return "const %s:%s" % (c.get("v", c.get("path", c.get("dbg"))), c["ty"])
    if "fn" in o:
        return "fn " + o["fn"]["path"]
    return str(o)


def callee_name(t):
    """Resolved callee of a MIR call terminator, or None for indirect calls."""
    c = t.get("callee")
    if not c:
        return None
    return norm_path(c.get("resolved") or c["path"])


class Body:
    def __init__(self, fn):
        self.fn = fn
        m = fn["mir"]
        self.blocks = m["blocks"]
        self.locals = m["locals"]
        self.argc = m["argc"]
        n = len(self.blocks)
        self.succ = [[] for _ in range(n)]
        self.pred = [[] for _ in range(n)]
        for i, b in enumerate(self.blocks):
            for s in self._succs(b["term"]):
                if s is not None:
                    self.succ[i].append(s)
                    self.pred[s].append(i)
        self._dom = None

    @staticmethod
    def _succs(t):
        k = t["k"]
        if k == "goto":
            return [t["target"]]
        if k == "switch":
            return list(dict.fromkeys(t["targets"] + [t["otherwise"]]))
        if k in ("call", "drop", "assert"):
            return [t.get("target")]  # unwind edges are ignored: they end in resume
        return []

    def reachable(self, start=0):
        seen = {start}
        st = [start]
        while st:
            x = st.pop()
            for s in self.succ[x]:
                if s not in seen:
                    seen.add(s)
                    st.append(s)
        return seen

    def dominators(self):
        """idom-free classic iterative dominator sets (bodies here have < 1000 blocks)."""
        if self._dom is not None:
            return self._dom
        n = len(self.blocks)
        reach = self.reachable()
        order = self.rpo()
        dom = {b: None for b in reach}
        dom[0] = {0}
        changed = True
        while changed:
            changed = False
            for b in order:
                if b == 0:
                    continue
                ps = [dom[p] for p in self.pred[b] if p in reach and dom.get(p) is not None]
                if not ps:
                    continue
                new = set.intersection(*ps) | {b}
                if new != dom[b]:
                    dom[b] = new
                    changed = True
        self._dom = dom
        return dom

    def rpo(self):
        seen = set()
        out = []
        st = [(0, iter(self.succ[0]))]
        seen.add(0)
        while st:
            b, it = st[-1]
            adv = False
            for s in it:
                if s not in seen:
                    seen.add(s)
                    st.append((s, iter(self.succ[s])))
                    adv = True
                    break
            if not adv:
                out.append(b)
                st.pop()
        out.reverse()
        return out

    def dominates(self, a, b):
        d = self.dominators().get(b)
        return d is not None and a in d

    def calls(self):
        """[(block index, terminator)] for call terminators in reachable non-cleanup blocks."""
        reach = self.reachable()
        return [(i, b["term"]) for i, b in enumerate(self.blocks)
                if i in reach and b["term"]["k"] == "call"]

    def local_ty(self, l):
        return self.locals[l]["ty"]


class CallGraph:
    """Call edges between local functions.  Closures created in a body and fn items coerced to
    fn pointers in a body count as referenced from that body (their call may happen inside a
    dependency, e.g. combine's `map`)."""

    def __init__(self, facts):
        self.facts = facts
        self.edges = {}       # fn -> set(local callee paths)
        self.ext = {}         # fn -> set(external callee paths)
        self.indirect = {}    # fn -> list of fn-pointer types called indirectly
        self.reified = {}     # fn pointer type string -> set(local fn paths coerced to it)
        self.bodies = {}
        for path, f in facts.fns.items():
            if not f.get("mir"):
                continue
            b = Body(f)
            self.bodies[path] = b
            loc, ext, ind = set(), set(), []
            reach = b.reachable()
            for i in reach:
                blk = b.blocks[i]
                for s in blk["stmts"]:
                    if s["k"] != "assign":
                        continue
                    r = s["r"]
                    if r["k"] == "agg" and r.get("ak") == "closure":
                        loc.add(norm_path(r["path"]))
                    if r["k"] == "cast" and r["ck"].startswith("PointerCoercion") and "fn" in r["o"]:
                        tgt = norm_path(r["o"]["fn"].get("resolved") or r["o"]["fn"]["path"])
                        if r["o"]["fn"].get("local"):
                            loc.add(tgt)
                            self.reified.setdefault(r["to"], set()).add(tgt)
                    for o in _operands(r):
                        if "fn" in o and o["fn"].get("local"):
                            # fn item passed by value (e.g. `.map(Operand::Register)` or `.map(f)`)
                            if o["fn"].get("defkind") in ("Fn", "AssocFn"):
                                loc.add(norm_path(o["fn"].get("resolved") or o["fn"]["path"]))
                t = blk["term"]
                if t["k"] == "call":
                    c = t.get("callee")
                    if c is None:
                        ind.append(t.get("fty"))
                    else:
                        name = callee_name(t)
                        if c.get("resolved_local") or (c.get("local") and "resolved" not in c):
                            loc.add(name)
                        else:
                            ext.add(name)
                        if c.get("closure_self"):
                            loc.add(norm_path(c["closure_self"]))
                    for a in t["args"]:
                        if "fn" in a and a["fn"].get("local") and a["fn"].get("defkind") in ("Fn", "AssocFn"):
                            loc.add(norm_path(a["fn"].get("resolved") or a["fn"]["path"]))
            self.edges[path] = {x for x in loc if x in facts.fns}
            self.ext[path] = ext
            self.indirect[path] = ind

    def reach(self, roots, follow_indirect=True):
        seen = set()
        st = [r for r in roots if r in self.edges]
        while st:
            f = st.pop()
            if f in seen:
                continue
            seen.add(f)
            for g in self.edges.get(f, ()):
                if g not in seen:
                    st.append(g)
            if follow_indirect:
                for fty in self.indirect.get(f, ()):
                    for g in self.reified.get(fty, ()):
                        if g not in seen:
                            st.append(g)
        return seen


def _operands(r):
    k = r["k"]
    if k in ("use", "cast", "repeat"):
        return [r["o"]]
    if k == "bin":
        return [r["a"], r["b"]]
    if k == "un":
        return [r["a"]]
    if k == "agg":
        return r["ops"]
    return []
