"""E4: opcode dispatch tables and structural role resolution.

Roles are found from the public API (paths the repository's own tests pin), never from internal
names: e.g. "the function reachable from EbpfVmMbuff::execute_program that contains a match on a
u8 with >= 100 constant arms" is the interpreter."""
from facts import walk, strip, pat_consts, callee_path, norm_path


class OpMatch:
    def __init__(self, fn_path, node):
        self.fn = fn_path
        self.node = node
        self.scrut = strip(node["scrut"])
        self.arms = []
        for i, a in enumerate(node["arms"]):
            pc = pat_consts(a["pat"])
            self.arms.append({"i": i, "consts": pc, "guard": a["guard"], "body": a["body"], "line": a["line"],
                              "pat": a["pat"]})

    def arms_for(self, v):
        """arms that can match value v, in order, up to and including the first unguarded hit"""
        out = []
        for a in self.arms:
            pc = a["consts"]
            if pc is None:
                out.append(a)      # unknown pattern: conservatively a candidate
                continue
            if pc == ("wild",) or v in pc:
                out.append(a)
                if a["guard"] is None:
                    break
        return out

    def handled(self):
        """values with at least one non-wildcard arm"""
        s = set()
        for a in self.arms:
            if isinstance(a["consts"], set):
                s |= a["consts"]
        return s

    def wildcard(self):
        for a in self.arms:
            if a["consts"] == ("wild",) and a["guard"] is None:
                return a
        return None


def opcode_matches(fn, min_arms=40):
    """all `match <expr>.opc`-like matches on a u8 scrutinee with at least min_arms constant values"""
    out = []
    thir = fn.get("thir")
    if not thir:
        return out
    for n in walk(thir["body"]):
        if n.get("k") == "match" and strip(n["scrut"]).get("ty") == "u8":
            m = OpMatch(fn["path"], n)
            if len(m.handled()) >= min_arms:
                out.append(m)
    return out


def thir_local_callees(facts, fn):
    """local functions / closures referenced by calls or closure expressions in a THIR body"""
    out = set()
    thir = fn.get("thir")
    if not thir:
        return out
    for n in walk(thir["body"]):
        k = n.get("k")
        if k == "call":
            p = callee_path(n)
            if p in facts.fns:
                out.add(p)
        elif k == "closure":
            p = norm_path(n["path"])
            if p in facts.fns:
                out.add(p)
        elif k == "fn":
            p = norm_path(n.get("resolved") or n["path"])
            if p in facts.fns:
                out.add(p)
    return out


def thir_reach(facts, roots):
    seen = set()
    st = [r for r in roots if r in facts.fns]
    while st:
        f = st.pop()
        if f in seen:
            continue
        seen.add(f)
        for g in thir_local_callees(facts, facts.fns[f]):
            if g not in seen:
                st.append(g)
    return seen


class Roles:
    """Resolves roles; each accessor returns a function path or reports a lost anchor."""

    def __init__(self, facts, rep):
        self.f = facts
        self.rep = rep
        self._cache = {}

    def _one(self, role, cands):
        cands = sorted(set(cands))
        if len(cands) != 1:
            self.rep.lost_anchor(role, cands)
            return None
        return cands[0]

    def api(self, path):
        if path not in self.f.fns:
            self.rep.lost_anchor("api:" + path, [])
            return None
        return path

    def big_match_fn(self, role, root, min_arms=60):
        if role in self._cache:
            return self._cache[role]
        if self.api(root) is None:
            return None
        cands = [p for p in thir_reach(self.f, [root])
                 if opcode_matches(self.f.fns[p], min_arms)]
        r = self._one(role, cands)
        self._cache[role] = r
        return r

    def interpreter(self):
        return self.big_match_fn("interpreter", "EbpfVmMbuff::execute_program")

    def jit(self):
        return self.big_match_fn("jit-codegen", "EbpfVmMbuff::jit_compile")

    def cranelift_translate(self):
        return self.big_match_fn("cranelift-translate", "EbpfVmMbuff::cranelift_compile")

    def cranelift_cfg(self):
        """the other function with an opcode match reachable from cranelift_compile (the CFG pass)"""
        role = "cranelift-cfg"
        if role in self._cache:
            return self._cache[role]
        tr = self.cranelift_translate()
        cands = [p for p in thir_reach(self.f, ["EbpfVmMbuff::cranelift_compile"])
                 if p != tr and opcode_matches(self.f.fns[p], 30)]
        r = self._one(role, cands)
        self._cache[role] = r
        return r

    def verifier(self):
        """the local fn coerced to a fn pointer in EbpfVmMbuff::new (the default verifier)"""
        role = "verifier"
        if role in self._cache:
            return self._cache[role]
        fn = self.f.fns.get("EbpfVmMbuff::new")
        cands = []
        if fn and fn.get("thir"):
            for n in walk(fn["thir"]["body"]):
                if n.get("k") == "coerce" and "ReifyFnPointer" in n.get("kind", ""):
                    e = strip(n["e"])
                    if e.get("k") == "fn":
                        cands.append(norm_path(e.get("resolved") or e["path"]))
        cands = [c for c in cands if c in self.f.fns and opcode_matches(self.f.fns[c], 60)]
        r = self._one(role, cands)
        self._cache[role] = r
        return r

    def bounds_check(self):
        """the non-closure local fn returning Result<(), Error> reachable from the interpreter that is
        called (through closures) to guard raw accesses: takes (u64, usize, ...)"""
        role = "bounds-check"
        if role in self._cache:
            return self._cache[role]
        it = self.interpreter()
        if it is None:
            return None
        cands = []
        for p in thir_reach(self.f, [it]):
            fn = self.f.fns[p]
            if fn.get("kind") in ("Fn", "AssocFn") and p != it:
                ps = fn.get("params") or []
                if len(ps) >= 2 and ps[0] == "u64" and ps[1] == "usize" and "Result<()" in (fn.get("ret") or ""):
                    cands.append(p)
        r = self._one(role, cands)
        self._cache[role] = r
        return r
