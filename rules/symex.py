"""E5 abstract evaluator over typed THIR: maps an expression (typically one match arm, a guard, a
small function) to a set of paths, each with its path condition, its effects (memory stores,
opaque calls, possible panics) and the final environment, all expressed as bit-vector terms
(terms.py).  Local functions and closures are inlined on demand; external functions have small
semantic models; anything else becomes an `opaque` term and is recorded in `unrec` so that the
calling rule can report `unrecognised-construct` instead of guessing."""
import re

import terms as T
from facts import norm_path, strip as strip_node

MAX_PATHS = 256


class St:
    """one symbolic path"""
    __slots__ = ("env", "conds", "effects", "exit", "unrec", "depth")

    def __init__(self, env=None, conds=(), effects=(), exit=None, unrec=(), depth=0):
        self.env = env if env is not None else {}
        self.conds, self.effects, self.exit, self.unrec, self.depth = conds, effects, exit, unrec, depth

    def fork(self, **kw):
        s = St(self.env, self.conds, self.effects, self.exit, self.unrec, self.depth)
        for k, v in kw.items():
            setattr(s, k, v)
        return s

    def set(self, key, val):
        e = dict(self.env)
        e[key] = val
        return self.fork(env=e)

    def assume(self, c):
        if c == T.TRUE:
            return self
        if c != T.FALSE and isinstance(c, tuple) and c and c[0] in ("cmp", "not", "call") and T.lnot(c) in self.conds:
            return self.fork(conds=self.conds + (c, T.FALSE))      # c and not(c): the path is infeasible
        return self.fork(conds=self.conds + (c,))

    def effect(self, e):
        return self.fork(effects=self.effects + (e,))

    def note(self, what):
        return self.fork(unrec=self.unrec + (what,))

    @property
    def feasible(self):
        return T.FALSE not in self.conds


UNIT = ("unit",)


def is_bv(t):
    return isinstance(t, tuple) and t and t[0] in (
        "k", "v", "zext", "sext", "trunc", "op", "sh", "neg", "bnot", "bswap", "cmp", "not", "land", "lor",
        "ite", "load", "sel", "amt") or (isinstance(t, tuple) and t and t[0] in ("call", "opaque") and t[-1 if t[0] == "call" else 2] not in (0, None) and _w(t) > 0)


def _w(t):
    try:
        return T.width(t)
    except Exception:
        return 0


def struct(path, variant, fields):
    return ("struct", path, variant, tuple(fields))


def sfield(s, name):
    for k, v in s[3]:
        if k == name:
            return v
    return None


def some(v):
    return struct("core::option::Option", "Some", (("0", v),))


NONE = struct("core::option::Option", "None", ())


def ok(v):
    return struct("core::result::Result", "Ok", (("0", v),))


def err(v):
    return struct("core::result::Result", "Err", (("0", v),))


class Evaluator:
    def __init__(self, facts, inline=None, max_depth=6, opaque_calls=None, models=None, macro_hooks=None):
        """inline(path) -> bool: which local functions are inlined (default: all).  opaque_calls(path)
        -> bool: local/external functions recorded as effects without evaluation."""
        self.F = facts
        self.inline_pred = inline or (lambda p: True)
        self.opaque_calls = opaque_calls or (lambda p: False)
        self.max_depth = max_depth
        self.seq = 0
        self.models = models or {}
        self.macro_hooks = macro_hooks or {}
        self.varnames = {}
        self.unroll = False

    # ------------------------------------------------------------------ helpers
    def fresh(self):
        self.seq += 1
        return self.seq

    def bits(self, ty):
        i = T.ty_info(ty or "")
        return i[0] if i else 0

    def sym_for(self, name, ty):
        """symbolic value of type ty named `name`"""
        i = T.ty_info(ty)
        if i:
            return T.V(name, i[0])
        m = re.match(r"^\((.*)\)$", ty or "")
        if ty == "()":
            return UNIT
        base = re.sub(r"<.*>$", "", ty or "")
        adt = self.F.adts.get(norm_path(base))
        if adt and adt["kind"] == "struct" and not ty.startswith("&"):
            return struct(norm_path(base), adt["variants"][0]["name"],
                          [(f["name"], self.sym_for("%s.%s" % (name, f["name"]), f["ty"]))
                           for f in adt["variants"][0]["fields"]])
        return ("obj", name, ty)

    # ------------------------------------------------------------------ entry points
    def run_fn(self, path, args, st=None, depth=0):
        fn = self.F.fns.get(path)
        if fn is None or not fn.get("thir"):
            return None
        st = st or St()
        th = fn["thir"]
        params = th["params"]
        if fn.get("kind") == "Closure":
            params = params[1:] if params and params[0]["pat"] is None else params
        if len(params) != len(args):
            # closures: first THIR param is the environment
            if len(params) == len(args) + 1:
                params = params[1:]
            else:
                return None
        for p, a in zip(params, args):
            if p["pat"] is None:
                continue
            r = self.bind_pat(p["pat"], a, st, path)
            if r is None:
                return None
            c, st = r
            st = st.assume(c)
        outs = []
        for v, s in self.ev(th["body"], st.fork(depth=depth), path):
            if s.exit and s.exit[0] == "ret":
                v, s = s.exit[1], s.fork(exit=None)
            outs.append((v, s))
        return outs

    # ------------------------------------------------------------------ expression evaluation
    def ev(self, n, st, fp):
        """-> list of (value, state); states with st.exit set carry a pending non-local exit"""
        if st.exit is not None or not st.feasible:
            return [(UNIT, st)] if st.feasible else []
        if n is None:
            return [(UNIT, st)]
        k = n.get("k")
        m = getattr(self, "ev_" + k, None)
        if m is None:
            return [(("opaque", "expr:" + str(k), self.bits(n.get("ty"))), st.note("expr kind %s at %s" % (k, n.get("line"))))]
        out = m(n, st, fp)
        if len(out) > MAX_PATHS:
            out = out[:MAX_PATHS]
            out = [(v, s.note("path explosion")) for v, s in out]
        return out

    def seq_ev(self, nodes, st, fp):
        """evaluate nodes left to right -> list of ([values], state)"""
        acc = [([], st)]
        for n in nodes:
            nxt = []
            for vals, s in acc:
                if s.exit is not None:
                    nxt.append((vals + [UNIT], s))
                    continue
                for v, s2 in self.ev(n, s, fp):
                    nxt.append((vals + [v], s2))
            acc = nxt
        return acc

    def ev_never(self, n, st, fp):
        return self.ev(n["e"], st, fp)

    def ev_lit(self, n, st, fp):
        ty = n["ty"]
        v = n["v"]
        i = T.ty_info(ty)
        if i and isinstance(v, (int, bool)):
            return [(T.K(i[0], int(v)), st)]
        if n.get("lk") == "char" and isinstance(v, str) and v:
            return [(T.K(32, ord(v[0])), st)]
        return [(("lit", v if isinstance(v, (str, int, bool)) else str(v)), st)]

    def ev_const(self, n, st, fp):
        p = norm_path(n["path"])
        v = self.F.const(p)
        i = T.ty_info(n["ty"])
        m = re.match(r"^core::num::<impl ([iu](?:8|16|32|64|128|size))>::(MAX|MIN|BITS)$", p)
        if v is None and m:
            w, sg = T.ty_info(m.group(1))
            v = {"MAX": (1 << (w - 1)) - 1 if sg else (1 << w) - 1, "MIN": -(1 << (w - 1)) if sg else 0, "BITS": w}[m.group(2)]
        if isinstance(v, bool):
            v = int(v)
        if i and isinstance(v, int):
            return [(T.K(i[0], v), st)]
        if isinstance(v, list):
            m = re.match(r"^\[(\w+); ", n["ty"])
            w = self.bits(m.group(1)) if m else 8
            return [(("array", tuple(T.K(w, x) for x in v)), st)]
        # a constant whose value is not a plain integer / integer array (tables of strings, struct constants):
        # evaluate its initialiser expression
        c = (self.F.consts or {}).get(p) if hasattr(self.F, "consts") else None
        th = c.get("thir") if isinstance(c, dict) else None
        if th and th.get("body") and getattr(self, "_const_depth", 0) < 4:
            self._const_depth = getattr(self, "_const_depth", 0) + 1
            try:
                outs = self.ev(th["body"], St(), "const:" + p)
            finally:
                self._const_depth -= 1
            outs = [(v, s2) for v, s2 in outs if s2.feasible and s2.exit is None and not s2.unrec]
            if len(outs) == 1 and isinstance(outs[0][0], tuple) and outs[0][0] and outs[0][0][0] in ("array", "struct", "lit", "tuple"):
                return [(outs[0][0], st)]
        return [(("obj", "const:" + p, n["ty"]), st)]

    def ev_zst(self, n, st, fp):
        return [(UNIT, st)]

    def ev_fn(self, n, st, fp):
        return [(("fnitem", norm_path(n.get("resolved") or n["path"]), tuple(n.get("generics") or ()), n.get("defkind")), st)]

    def ev_closure(self, n, st, fp):
        return [(("clo", norm_path(n["path"])), st)]

    def ev_static(self, n, st, fp):
        return [(("obj", "static:" + norm_path(n["path"]), n["ty"]), st)]

    def lookup_name(self, st, name):
        """value of the innermost live binding called `name` (used by the format! model)"""
        best = None
        for key, nm in self.varnames.items():
            if nm == name and key in st.env and (best is None or key[1] > best[1]):
                best = key
        return st.env.get(best) if best else None

    def ev_var(self, n, st, fp):
        key = (self.owner_of(fp), n["id"])
        self.varnames[key] = n["name"]
        if key in st.env:
            return [(st.env[key], st)]
        # a variable never bound by this evaluation: free symbol (e.g. outer loop state)
        val = self.sym_for(n["name"], n["ty"])
        return [(val, st.set(key, val))]

    ev_upvar = ev_var

    def owner_of(self, fp):
        """variables of a closure's parent are keyed by the root function"""
        fn = self.F.fns.get(fp)
        seen = 0
        while fn is not None and fn.get("kind") == "Closure" and seen < 5:
            fp = norm_path(fn["parent"])
            fn = self.F.fns.get(fp)
            seen += 1
        return fp

    def ev_tuple(self, n, st, fp):
        return [(struct("tuple", "", [(str(i), v) for i, v in enumerate(vals)]) if vals else UNIT, s)
                for vals, s in self.seq_ev(n["es"], st, fp)]

    def ev_array(self, n, st, fp):
        return [(("array", tuple(vals)), s) for vals, s in self.seq_ev(n["es"], st, fp)]

    def ev_repeat(self, n, st, fp):
        out = []
        for v, s in self.ev(n["e"], st, fp):
            m = re.match(r"^\[.*; *(\d+)\]$", n["ty"])
            cnt = int(m.group(1)) if m else None
            if cnt is not None and cnt <= 64:
                out.append((("array", tuple([v] * cnt)), s))
            else:
                out.append((("obj", "repeat#%d" % self.fresh(), n["ty"]), s))
        return out

    def ev_adt(self, n, st, fp):
        names = list(n["fields"].keys())
        out = []
        for vals, s in self.seq_ev([n["fields"][k] for k in names], st, fp):
            out.append((struct(norm_path(n["path"]), n["variant"], list(zip(names, vals))), s))
        return out

    def ev_block(self, n, st, fp):
        if self.macro_hooks and n.get("mac"):
            for mname in n["mac"]:
                h = self.macro_hooks.get(mname)
                if h is not None:
                    r = h(self, n, st, fp)
                    if r is not None:
                        return r
        acc = [st]
        for stmt in n["stmts"]:
            nxt = []
            for s in acc:
                if s.exit is not None:
                    nxt.append(s)
                    continue
                if stmt["k"] == "expr":
                    nxt.extend(s2 for _, s2 in self.ev(stmt["e"], s, fp))
                else:
                    if stmt.get("init") is None:
                        nxt.append(s)
                        continue
                    for v, s2 in self.ev(stmt["init"], s, fp):
                        if s2.exit is not None:
                            nxt.append(s2)
                            continue
                        r = self.bind_pat(stmt["pat"], v, s2, fp)
                        if r is None:
                            nxt.append(s2.note("let pattern at %s" % stmt.get("line")))
                            continue
                        c, s3 = r
                        if c == T.TRUE or stmt.get("else") is None:
                            nxt.append(s3.assume(c) if c != T.TRUE else s3)
                        else:
                            nxt.append(s3.assume(c))
                            els = s2.assume(T.lnot(c))
                            eb = stmt["else"]
                            fake = {"k": "block", "stmts": eb["stmts"], "tail": eb.get("tail"), "ty": "!"}
                            nxt.extend(s4 for _, s4 in self.ev(fake, els, fp))
            acc = nxt
        out = []
        for s in acc:
            if s.exit is not None or n.get("tail") is None:
                out.append((UNIT, s))
            else:
                out.extend(self.ev(n["tail"], s, fp))
        return out

    def ev_ret(self, n, st, fp):
        if n.get("e") is None:
            return [(UNIT, st.fork(exit=("ret", UNIT)))]
        return [(v, s if s.exit is not None else s.fork(exit=("ret", v))) for v, s in self.ev(n["e"], st, fp)]

    def ev_break(self, n, st, fp):
        # `break value`: the value travels with the exit (consumers that only test exit[0] are unaffected)
        val = n.get("e") or n.get("value")
        if isinstance(val, dict):
            return [(UNIT, s2.fork(exit=("break", v))) if s2.exit is None else (UNIT, s2) for v, s2 in self.ev(val, st, fp)]
        return [(UNIT, st.fork(exit=("break",)))]

    def ev_continue(self, n, st, fp):
        return [(UNIT, st.fork(exit=("continue",)))]

    def ev_loop(self, n, st, fp):
        """loops are not unrolled: variables assigned in the body become fresh symbols and the loop
        is recorded as an effect (callers that care evaluate the body separately)"""
        from facts import walk
        if self.unroll or self._over_concrete_iterator(n, st, fp):
            # concretely evaluable loops (iteration over constant containers): explore every path,
            # forking where the body forks, up to a bound; otherwise fall through to the summary
            done, work, evals, ok = [], [(st, 0)], 0, True
            while work and ok:
                cur, depth = work.pop()
                evals += 1
                if evals > 300 or depth > 64:
                    ok = False
                    break
                outs = [(v, s2) for v, s2 in self.ev(n["body"], cur, fp) if s2.feasible]
                if not outs:
                    ok = False
                    break
                goes = any(s2.exit is None or s2.exit[0] == "continue" for _v, s2 in outs)
                stops = any(s2.exit is not None and s2.exit[0] == "break" for _v, s2 in outs)
                if goes and stops:
                    ok = False          # the loop control itself is symbolic (e.g. an iterator we have no model for)
                    break
                for _v, s2 in outs:
                    if s2.exit is None or s2.exit[0] == "continue":
                        work.append((s2.fork(exit=None), depth + 1))
                    elif s2.exit[0] == "break":
                        done.append((s2.exit[1] if len(s2.exit) > 1 else UNIT, s2.fork(exit=None)))
                    else:
                        done.append((UNIT, s2))          # return / panic inside the loop
            if ok and done:
                return done
            # not a concretely evaluable loop: fall through to the summary
        owner = self.owner_of(fp)
        for x in walk(n["body"]):
            if x.get("k") in ("assign", "assignop"):
                l = strip_node(x["l"])
                while l.get("k") in ("field", "index", "deref"):
                    l = strip_node(l["e"])
                if l.get("k") in ("var", "upvar"):
                    key = (owner, l["id"])
                    cur = st.env.get(key)
                    w = _w(cur) if isinstance(cur, tuple) and cur else self.bits(l.get("ty"))
                    st = st.set(key, T.V(l["name"] + "'", w) if w else ("obj", l["name"] + "'", l.get("ty")))
        return [(UNIT, st.effect(("loop", n.get("line"))))]

    def _over_concrete_iterator(self, n, st, fp):
        """is this the loop of a desugared `for` whose iterator currently holds a concrete sequence (a constant range,
        a literal array)?  Those are unrolled in every mode: their trip count is a constant of the source."""
        from facts import walk, callee_path
        owner = self.owner_of(fp)
        for c in walk(n["body"]):
            if c.get("k") == "call" and re.search(r"(iter::Iterator>?::next|Iterator for [^ ]*>::next|DoubleEndedIterator>?::next_back)$", callee_path(c) or ""):
                for x in walk(c.get("args") or []):
                    if x.get("k") in ("var", "upvar"):
                        v = st.env.get((owner, x.get("id")))
                        if isinstance(v, tuple) and v and v[0] == "ref":
                            try:
                                v = self.read_place(v[1], st)
                            except Exception:
                                v = None
                        if isinstance(v, tuple) and v and v[0] == "iterc" and len(v[1]) <= 64:
                            return True
                return False
        return False

    # ---------------------------------------------------------------- conditions
    def ev_cond(self, n, st, fp):
        """-> list of (condition term, state carrying the bindings of `let` conditions)"""
        n = strip_node(n)
        if n.get("k") == "let":
            out = []
            for v, s in self.ev(n["e"], st, fp):
                r = self.bind_pat(n["pat"], v, s, fp)
                if r is None:
                    out.append((("opaque", "let-cond", 1), s.note("let condition at %s" % n.get("line"))))
                else:
                    out.append(r)
            return out
        if n.get("k") == "logic" and n["op"] == "And":
            out = []
            for c1, s1 in self.ev_cond(n["l"], st, fp):
                if c1 == T.FALSE:
                    out.append((T.FALSE, s1))
                    continue
                for c2, s2 in self.ev_cond(n["r"], s1, fp):
                    out.append((T.land(c1, c2), s2))
            return out
        out = []
        for v, s in self.ev(n, st, fp):
            out.append((self.as_cond(v), s))
        return out

    def as_cond(self, v):
        if isinstance(v, tuple) and v and v[0] == "exists":
            return v
        if isinstance(v, tuple) and v and _w(v) == 1:
            return v
        return ("opaque", "cond", 1)

    def ev_if(self, n, st, fp):
        out = []
        for c, s in self.ev_cond(n["c"], st, fp):
            if s.exit is not None:
                out.append((UNIT, s))
                continue
            if c != T.FALSE:
                out.extend(self.ev(n["t"], s.assume(c), fp))
            if c != T.TRUE:
                # bindings made by a failed `let` are not visible in the else branch
                s_else = st.fork(conds=s.conds, effects=s.effects, unrec=s.unrec).assume(T.lnot(c)) if False else \
                    s.assume(T.lnot(c))
                if n.get("e") is not None:
                    out.extend(self.ev(n["e"], s_else, fp))
                else:
                    out.append((UNIT, s_else))
        return [(v, s) for v, s in out if s.feasible]

    def ev_logic(self, n, st, fp):
        out = []
        for c1, s1 in self.ev_cond(n["l"], st, fp):
            if n["op"] == "And":
                if c1 == T.FALSE:
                    out.append((T.FALSE, s1))
                    continue
                for c2, s2 in self.ev_cond(n["r"], s1, fp):
                    out.append((T.land(c1, c2), s2))
            else:
                if c1 == T.TRUE:
                    out.append((T.TRUE, s1))
                    continue
                for c2, s2 in self.ev_cond(n["r"], s1, fp):
                    out.append((T.lor(c1, c2), s2))
        return out

    def ev_let(self, n, st, fp):
        return [(c, s) for c, s in self.ev_cond(n, st, fp)]

    def ev_match(self, n, st, fp):
        out = []
        for sv, s0 in self.ev(n["scrut"], st, fp):
            if s0.exit is not None:
                out.append((UNIT, s0))
                continue
            rest = s0
            done = False
            for arm in n["arms"]:
                r = self.bind_pat(arm["pat"], sv, rest, fp)
                if r is None:
                    out.append((("opaque", "match-pattern", self.bits(n.get("ty"))),
                                rest.note("pattern at %s" % arm.get("line"))))
                    done = True
                    break
                c, sb = r
                if c == T.FALSE:
                    continue
                if arm["guard"] is not None:
                    for g, sg in self.ev_cond(arm["guard"], sb.assume(c), fp):
                        if g != T.FALSE:
                            out.extend(self.ev(arm["body"], sg.assume(g), fp))
                    # continue with: not(c) or (c and not g)  -- guards here are pure
                    gs = [g for g, _ in self.ev_cond(arm["guard"], sb.assume(c), fp)]
                    g_all = gs[0] if len(gs) == 1 else ("opaque", "guard", 1)
                    if c == T.TRUE and g_all == T.TRUE:
                        done = True
                        break
                    rest = rest.assume(T.lnot(T.land(c, g_all)))
                    continue
                out.extend(self.ev(arm["body"], sb.assume(c), fp))
                if c == T.TRUE:
                    done = True
                    break
                rest = rest.assume(T.lnot(c))
                if not rest.feasible:
                    done = True
                    break
            if not done and rest.feasible:
                pass  # exhaustive matches always end with an arm whose condition folds to TRUE
        return [(v, s) for v, s in out if s.feasible]

    # ---------------------------------------------------------------- patterns
    def bind_pat(self, p, v, st, fp):
        """-> (condition term, state with bindings) or None when the pattern is outside the theory"""
        k = p["k"]
        if k == "wild":
            return T.TRUE, st
        if k == "bind":
            self.varnames[(self.owner_of(fp), p["id"])] = p["name"]
            st2 = st.set((self.owner_of(fp), p["id"]), v)
            if p.get("sub") is not None:
                return self.bind_pat(p["sub"], v, st2, fp)
            return T.TRUE, st2
        if k == "deref":
            return self.bind_pat(p["sub"], self.deref_val(v, st), st, fp)
        if k == "const":
            cv = p["v"]
            if isinstance(cv, str) and p.get("ty") == "str":
                m = re.match(r"^Branch\(\[(.*)\]\): str$", cv)     # valtree rendering of a string constant
                if m:
                    try:
                        cv = bytes(int(x.strip().split("_")[0]) for x in m.group(1).split(",") if x.strip()).decode()
                    except ValueError:
                        return None
            if isinstance(v, tuple) and _w(v) > 0 and isinstance(cv, (int, bool)):
                w = _w(v)
                return T.cmp("eq", w, v, T.K(w, int(cv))), st
            if isinstance(cv, str) and isinstance(v, tuple) and v and v[0] == "lit" and isinstance(v[1], str):
                return (T.TRUE if v[1] == cv else T.FALSE), st       # string literal pattern on a literal string
            if isinstance(cv, str) and isinstance(v, tuple) and _w(v) == 32 and len(cv) == 1:
                return T.cmp("eq", 32, v, T.K(32, ord(cv))), st
            return None
        if k == "range":
            if isinstance(v, tuple) and _w(v) > 0 and isinstance(p["lo"], int) and isinstance(p["hi"], int):
                w = _w(v)
                signed = (T.ty_info(p["ty"]) or (0, False))[1]
                lo = T.cmp("sle" if signed else "ule", w, T.K(w, p["lo"]), v)
                hi = T.cmp(("sle" if signed else "ule") if p["incl"] else ("slt" if signed else "ult"), w, v, T.K(w, p["hi"]))
                return T.land(lo, hi), st
            return None
        if k == "or":
            acc = T.FALSE
            binds = False
            for q in p["pats"]:
                r = self.bind_pat(q, v, st, fp)
                if r is None:
                    return None
                if r[0] == T.TRUE:
                    return r
                if r[1].env is not st.env and r[0] != T.FALSE:
                    binds = True
                acc = T.lor(acc, r[0])
            if binds and acc != T.FALSE:
                return None     # alternatives with bindings and a symbolic choice: outside the theory
            return acc, st
        if k == "leaf":
            cond = T.TRUE
            for sp in p["subs"]:
                fv = self.field_of(v, sp["field"], sp["pat"]["ty"])
                r = self.bind_pat(sp["pat"], fv, st, fp)
                if r is None:
                    return None
                cond = T.land(cond, r[0])
                st = r[1]
            return cond, st
        if k == "slice":
            # slice / array pattern: on a concrete sequence the length test folds and the elements are bound;
            # on a symbolic slice the length test is a condition on len and elements are selected by index
            pre, suf, rest = p["prefix"], p["suffix"], p.get("rest")
            need = len(pre) + len(suf)
            if isinstance(v, tuple) and v and v[0] == "array":
                items = v[1]
                if (rest is None and len(items) != need) or len(items) < need:
                    return T.FALSE, st
                cond = T.TRUE
                pairs = list(zip(pre, items[:len(pre)])) + (list(zip(suf, items[len(items) - len(suf):])) if suf else [])
                for q, x in pairs:
                    r = self.bind_pat(q, x, st, fp)
                    if r is None:
                        return None
                    cond = T.land(cond, r[0])
                    st = r[1]
                if rest is not None:
                    r = self.bind_pat(rest, ("array", tuple(items[len(pre):len(items) - len(suf)])), st, fp)
                    if r is None:
                        return None
                    cond = T.land(cond, r[0])
                    st = r[1]
                return cond, st
            if suf or (rest is not None and rest.get("k") != "wild"):
                return None
            elty = re.sub(r"^\[(.*?)(; .*)?\]$", r"\1", p.get("ty") or "")
            ln = ("call", "len", (v,), 64)
            cond = T.TRUE if p.get("fixed") else (T.cmp("eq", 64, ln, T.K(64, need)) if rest is None else T.cmp("ule", 64, T.K(64, need), ln))
            for i, q in enumerate(pre):
                r = self.bind_pat(q, self.index_of(v, T.K(64, i), q.get("ty") or elty), st, fp)
                if r is None:
                    return None
                cond = T.land(cond, r[0])
                st = r[1]
            return cond, st
        if k == "variant":
            adt, var = norm_path(p["adt"]), p["variant"]
            if isinstance(v, tuple) and v and v[0] == "struct":
                if v[2] != var:
                    return T.FALSE, st
                cond = T.TRUE
                for sp in p["subs"]:
                    fv = sfield(v, sp["field"])
                    if fv is None:
                        return None
                    r = self.bind_pat(sp["pat"], fv, st, fp)
                    if r is None:
                        return None
                    cond = T.land(cond, r[0])
                    st = r[1]
                return cond, st
            # symbolic enum value: 1-bit opaque discriminant test, symbolic payload
            cond = ("call", "is_" + var, (v,), 1)
            for sp in p["subs"]:
                fv = self.payload(v, var, sp["field"], sp["pat"]["ty"])
                r = self.bind_pat(sp["pat"], fv, st, fp)
                if r is None:
                    return None
                cond = T.land(cond, r[0])
                st = r[1]
            return cond, st
        return None

    def payload(self, v, var, field, ty):
        w = self.bits(ty)
        if w:
            return ("call", "payload:%s.%s" % (var, field), (v,), w)
        return ("obj", "payload(%s.%s)#%s" % (var, field, _short(v)), ty)

    # ---------------------------------------------------------------- places
    def ev_place(self, n, st, fp):
        """-> list of (place, state); place = ('pv', key) | ('pf', place, name, ty) | ('pi', place, idx, ty)
        | ('pd', pointer term, ty)"""
        n0 = n
        n = strip_node(n)
        k = n.get("k")
        if k in ("var", "upvar"):
            key = (self.owner_of(fp), n["id"])
            if key not in st.env:
                st = st.set(key, self.sym_for(n["name"], n["ty"]))
            return [(("pv", key), st)]
        if k == "field":
            return [(("pf", p, n["name"], n["ty"]), s) for p, s in self.ev_place(n["e"], st, fp)]
        if k == "index":
            out = []
            for p, s in self.ev_place(n["e"], st, fp):
                for i, s2 in self.ev(n["i"], s, fp):
                    out.append((("pi", p, i, n["ty"]), s2))
            return out
        if k == "deref":
            out = []
            ety = (strip_node(n["e"]).get("ty") or "")
            for v, s in self.ev(n["e"], st, fp):
                if isinstance(v, tuple) and v and v[0] == "ref":
                    out.append((v[1], s))
                elif ety.startswith("&") and not (isinstance(v, tuple) and v and v[0] == "ref"):
                    # a safe reference: transparent (the referent's value)
                    key = ("tmp", self.fresh())
                    out.append((("pv", key), s.set(key, v)))
                elif isinstance(v, tuple) and v and (v[0] in ("struct", "obj", "array", "upd", "updf", "clo", "fnitem", "lit", "subslice", "objat") or _w(v) != 64):
                    # shared references are transparent: the "pointer" is the value itself
                    key = ("tmp", self.fresh())
                    out.append((("pv", key), s.set(key, v)))
                else:
                    out.append((("pd", v, n["ty"]), s))
            return out
        # rvalue used as a place (temporary)
        out = []
        for v, s in self.ev(n, st, fp):
            key = ("tmp", self.fresh())
            out.append((("pv", key), s.set(key, v)))
        return out

    def read_place(self, p, st):
        h = p[0]
        if h == "pv":
            return st.env.get(p[1], ("opaque", "unbound", 0))
        if h == "pf":
            return self.field_of(self.read_place(p[1], st), p[2], p[3])
        if h == "pi":
            base = self.read_place(p[1], st)
            return self.index_of(base, p[2], p[3])
        if h == "pd":
            ptr, ty = p[1], p[2]
            w = self.bits(ty)
            if w and _w(ptr) == 64:
                return ("load", w, ptr)
            if isinstance(ptr, tuple) and ptr and ptr[0] == "obj":
                return ("obj", "*" + ptr[1], ty)
            if _w(ptr) == 64:
                return ("objat", ptr, ty)
            return ("opaque", "deref", w)
        return ("opaque", "place", 0)

    def field_of(self, base, name, ty):
        if isinstance(base, tuple) and base:
            if base[0] == "ref":
                return self.field_of(("deref_of", base), name, ty) if False else self.field_of(self._load_ref(base), name, ty)
            if base[0] == "struct":
                v = sfield(base, name)
                if v is not None:
                    return v
            if base[0] == "obj":
                return self.sym_for("%s.%s" % (base[1], name), ty)
            if base[0] == "updf":
                return base[3] if base[2] == name else self.field_of(base[1], name, ty)
        w = self.bits(ty)
        return ("opaque", "field %s" % name, w)

    def _load_ref(self, r):
        return ("obj", "via-ref", "?")

    def index_of(self, base, i, ty):
        w = self.bits(ty)
        if isinstance(base, tuple) and base and base[0] == "array" and T.is_k(i) and i[2] < len(base[1]):
            return base[1][i[2]]
        if isinstance(base, tuple) and base and base[0] == "subslice" and len(base) == 4 and base[3] == 8 and w == 8 and i == T.K(64, 0) \
                and isinstance(base[2], tuple) and base[2][0] == "op" and base[2][1] == "mul" and T.K(64, 8) in base[2][3:5]:
            # byte 0 of the k-th 8-byte slot of a program is the opcode of instruction k (the layout ebpf::get_insn decodes)
            k = base[2][3] if base[2][4] == T.K(64, 8) else base[2][4]
            return ("v", ("insn", k, "opc"), 8)
        if isinstance(base, tuple) and base and base[0] == "subslice" and w:
            return ("sel", base[1], T.op("add", 64, base[2], i), w)
        if isinstance(base, tuple) and base and base[0] == "upd":
            _, inner, j, v = base
            if j == i:
                return v
            if T.is_k(i) and T.is_k(j):
                return self.index_of(inner, i, ty)
        if w:
            return ("sel", base, i, w)
        if isinstance(i, tuple) and T.is_k(i):
            return ("elem", base, i[2], ty)
        root = base
        while isinstance(root, tuple) and root and root[0] == "upd":
            root = root[1]
        rname = root[1] if isinstance(root, tuple) and root and root[0] == "obj" else _short(root)
        try:
            istr = T.show(i)
        except Exception:
            istr = "?"
        return ("obj", "%s[%s]" % (rname, istr), ty)

    def write_place(self, p, v, st):
        h = p[0]
        if h == "pv":
            return st.set(p[1], v)
        if h == "pf":
            base = self.read_place(p[1], st)
            if isinstance(base, tuple) and base and base[0] == "struct":
                nf = [(k, (v if k == p[2] else x)) for k, x in base[3]]
                return self.write_place(p[1], ("struct", base[1], base[2], tuple(nf)), st)
            return self.write_place(p[1], ("updf", base, p[2], v), st).note("field write on symbolic object")
        if h == "pi":
            base = self.read_place(p[1], st)
            i = p[2]
            if isinstance(base, tuple) and base and base[0] == "array" and T.is_k(i) and i[2] < len(base[1]):
                items = list(base[1])
                items[i[2]] = v
                return self.write_place(p[1], ("array", tuple(items)), st)
            return self.write_place(p[1], ("upd", base, i, v), st)
        if h == "pd":
            ptr, ty = p[1], p[2]
            w = self.bits(ty)
            return st.effect(("store", w, ptr, v))
        return st.note("write to unknown place")

    def deref_val(self, v, st):
        if isinstance(v, tuple) and v and v[0] == "ref":
            return self.read_place(v[1], st)
        return v

    # ---------------------------------------------------------------- simple expressions
    def ev_field(self, n, st, fp):
        return [(self.read_place(p, s), s) for p, s in self.ev_place(n, st, fp)]

    def ev_index(self, n, st, fp):
        return [(self.read_place(p, s), s) for p, s in self.ev_place(n, st, fp)]

    def ev_deref(self, n, st, fp):
        return [(self.read_place(p, s), s) for p, s in self.ev_place(n, st, fp)]

    def ev_ref(self, n, st, fp):
        inner = strip_node(n["e"])
        # references to values are transparent unless they are mutable borrows of places
        if n.get("mut"):
            return [(("ref", p), s) for p, s in self.ev_place(n["e"], st, fp)]
        if inner.get("k") in ("var", "upvar", "field", "index", "deref"):
            out = []
            for p, s in self.ev_place(n["e"], st, fp):
                v = self.read_place(p, s)
                out.append((v, s))
            return out
        return self.ev(n["e"], st, fp)

    ev_rawref = ev_ref

    def ev_coerce(self, n, st, fp):
        return self.ev(n["e"], st, fp)

    def ev_cast(self, n, st, fp):
        out = []
        for v, s in self.ev(n["e"], st, fp):
            fi, ti = T.ty_info(n["from"]), T.ty_info(n["ty"])
            if fi and ti and isinstance(v, tuple) and _w(v) > 0:
                out.append((T.cast(v, n["from"], n["ty"]), s))
            elif ti and isinstance(v, tuple) and v and v[0] in ("obj", "ref"):
                # address of an object: a 64-bit symbol
                out.append((("call", "addr", (v,), 64), s))
            elif ti and isinstance(v, tuple) and v and v[0] == "struct" and not v[3] and n["from"] in self.F.adts:
                # field-less enum to integer: its discriminant
                adt = self.F.adts[n["from"]]
                d = next((x["discr"] for x in adt["variants"] if x["name"] == v[2]), None)
                out.append((T.K(ti[0], d), s) if d is not None else (("opaque", "enum cast", ti[0]), s.note("enum cast")))
            elif ti and isinstance(v, tuple) and v and v[0] == "fnitem":
                out.append((("call", "fnaddr", (v,), 64), s))
            elif ti:
                out.append((("opaque", "cast %s->%s" % (n["from"], n["ty"]), ti[0]), s.note("cast %s->%s at %s" % (n["from"], n["ty"], n.get("line")))))
            else:
                out.append((v, s))
        return out

    BIN = {"Add": "add", "Sub": "sub", "Mul": "mul", "BitAnd": "and", "BitOr": "or", "BitXor": "xor"}

    def ev_bin(self, n, st, fp):
        out = []
        for (a, b), s in [((vs[0], vs[1]), s) for vs, s in self.seq_ev([n["l"], n["r"]], st, fp)]:
            out.append(self.binop(n["op"], n["l"]["ty"] if "ty" in n["l"] else strip_node(n["l"])["ty"], n["ty"], a, b, s, n))
        return out

    def binop(self, opn, lty, rty_res, a, b, s, n=None, checked=True):
        li = T.ty_info(_peel_ref(lty))
        if not li or _w(a) == 0 or _w(b) == 0:
            w = self.bits(rty_res)
            return (("opaque", "binop %s on %s" % (opn, lty), w), s.note("binop %s on non-integers at %s" % (opn, (n or {}).get("line"))))
        w, signed = li
        if _w(a) != w:
            a = T.trunc(w, a) if _w(a) > w else T.zext(w, a)
        if opn in ("Eq", "Ne", "Lt", "Le", "Gt", "Ge"):
            if _w(b) != w:
                b = T.trunc(w, b) if _w(b) > w else T.zext(w, b)
            o = {"Eq": "eq", "Ne": "ne", "Lt": "lt", "Le": "le", "Gt": "gt", "Ge": "ge"}[opn]
            if o not in ("eq", "ne"):
                o = ("s" if signed else "u") + o
            return (T.cmp(o, w, a, b), s)
        if opn in ("Shl", "Shr"):
            name = "shl" if opn == "Shl" else ("ashr" if signed else "lshr")
            amt = T.amount(w, b)
            # a native shift panics (debug) / is UB-masked (release) when the amount >= width
            if checked and not (T.is_k(amt[2])):
                bw = _w(b)
                inrange = T.cmp("ult", bw, b, T.K(bw, w))
                if inrange != T.TRUE and not _masked(b, w):
                    s = s.effect(("panic_if", T.lnot(inrange), "shift-overflow"))
            elif checked and T.is_k(b) and b[2] >= w:
                s = s.effect(("panic_if", T.TRUE, "shift-overflow"))
            return (T.shift(name, w, a, b), s)
        if _w(b) != w:
            b = T.trunc(w, b) if _w(b) > w else T.zext(w, b)
        if opn in ("Div", "Rem"):
            name = ("s" if signed else "u") + ("div" if opn == "Div" else "rem")
            zero = T.cmp("eq", w, b, T.K(w, 0))
            if checked and zero != T.FALSE:
                known = any(c == T.lnot(zero) for c in s.conds)
                if not known:
                    s = s.effect(("panic_if", zero, "div-by-zero"))
            return (T.op(name, w, a, b), s)
        name = self.BIN.get(opn)
        if name is None:
            return (("opaque", "binop " + opn, w), s.note("binop %s" % opn))
        res = T.op(name, w, a, b)
        if checked and opn in ("Add", "Sub", "Mul") and not (T.is_k(res)):
            if not _no_overflow(opn, w, a, b):
                s = s.effect(("panic_if", ("call", "overflows_" + name + ("_s" if signed else "_u"), (a, b), 1), "overflow"))
        return (res, s)

    def ev_un(self, n, st, fp):
        out = []
        for v, s in self.ev(n["e"], st, fp):
            i = T.ty_info(n["ty"])
            if not i or _w(v) == 0:
                out.append((("opaque", "unop", self.bits(n["ty"])), s.note("unary op on non-integer")))
                continue
            w, signed = i
            if n["op"] == "Not":
                out.append((T.lnot(v) if w == 1 else T.bnot(w, v), s))
            elif n["op"] == "Neg":
                if not T.is_k(v):
                    s = s.effect(("panic_if", T.cmp("eq", w, v, T.K(w, 1 << (w - 1))), "neg-overflow"))
                out.append((T.neg(w, v), s))
            else:
                out.append((("opaque", "unop", w), s.note("unary op %s" % n["op"])))
        return out

    def ev_assign(self, n, st, fp):
        out = []
        for v, s in self.ev(n["r"], st, fp):
            if s.exit is not None:
                out.append((UNIT, s))
                continue
            for p, s2 in self.ev_place(n["l"], s, fp):
                out.append((UNIT, self.write_place(p, v, s2)))
        return out

    def ev_assignop(self, n, st, fp):
        out = []
        opn = n["op"].replace("Assign", "")
        for p, s in self.ev_place(n["l"], st, fp):
            cur = self.read_place(p, s)
            for v, s2 in self.ev(n["r"], s, fp):
                lty = strip_node(n["l"]).get("ty") or n["l"].get("ty")
                res, s3 = self.binop(opn, lty, lty, cur, v, s2, n)
                out.append((UNIT, self.write_place(p, res, s3)))
        return out

    # ---------------------------------------------------------------- calls
    def ev_call(self, n, st, fp):
        c = n.get("callee")
        if c is None:
            # call through a value (fn pointer / closure variable)
            out = []
            for fv, s in self.ev(n["fun"], st, fp):
                for vals, s2 in self.seq_ev(n["args"], s, fp):
                    out.extend(self.call_value(fv, vals, n, s2, fp))
            return out
        path = norm_path(c.get("resolved") or c["path"])
        decl = norm_path(c["path"])
        gens = c.get("generics") or []
        # arguments: receivers that are mutated need places, handled inside models via ev_place
        out = []
        mdl = self.models.get(path) or self.models.get(decl) or MODELS.get(path) or MODELS.get(decl) or _model_by_suffix(path) or _model_by_suffix(decl)
        if mdl is not None and getattr(mdl, "wants_nodes", False):
            return mdl(self, n, st, fp, path, gens)
        for vals, s in self.seq_ev(n["args"], st, fp):
            if s.exit is not None:
                out.append((UNIT, s))
                continue
            if mdl is not None:
                r = mdl(self, vals, n, s, path, gens)
                if r is not None:
                    out.extend(r)
                    continue
            out.extend(self.call_path(path, decl, gens, vals, n, s, fp))
        return out

    def call_value(self, fv, vals, n, s, fp):
        if isinstance(fv, tuple) and fv and fv[0] == "clo":
            if self.opaque_calls(fv[1]):
                w = self.bits(n["ty"])
                res = ("call", fv[1], tuple(vals), w, self.fresh()) if w else ("obj", "%s#%d" % (_short_path(fv[1]), self.fresh()), n["ty"])
                return [(res, s.effect(("call", fv[1], tuple(vals), res)))]
            return self.inline_fn(fv[1], vals, n, s)
        if isinstance(fv, tuple) and fv and fv[0] == "fnitem":
            return self.call_path(fv[1], fv[1], list(fv[2]), vals, n, s, fp)
        w = self.bits(n["ty"])
        res = ("call", "indirect", (fv,) + tuple(vals), w, self.fresh())
        return [(res if w else ("obj", "indirect#%d" % self.seq, n["ty"]), s.effect(("call", "indirect", fv, tuple(vals))))]

    def call_path(self, path, decl, gens, vals, n, s, fp):
        # closure invocation through the Fn* traits
        if re.search(r"ops::Fn(Mut|Once)?::call(_mut|_once)?$", decl) and vals:
            f = self.deref_val(vals[0], s)
            if not (isinstance(f, tuple) and f and f[0] in ("clo", "fnitem")) and path in self.F.fns \
                    and self.F.fns[path].get("kind") == "Closure":
                f = ("clo", path)
            if isinstance(f, tuple) and f and f[0] == "clo":
                args = vals[1]
                items = [v for _, v in args[3]] if isinstance(args, tuple) and args and args[0] == "struct" else ([] if args == UNIT else [args])
                if self.opaque_calls(f[1]):
                    w = self.bits(n["ty"])
                    res = ("call", f[1], tuple(items), w, self.fresh()) if w else ("obj", "%s#%d" % (_short_path(f[1]), self.fresh()), n["ty"])
                    return [(res, s.effect(("call", f[1], tuple(items), res)))]
                return self.inline_fn(f[1], items, n, s)
            if isinstance(f, tuple) and f and f[0] == "fnitem":
                args = vals[1]
                items = [v for _, v in args[3]] if isinstance(args, tuple) and args and args[0] == "struct" else ([] if args == UNIT else [args])
                return self.call_path(f[1], f[1], list(f[2]), items, n, s, fp)
        # tuple-struct / variant constructors
        cdef = (n.get("callee") or {}).get("defkind", "")
        if cdef.startswith("Ctor"):
            parts = path.split("::")
            adt = "::".join(parts[:-1])
            if cdef.startswith("Ctor(Struct"):
                return [(struct(path, parts[-1], [(str(i), v) for i, v in enumerate(vals)]), s)]
            return [(struct(adt, parts[-1], [(str(i), v) for i, v in enumerate(vals)]), s)]
        if path in self.F.fns and self.F.fns[path].get("thir") and not self.opaque_calls(path) and self.inline_pred(path):
            # remember the type arguments of the call while the generic callee is evaluated (`size_of::<T>()` inside
            # `emit::<u8>` is the size of u8)
            stack = self.__dict__.setdefault("_gen_stack", [])
            stack.append([g for g in (gens or []) if isinstance(g, str)])
            try:
                return self.inline_fn(path, vals, n, s)
            finally:
                stack.pop()
        w = self.bits(n["ty"])
        if w:
            res = ("call", path, tuple(vals), w, self.fresh())
        elif n["ty"] == "()":
            res = UNIT
        else:
            res = ("obj", "%s#%d" % (_short_path(path), self.fresh()), n["ty"])
        s2 = s.effect(("call", path, tuple(vals), res))
        if n["ty"] == "!":
            macs = tuple(str(m).rsplit("::", 1)[-1].lstrip("$") for m in (n.get("mac") or []))
            s2 = s2.effect(("panic_in", fp, macs)).fork(exit=("panic", path))      # which function's own code raised it, through which macro
        return [(res, s2)]

    def inline_fn(self, path, vals, n, s):
        if s.depth >= self.max_depth:
            return [(("opaque", "inline-depth", self.bits(n["ty"])), s.note("inlining depth exceeded at %s" % path))]
        if not vals and self.unroll:
            # a parameterless function that folds to one value without effects (a table constructor) is
            # evaluated once per evaluator
            memo = self.__dict__.setdefault("_nullary_memo", {})
            if path not in memo:
                r0 = self.run_fn(path, [], St().fork(depth=s.depth + 1), depth=s.depth + 1)
                memo[path] = r0[0][0] if (r0 is not None and len(r0) == 1 and not r0[0][1].effects and not r0[0][1].conds
                                          and not r0[0][1].unrec and r0[0][1].exit is None) else None
            if memo[path] is not None:
                return [(memo[path], s)]
        r = self.run_fn(path, vals, s.fork(depth=s.depth + 1), depth=s.depth + 1)
        if r is None:
            return [(("opaque", "inline-failed", self.bits(n["ty"])), s.note("cannot inline %s" % path))]
        return [(v, st.fork(depth=s.depth)) for v, st in r]



def _peel_ref(ty):
    ty = ty or ""
    while ty.startswith("&"):
        ty = re.sub(r"^&('\w+ )?(mut )?", "", ty)
    return ty


def _masked(b, w):
    """is the shift amount syntactically masked below w?"""
    if b[0] == "zext" and T.width(b[2]) <= (w.bit_length() - 1):
        return True
    if b[0] == "op" and b[1] == "and":
        for q in (b[3], b[4]):
            if T.is_k(q) and q[2] < w:
                return True
    return False


def _ubound(t):
    """cheap syntactic upper bound of an unsigned term"""
    if T.is_k(t):
        return t[2]
    if t[0] == "zext":
        return min(_ubound(t[2]), (1 << T.width(t[2])) - 1)
    if t[0] == "sh" and t[1] == "shl" and T.is_k(t[4][2]):
        w, c = t[2], t[4][2][2]
        return ((1 << w) - 1) >> c << c
    if t[0] == "sh" and t[1] == "lshr" and T.is_k(t[4][2]):
        return _ubound(t[3]) >> t[4][2][2]
    if t[0] == "op" and t[1] == "and":
        return min(_ubound(t[3]), _ubound(t[4]))
    if t[0] == "op" and t[1] == "urem" and T.is_k(t[4]) and t[4][2] > 0:
        return t[4][2] - 1
    return (1 << T.width(t)) - 1


def _no_overflow(opn, w, a, b):
    if opn == "Add":
        return _ubound(a) + _ubound(b) < (1 << w)
    if opn == "Mul":
        return _ubound(a) * _ubound(b) < (1 << w)
    return False


def _short(v):
    s = repr(v)
    return s if len(s) < 40 else s[:37] + "..."


def _short_path(p):
    return "::".join(p.split("::")[-2:])


# ====================================================================== models of external functions
MODELS = {}
SUFFIX_MODELS = []


def model(*names):
    def deco(f):
        for nm in names:
            MODELS[nm] = f
        return f
    return deco


def suffix_model(rx):
    def deco(f):
        SUFFIX_MODELS.append((re.compile(rx), f))
        return f
    return deco


def _model_by_suffix(path):
    for rx, f in SUFFIX_MODELS:
        if rx.search(path):
            return f
    return None


def _int_method(path):
    m = re.match(r"^core::num::<impl ([iu](?:8|16|32|64|128|size))>::(\w+)$", path)
    return (m.group(1), m.group(2)) if m else None


@suffix_model(r"^core::num::<impl [iu](8|16|32|64|128|size)>::\w+$")
def m_int(ev, vals, n, s, path, gens):
    ty, meth = _int_method(path)
    w, signed = T.ty_info(ty)
    a = vals[0]
    if meth in ("from_le_bytes", "from_ne_bytes", "from_be_bytes"):
        arr = ev.deref_val(a, s)
        if isinstance(arr, tuple) and arr and arr[0] == "array" and len(arr[1]) * 8 == w and all(_w(x) == 8 for x in arr[1]):
            bs = list(arr[1])[::-1] if meth == "from_be_bytes" else list(arr[1])      # little-endian target (recorded assumption)
            acc = T.K(w, 0)
            for i, x in enumerate(bs):
                acc = T.op("or", w, acc, T.shift("shl", w, T.zext(w, x), T.K(8, 8 * i)))
            return [(acc, s)]
        return None
    if _w(a) != w:
        return None
    b = vals[1] if len(vals) > 1 else None
    if meth in ("wrapping_add", "wrapping_sub", "wrapping_mul") and b is not None and _w(b) == w:
        return [(T.op(meth[9:], w, a, b), s)]
    if meth == "wrapping_neg":
        return [(T.neg(w, a), s)]
    if meth in ("wrapping_shl", "wrapping_shr") and b is not None:
        name = "shl" if meth.endswith("shl") else ("ashr" if signed else "lshr")
        return [(T.shift(name, w, a, b), s)]
    if meth in ("to_le", "from_le"):
        return [(a, s)]            # little-endian target (recorded assumption)
    if meth in ("to_be", "from_be", "swap_bytes"):
        return [(a if w == 8 else T.bswap(w, a), s)]
    if meth == "is_multiple_of" and b is not None:
        return [(T.cmp("eq", w, T.op("urem", w, a, b), T.K(w, 0)), s)]
    if meth == "checked_ilog" and b is not None and T.is_k(b) and b[2] >= 2 and not signed:
        z = T.cmp("eq", w, a, T.K(w, 0))
        lg = ("call", "core::num::<impl %s>::ilog" % ty, (a, b), 32)
        return [(NONE, s.assume(z)), (some(lg), s.assume(T.lnot(z)))]
    if meth in ("checked_ilog2", "checked_ilog10") and not signed:
        z = T.cmp("eq", w, a, T.K(w, 0))
        lg = ("call", "core::num::<impl %s>::%s" % (ty, meth[8:]), (a,), 32)
        return [(NONE, s.assume(z)), (some(lg), s.assume(T.lnot(z)))]
    if meth in ("checked_div", "checked_rem") and b is not None and not signed and _w(b) == w:
        z = T.cmp("eq", w, b, T.K(w, 0))
        return [(NONE, s.assume(z)), (some(T.op("udiv" if meth == "checked_div" else "urem", w, a, b)), s.assume(T.lnot(z)))]
    if meth == "checked_sub" and b is not None and not signed and _w(b) == w:
        lt = T.cmp("ult", w, a, b)
        return [(NONE, s.assume(lt)), (some(T.op("sub", w, a, b)), s.assume(T.lnot(lt)))]
    if meth == "checked_add" and b is not None:
        sm = T.op("add", w, a, b)
        ovf = T.cmp("ult", w, sm, a) if not signed else ("call", "overflows_add_s", (a, b), 1)
        return [(NONE, s.assume(ovf)), (some(sm), s.assume(T.lnot(ovf)))]
    if meth in ("to_le_bytes", "to_ne_bytes", "to_be_bytes"):
        bs = [T.trunc(8, T.shift("lshr", w, a, T.K(w, 8 * i))) if i else T.trunc(8, a) for i in range(w // 8)]
        return [(("array", tuple(bs[::-1] if meth == "to_be_bytes" else bs)), s)]      # little-endian target (recorded assumption)
    if meth == "unsigned_abs" and signed:
        neg_ = T.cmp("slt", w, a, T.K(w, 0))
        return [(a, s.assume(T.lnot(neg_))), (T.neg(w, a), s.assume(neg_))]
    if meth == "abs_diff" and b is not None and not signed and _w(b) == w:
        lt = T.cmp("ult", w, a, b)
        return [(T.op("sub", w, a, b), s.assume(T.lnot(lt))), (T.op("sub", w, b, a), s.assume(lt))]
    if meth in ("max", "min") and b is not None:
        c = T.cmp("ult" if not signed else "slt", w, a, b)
        return [(T.ite(c, b, a) if meth == "max" else T.ite(c, a, b), s)]
    return None


@model("ebpf::get_insn")
def m_get_insn(ev, vals, n, s, path, gens):
    idx = vals[1]
    prog = vals[0]
    pv = ev.deref_val(prog, s)
    if isinstance(pv, tuple) and pv and pv[0] == "subslice" and len(pv) == 4 and pv[3] % 8 == 0 and isinstance(pv[2], tuple) and pv[2][0] == "op" \
            and pv[2][1] == "mul" and T.K(64, 8) in pv[2][3:5]:
        # instruction i of the piece that starts at slot k of a program is instruction k + i of the program
        k = pv[2][3] if pv[2][4] == T.K(64, 8) else pv[2][4]
        prog, idx = pv[1], T.op("add", 64, k, idx)
    flds = [("opc", 8), ("dst", 8), ("src", 8), ("off", 16), ("imm", 32)]
    ov = dict(getattr(ev, "insn_override", None) or {})
    # the opcode under analysis is forced for the instruction the iteration fetches first (the current one), not for
    # a later fetch of a neighbouring slot (second half of a wide load)
    cur = ov.pop("opc@current", None)
    if cur is not None:
        if getattr(ev, "_cur_insn_idx", None) is None:
            ev._cur_insn_idx = idx
        if ev._cur_insn_idx == idx:
            ov["opc"] = cur
    return [(struct("ebpf::Insn", "Insn", [(f, ov.get(f, ("v", ("insn", idx, f), w))) for f, w in flds]),
             s.effect(("get_insn", prog, idx)))]


@suffix_model(r"(slice::<impl \[T\]>|vec::Vec<T, A>|str::<impl str>|string::String)::len$")
def m_len(ev, vals, n, s, path, gens):
    v = ev.deref_val(vals[0], s)
    if isinstance(v, tuple) and v and v[0] == "array":
        return [(T.K(64, len(v[1])), s)]
    return [(("call", "len", (v,), 64), s)]


@suffix_model(r"(slice::<impl \[T\]>|vec::Vec<T, A>|str::<impl str>|string::String)::is_empty$")
def m_is_empty(ev, vals, n, s, path, gens):
    v = ev.deref_val(vals[0], s)
    if isinstance(v, tuple) and v and v[0] == "array":
        return [(T.TRUE if not v[1] else T.FALSE, s)]
    return [(T.cmp("eq", 64, ("call", "len", (v,), 64), T.K(64, 0)), s)]


@suffix_model(r"(slice::<impl \[T\]>|vec::Vec<T, A>)::as(_mut)?_ptr$")
def m_as_ptr(ev, vals, n, s, path, gens):
    v = ev.deref_val(vals[0], s)
    return [(("call", "as_ptr", (v,), 64), s)]


@suffix_model(r"ptr::(const_ptr::<impl \*const T>|mut_ptr::<impl \*mut T>)::(wrapping_offset|wrapping_add|add|offset|cast|cast_mut|cast_const|is_null)$")
def m_ptr(ev, vals, n, s, path, gens):
    meth = path.split("::")[-1]
    p = vals[0]
    if _w(p) != 64:
        return None
    if meth in ("cast", "cast_mut", "cast_const"):
        return [(p, s)]
    if meth == "is_null":
        return [(T.cmp("eq", 64, p, T.K(64, 0)), s)]
    sz = _size_of(gens[0]) if gens else None
    if sz is None:
        return None
    off = vals[1]
    if _w(off) != 64:
        return None
    if sz != 1:
        off = T.op("mul", 64, off, T.K(64, sz))
    return [(T.op("add", 64, p, off), s)]


def _size_of(ty):
    i = T.ty_info(ty)
    if i and i[0] >= 8:
        return i[0] // 8
    return None


@suffix_model(r"ptr::(const_ptr::<impl \*const T>|mut_ptr::<impl \*mut T>)::read(_unaligned|_volatile)?$")
def m_read(ev, vals, n, s, path, gens):
    w = ev.bits(n["ty"])
    if not w or _w(vals[0]) != 64:
        return None
    return [(("load", w, vals[0]), s)]


@suffix_model(r"ptr::mut_ptr::<impl \*mut T>::write(_unaligned|_volatile)?$")
def m_write(ev, vals, n, s, path, gens):
    w = _w(vals[1])
    if not w or _w(vals[0]) != 64:
        return None
    return [(UNIT, s.effect(("store", w, vals[0], vals[1])))]


@suffix_model(r"sync::atomic::Atomic<u(32|64)>::fetch_add$|sync::atomic::AtomicU(32|64)::fetch_add$")
def m_fetch_add(ev, vals, n, s, path, gens):
    w = ev.bits(n["ty"])
    a = vals[0]
    addr = None
    if isinstance(a, tuple) and a and a[0] == "objat":
        addr = a[1]
    elif isinstance(a, tuple) and a and a[0] == "load":
        addr = a[2]
    elif isinstance(a, tuple) and a and a[0] == "obj" and a[1].startswith("*"):
        addr = ("v", a[1][1:], 64)
    return [(("call", "atomic_old", (addr if addr is not None else a,), w, ev.fresh()),
             s.effect(("atomic_add", w, addr if addr is not None else a, vals[1])))]


def _atomic_addr(a):
    if isinstance(a, tuple) and a and a[0] == "objat":
        return a[1]
    if isinstance(a, tuple) and a and a[0] == "load":
        return a[2]
    if isinstance(a, tuple) and a and a[0] == "obj" and a[1].startswith("*"):
        return ("v", a[1][1:], 64)
    return None


@suffix_model(r"sync::atomic::Atomic<u(32|64)>::load$|sync::atomic::AtomicU(32|64)::load$")
def m_atomic_load(ev, vals, n, s, path, gens):
    w = ev.bits(n["ty"])
    addr = _atomic_addr(vals[0])
    if not w or addr is None:
        return None
    return [(("load", w, addr), s)]


@suffix_model(r"sync::atomic::Atomic<u(32|64)>::store$|sync::atomic::AtomicU(32|64)::store$")
def m_atomic_store(ev, vals, n, s, path, gens):
    w = _w(vals[1])
    addr = _atomic_addr(vals[0])
    if not w or addr is None:
        return None
    return [(UNIT, s.effect(("store", w, addr, vals[1])))]


@suffix_model(r"core::mem::(size_of|align_of)$")
def m_size_of(ev, vals, n, s, path, gens):
    sz = _size_of(gens[0]) if gens else None
    if sz is None and gens and re.fullmatch(r"[A-Z]\w{0,3}", str(gens[0])):
        # a type parameter of the function being inlined: the nearest enclosing call with exactly one type argument
        for frame in reversed(getattr(ev, "_gen_stack", [])):
            concrete = [g for g in frame if not re.fullmatch(r"[A-Z]\w{0,3}", g) and not g.startswith("'")]
            if len(concrete) == 1:
                sz = _size_of(concrete[0])
                break
            if concrete:
                break
    if sz is None:
        return None
    return [(T.K(64, sz), s)]


@suffix_model(r"slice::<impl \[T\]>::contains$")
def m_slice_contains(ev, vals, n, s, path, gens):
    """`[a, b, ..].contains(&x)` for a sequence of known integers: x == a || x == b || .."""
    seq, x = ev.deref_val(vals[0], s), ev.deref_val(vals[1], s)
    if not (isinstance(seq, tuple) and seq and seq[0] == "array" and all(T.is_k(e) for e in seq[1]) and is_bv(x)):
        return None
    w = _w(x)
    c = T.FALSE
    for e in seq[1]:
        c = T.lor(c, T.cmp("eq", w, x, T.K(w, e[2])))
    return [(c, s)]


@suffix_model(r"ops::Range(Inclusive)?<Idx>::contains$")
def m_range_contains(ev, vals, n, s, path, gens):
    r, x = ev.deref_val(vals[0], s), ev.deref_val(vals[1], s)
    if not (isinstance(r, tuple) and r and r[0] == "struct"):
        if isinstance(r, tuple) and r and r[0] == "obj":
            lo, hi = T.V(r[1] + ".start", _w(x)), T.V(r[1] + ".end", _w(x))
            return [(T.land(T.cmp("ule", _w(x), lo, x), T.cmp("ult", _w(x), x, hi)), s)]
        return None
    w = _w(x)
    signed = (T.ty_info(gens[0]) or (0, False))[1] if gens else False
    lo, hi = sfield(r, "start"), sfield(r, "end")
    if lo is None or hi is None or not w:
        return None
    le, lt = ("sle", "slt") if signed else ("ule", "ult")
    incl = "RangeInclusive" in path
    return [(T.land(T.cmp(le, w, lo, x), T.cmp(le if incl else lt, w, x, hi)), s)]


@suffix_model(r"ops::RangeInclusive<Idx>::new$")
def m_range_incl_new(ev, vals, n, s, path, gens):
    return [(struct("core::ops::RangeInclusive", "RangeInclusive", (("start", vals[0]), ("end", vals[1]))), s)]


@suffix_model(r"ops::Try>::branch$|ops::Try::branch$")
def m_try_branch(ev, vals, n, s, path, gens):
    v = vals[0]
    CF = "core::ops::ControlFlow"
    if isinstance(v, tuple) and v and v[0] == "struct":
        if v[2] in ("Ok", "Some"):
            return [(struct(CF, "Continue", (("0", sfield(v, "0")),)), s)]
        if v[2] == "Err":
            return [(struct(CF, "Break", (("0", v),)), s)]
        if v[2] == "None":
            return [(struct(CF, "Break", (("0", NONE),)), s)]
    # symbolic Result / Option: fork
    okc = ("call", "is_ok", (v,), 1)
    inner_ty = re.match(r"^core::(?:result::Result|option::Option)<(.*?)(?:, .*)?>$", norm_path(gens[0]) if gens else "")
    ity = inner_ty.group(1) if inner_ty else "?"
    w = ev.bits(ity)
    val = UNIT if ity == "()" else (("call", "ok_value", (v,), w) if w else ("obj", "ok(%s)" % _short(v), ity))
    return [(struct(CF, "Continue", (("0", val),)), s.assume(okc)),
            (struct(CF, "Break", (("0", ("residual", v)),)), s.assume(T.lnot(okc)))]


@suffix_model(r"ops::FromResidual<.*>>::from_residual$|ops::FromResidual::from_residual$")
def m_from_residual(ev, vals, n, s, path, gens):
    v = vals[0]
    if isinstance(v, tuple) and v and v[0] == "struct" and v[2] in ("Err", "None"):
        return [(v, s)]
    if "Option" in (n.get("ty") or ""):
        return [(NONE, s)]
    return [(err(("residual-of", v)), s)]


@suffix_model(r"^core::(option::Option<T>|result::Result<T, E>)::(unwrap|expect)$")
def m_unwrap(ev, vals, n, s, path, gens):
    v = vals[0]
    if isinstance(v, tuple) and v and v[0] == "struct":
        if v[2] in ("Some", "Ok"):
            return [(sfield(v, "0"), s)]
        return [(("opaque", "unwrap-failed", ev.bits(n["ty"])), s.effect(("panic_if", T.TRUE, "unwrap")).fork(exit=("panic", "unwrap")))]
    good = ("call", "is_ok" if "Result" in path else "is_some", (v,), 1)
    w = ev.bits(n["ty"])
    val = ("call", "ok_value", (v,), w) if w else ("obj", "unwrapped(%s)" % _short(v), n["ty"])
    return [(val, s.effect(("panic_if", T.lnot(good), "unwrap")))]


@suffix_model(r"^core::option::Option<&T>::(cloned|copied)$|^core::option::Option<T>::(as_ref|as_mut)$|^core::convert::(Into|From)<.*>::(into|from)$|^core::clone::Clone::clone$|::clone$|^core::hint::must_use$|^core::convert::AsRef<.*>::as_ref$|^core::borrow::Borrow")
def m_identity(ev, vals, n, s, path, gens):
    v = vals[0]
    fi = None
    if _w(v) and ev.bits(n["ty"]) and ev.bits(n["ty"]) != _w(v):
        src = gens[1] if len(gens) > 1 else None
        return None
    return [(ev.deref_val(v, s) if path.endswith("clone") else v, s)]


@suffix_model(r"^core::convert::num::<impl core::convert::From<(\w+)> for (\w+)>::from$")
def m_from_int(ev, vals, n, s, path, gens):
    m = re.search(r"From<(\w+)> for (\w+)>", path)
    return [(T.cast(vals[0], m.group(1), m.group(2)), s)]


@suffix_model(r"^core::convert::num::<impl core::convert::TryFrom<([iu](?:8|16|32|64|128|size))> for ([iu](?:8|16|32|64|128|size))>::try_from$")
def m_try_from_int(ev, vals, n, s, path, gens):
    """checked integer conversion: Ok(converted) exactly when the value is representable in the target type"""
    m = re.search(r"TryFrom<(\w+)> for (\w+)>", path)
    src, dst = m.group(1), m.group(2)
    (w1, s1), (w2, s2) = T.ty_info(src), T.ty_info(dst)
    x = vals[0]
    if _w(x) != w1:
        return None
    y = T.cast(x, src, dst)
    conds = []
    if s1 == s2:
        if w2 < w1:
            conds.append(T.cmp("eq", w1, x, T.cast(y, dst, src)))
    elif not s1 and s2:
        if w2 <= w1:
            conds.append(T.cmp("ult", w1, x, T.K(w1, 1 << (w2 - 1))))
    else:
        conds.append(T.cmp("sle", w1, T.K(w1, 0), x))
        if w2 < w1:
            conds.append(T.cmp("ult", w1, x, T.K(w1, 1 << w2)))
    good = T.TRUE
    for c in conds:
        good = T.land(good, c)
    R = "core::result::Result"
    out = [(struct(R, "Ok", (("0", y),)), s.assume(good))]
    if good != T.TRUE:
        out.append((struct(R, "Err", (("0", ("obj", "TryFromIntError", "core::num::TryFromIntError")),)), s.assume(T.lnot(good))))
    return [(v, st) for v, st in out if st.feasible]


SUFFIX_MODELS.insert(0, SUFFIX_MODELS.pop())


@suffix_model(r"^core::fmt::|^core::io::Error::(other|new)$|^core::fmt::format$|no_std_error::Error::(other|new)$|^core::string::ToString|::to_string$|^log::")
def m_fmt(ev, vals, n, s, path, gens):
    if path.endswith("Error::other") or path.endswith("Error::new"):
        return [(("obj", "error", n["ty"]), s)]
    return [(("obj", "fmt", n["ty"]) if n["ty"] != "()" else UNIT, s)]


@suffix_model(r"^core::iter::Iterator::any$|Iterator>::any$")
def m_any(ev, vals, n, s, path, gens):
    """`iter.any(|x| pred(x))` with a pure closure: exists-quantified condition over a symbolic element"""
    it, f = vals[0], vals[1]
    it = ev.deref_val(it, s)
    if not (isinstance(f, tuple) and f and f[0] == "clo"):
        return None
    src = it
    while isinstance(src, tuple) and src and src[0] == "obj" and "#" in src[1]:
        break
    fn = ev.F.fns.get(f[1])
    if fn is None:
        return None
    pty = fn["thir"]["params"][-1]["ty"]
    elem_ty = re.sub(r"^&('\w+ )?(mut )?", "", pty)
    name = "elem(%s)" % (it[1] if isinstance(it, tuple) and it and it[0] == "obj" else "?")
    base = re.sub(r"<.*>$", "", norm_path(elem_ty))
    if base.endswith("ops::Range"):
        w = ev.bits(re.sub(r"^.*<(.*)>$", r"\1", elem_ty)) or 64
        elem = struct("core::ops::Range", "Range", (("start", T.V(name + ".start", w)), ("end", T.V(name + ".end", w))))
    else:
        elem = ev.sym_for(name, elem_ty)
    r = ev.run_fn(f[1], [elem], St(env=s.env, depth=s.depth + 1), depth=s.depth + 1)
    if not r or len(r) != 1 or r[0][1].effects or r[0][1].conds:
        disj = T.FALSE
        if not r:
            return None
        for v, st2 in r:
            if st2.effects:
                return None
            c = T.TRUE
            for x in st2.conds:
                c = T.land(c, x)
            disj = T.lor(disj, T.land(c, ev.as_cond(v)))
        return [(("exists", name, disj), s)]
    return [(("exists", name, ev.as_cond(r[0][0])), s)]


@suffix_model(r"HashSet<T, S, A>::iter$|HashMap<K, V, S, A>::iter$|slice::<impl \[T\]>::iter$|IntoIterator>::into_iter$")
def m_iter(ev, vals, n, s, path, gens):
    return [(ev.deref_val(vals[0], s), s)]


@suffix_model(r"byteorder::ByteOrder(>)?::read_([iu])(16|32|64)$")
def m_bo_read(ev, vals, n, s, path, gens):
    """LittleEndian::read_xN(&slice[start..]): the N/8 bytes at slice[start..] as lanes"""
    if not gens or "LittleEndian" not in gens[0]:
        return None
    m = re.search(r"read_([iu])(16|32|64)$", path)
    w = int(m.group(2))
    sl = ev.deref_val(vals[0], s)
    if not (isinstance(sl, tuple) and sl and sl[0] == "subslice"):
        return None
    base, start = sl[1], sl[2]
    acc = T.K(w, 0)
    for i in range(w // 8):
        byte = ("sel", base, T.op("add", 64, start, T.K(64, i)), 8)
        acc = T.op("or", w, acc, T.shift("shl", w, T.zext(w, byte), T.K(8, 8 * i)))
    return [(acc, s)]


@suffix_model(r"slice::index::<impl core::ops::Index(Mut)?<I> for \[T\]>::index(_mut)?$")
def m_slice_index(ev, vals, n, s, path, gens):
    base, rg = ev.deref_val(vals[0], s), vals[1]
    if path.endswith("index_mut") and isinstance(vals[0], tuple) and vals[0][:1] == ("ref",) and isinstance(base, tuple) and base[:1] == ("array",) \
            and isinstance(rg, tuple) and rg and rg[0] == "struct" and rg[1].endswith("RangeFrom") and T.is_k(sfield(rg, "start")):
        return [(("subslice_of", vals[0][1], sfield(rg, "start")[2]), s)]      # a mutable tail of a local array: keeps the place
    if isinstance(rg, tuple) and rg and rg[0] == "struct" and rg[1].endswith("RangeFrom"):
        return [(("subslice", base, sfield(rg, "start")), s)]
    if isinstance(base, tuple) and base and base[0] == "array" and T.is_k(rg) and rg[2] < len(base[1]):
        return [(base[1][rg[2]], s)]
    return None


# ---------------------------------------------------------------- concrete containers / iteration / formatting
@suffix_model(r"IntoIterator>::into_iter$|IntoIterator for &'a \[T; N\]>::into_iter$|IntoIterator for \[T; N\]>::into_iter$|IntoIterator for &'a \[T\]>::into_iter$|slice::<impl \[T\]>::iter$")
def m_into_iter_array(ev, vals, n, s, path, gens):
    v = ev.deref_val(vals[0], s)
    if isinstance(v, tuple) and v and v[0] == "array":
        return [(("iterc", v[1], 0), s)]
    if isinstance(v, tuple) and v and v[0] == "struct" and v[1].endswith("ops::Range"):
        a, b = sfield(v, "start"), sfield(v, "end")
        if T.is_k(a) and T.is_k(b) and b[2] - a[2] <= 400:
            return [(("iterc", tuple(T.K(a[1], i) for i in range(a[2], b[2])), 0), s)]
    if isinstance(v, tuple) and v and v[0] == "struct" and v[1].endswith("ops::RangeInclusive"):
        a, b = sfield(v, "start"), sfield(v, "end")
        if T.is_k(a) and T.is_k(b) and b[2] - a[2] <= 400:
            return [(("iterc", tuple(T.K(a[1], i) for i in range(a[2], b[2] + 1)), 0), s)]
    return [(v, s)]


SUFFIX_MODELS.insert(0, SUFFIX_MODELS.pop())   # takes precedence over the generic into_iter identity


def _concrete_seq(ev, v, s):
    v = ev.deref_val(v, s)
    if isinstance(v, tuple) and v and v[0] == "array":
        return list(v[1])
    if isinstance(v, tuple) and v and v[0] == "iterc":
        return list(v[1][v[2]:])
    return None


def _map_items(ev, f, items, n, s, extra_first=None):
    """apply f to every item in order, threading the state; -> [(results, state)] or None"""
    states = [([], s)]
    for item in items:
        nxt = []
        for acc, st in states:
            r = _apply(ev, f, [item], n, st, None)
            if r is None:
                return None
            nxt.extend((acc + [rv], st2) for rv, st2 in r)
        states = nxt
        if len(states) > 32:
            return None
    return states


@suffix_model(r"iter::Iterator::map$|as core::iter::Iterator>::map$")
def m_iter_map(ev, vals, n, s, path, gens):
    """map over a concrete sequence with a closure: evaluated eagerly, in order (the adaptor chains the checks meet are
    consumed completely by sum / fold / collect / a for loop)"""
    items = _concrete_seq(ev, vals[0], s)
    if items is None:
        return _lazy_stage(ev, "map", vals, s)
    if len(items) > 64:
        return None
    r = _map_items(ev, vals[1], items, n, s)
    if r is None:
        return None
    return [(("iterc", tuple(acc), 0), st) for acc, st in r]


def _lazy_stage(ev, kind, vals, s):
    """an adaptor over a symbolic range: kept as a description ('iters', range, stages) that a per-element evaluation
    (models.counting_loop) replays for one symbolic index"""
    base = ev.deref_val(vals[0], s)
    if isinstance(base, tuple) and base and base[0] == "struct" and (base[1].endswith("ops::Range") or base[1].endswith("ops::RangeInclusive")):
        base = ("iters", base, ())
    if isinstance(base, tuple) and base and base[0] == "iters" and isinstance(vals[1], tuple) and vals[1] and vals[1][0] in ("clo", "fnitem"):
        return [(("iters", base[1], base[2] + ((kind, vals[1]),)), s)]
    return None


@suffix_model(r"iter::Iterator::filter$|as core::iter::Iterator>::filter$")
def m_iter_filter(ev, vals, n, s, path, gens):
    items = _concrete_seq(ev, vals[0], s)
    if items is None:
        return _lazy_stage(ev, "filter", vals, s)
    return None


@suffix_model(r"iter::Iterator::find$|as core::iter::Iterator>::find$")
def m_iter_find(ev, vals, n, s, path, gens):
    """`find` over a sequence of known elements with a predicate that decides each of them: the first hit, or None"""
    items = _concrete_seq(ev, vals[0], s)
    if items is None or len(items) > 64:
        return None
    st = s
    for item in items:
        r = _apply(ev, vals[1], [item], n, st, "bool")
        if r is None:
            return None
        r = [(v, s2) for v, s2 in r if s2.feasible]
        if len(r) != 1:
            return None
        v, st = r[0]
        if v == T.TRUE or v == T.K(1, 1):
            return [(some(item), st)]
        if not (v == T.FALSE or v == T.K(1, 0)):
            return None         # undecided for this element: leave the call symbolic
    return [(NONE, st)]


@suffix_model(r"iter::Iterator::fold$|as core::iter::Iterator>::fold$")
def m_iter_fold(ev, vals, n, s, path, gens):
    items = _concrete_seq(ev, vals[0], s)
    if items is None or len(items) > 64:
        return None
    states = [(vals[1], s)]
    for item in items:
        nxt = []
        for acc, st in states:
            r = _apply(ev, vals[2], [acc, item], n, st, n.get("ty"))
            if r is None:
                return None
            nxt.extend(r)
        states = nxt
        if len(states) > 32:
            return None
    return states


@suffix_model(r"iter::Iterator::sum$|as core::iter::Iterator>::sum$")
def m_iter_sum(ev, vals, n, s, path, gens):
    items = _concrete_seq(ev, vals[0], s)
    w = ev.bits(n.get("ty"))
    if items is None or not w or any(_w(x) != w for x in items):
        return None
    acc = T.K(w, 0)
    for x in items:
        acc = T.op("add", w, acc, x)
    return [(acc, s)]


@suffix_model(r"iter::Iterator::collect$|as core::iter::Iterator>::collect$")
def m_iter_collect(ev, vals, n, s, path, gens):
    v = ev.deref_val(vals[0], s)
    if isinstance(v, tuple) and v and v[0] == "iterc" and "Vec<" in (n.get("ty") or ""):
        return [(("array", tuple(v[1][v[2]:])), s)]
    return None


@suffix_model(r"intrinsics::write_box_via_move$|boxed::box_assume_init_into_vec_unsafe$|slice::<impl \[T\]>::into_vec$")
def m_vec_literal(ev, vals, n, s, path, gens):
    """the lowering of `vec![a, b, c]`: a vector holding exactly the listed elements"""
    v = ev.deref_val(vals[-1], s)
    if isinstance(v, tuple) and v and v[0] == "array":
        return [(v, s)]
    return None


@suffix_model(r"array::<impl \[T; N\]>::map$")
def m_array_map(ev, vals, n, s, path, gens):
    """[a, b, c].map(f) on a literal array: f applied to the elements in order"""
    v = ev.deref_val(vals[0], s)
    if not (isinstance(v, tuple) and v and v[0] == "array" and len(v[1]) <= 64):
        return None
    states = [([], s)]
    for item in v[1]:
        nxt = []
        for acc, st in states:
            r = _apply(ev, vals[1], [item], n, st, None)
            if r is None:
                return None
            for rv, st2 in r:
                nxt.append((acc + [rv], st2))
        states = nxt
        if len(states) > 32:
            return None
    return [(("array", tuple(acc)), st) for acc, st in states]


@suffix_model(r"iter::Iterator::rev$|iter::Iterator>::rev$")
def m_iter_rev(ev, vals, n, s, path, gens):
    v = ev.deref_val(vals[0], s)
    if isinstance(v, tuple) and v and v[0] == "struct" and (v[1].endswith("ops::Range") or v[1].endswith("ops::RangeInclusive")):
        r = m_into_iter_array(ev, [v], n, s, path, gens)
        v = r[0][0] if r else v
    if isinstance(v, tuple) and v and v[0] == "array":
        v = ("iterc", v[1], 0)
    if isinstance(v, tuple) and v and v[0] == "iterc" and v[2] == 0:
        return [(("iterc", tuple(reversed(v[1])), 0), s)]
    return None


SUFFIX_MODELS.insert(0, SUFFIX_MODELS.pop())   # takes precedence over the generic into_iter identity


@suffix_model(r"iter::Iterator::(copied|cloned)$|iter::Iterator>::(copied|cloned)$")
def m_iter_copied(ev, vals, n, s, path, gens):
    """`copied()` / `cloned()` on a sequence whose elements are known: the same elements by value"""
    v = ev.deref_val(vals[0], s)
    if isinstance(v, tuple) and v and v[0] == "array":
        v = ("iterc", v[1], 0)
    if isinstance(v, tuple) and v and v[0] == "iterc":
        return [(v, s)]
    return None


SUFFIX_MODELS.insert(0, SUFFIX_MODELS.pop())


def m_iter_next(ev, n, st, fp, path, gens):
    """Iterator::next(&mut it) on a concrete iterator value"""
    out = []
    for p, s in ev.ev_place(n["args"][0], st, fp):
        if p[0] == "pv" and isinstance(s.env.get(p[1]), tuple) and s.env[p[1]] and s.env[p[1]][0] == "ref":
            p = s.env[p[1]][1]
        cur = ev.read_place(p, s)
        if isinstance(cur, tuple) and cur and cur[0] == "ref":
            p = cur[1]
            cur = ev.read_place(p, s)
        if isinstance(cur, tuple) and cur and cur[0] == "iterc":
            items, pos = cur[1], cur[2]
            if pos < len(items):
                out.append((some(items[pos]), ev.write_place(p, ("iterc", items, pos + 1), s)))
            else:
                out.append((NONE, s))
        else:
            w = ev.bits(n["ty"])
            r = ("obj", "next#%d" % ev.fresh(), n["ty"])
            out.append((r, s.effect(("call", path, (cur,), r))))
    return out


m_iter_next.wants_nodes = True
SUFFIX_MODELS.insert(0, (re.compile(r"iter::Iterator>::next$|iter::Iterator::next$|Iterator for [^ ]*>::next$"), m_iter_next))


@suffix_model(r"vec::Vec<T, A> as core::ops::Deref>::deref$|vec::Vec<T, A>::as_slice$|vec::Vec<T, A> as core::convert::AsRef<\[T\]>>::as_ref$")
def m_vec_deref(ev, vals, n, s, path, gens):
    v = ev.deref_val(vals[0], s)
    if isinstance(v, tuple) and v and v[0] == "array":
        return [(v, s)]
    return None


SUFFIX_MODELS.insert(0, SUFFIX_MODELS.pop())


@suffix_model(r"vec::Vec<T, A> as core::ops::Index<I>>::index$")
def m_concrete_index(ev, vals, n, s, path, gens):
    v = ev.deref_val(vals[0], s)
    i = vals[1]
    if isinstance(v, tuple) and v and v[0] == "array" and T.is_k(i):
        if i[2] < len(v[1]):
            return [(v[1][i[2]], s)]
        # a constant index past the end of a concrete vector: the indexing panics
        return [(("opaque", "index-out-of-bounds", 0), s.effect(("call", "core::panicking::panic_bounds_check", (i, T.K(64, len(v[1]))), UNIT)).fork(exit=("panic", "index out of bounds")))]
    return None


SUFFIX_MODELS.insert(0, SUFFIX_MODELS.pop())


@suffix_model(r"array::<impl core::ops::IndexMut<I> for \[T; N\]>::index_mut$|vec::Vec<T, A> as core::ops::IndexMut<I>>::index_mut$")
def m_index_mut_tail(ev, vals, n, s, path, gens):
    """`&mut local[k..]` of a local array / vector whose elements are known: a mutable tail that keeps the place"""
    rg = vals[1] if len(vals) > 1 else None
    if isinstance(vals[0], tuple) and vals[0][:1] == ("ref",) and isinstance(rg, tuple) and rg and rg[0] == "struct" and rg[1].endswith("RangeFrom") \
            and T.is_k(sfield(rg, "start")):
        base = ev.read_place(vals[0][1], s)
        if isinstance(base, tuple) and base[:1] == ("array",):
            return [(("subslice_of", vals[0][1], sfield(rg, "start")[2]), s)]
    return None


@suffix_model(r"slice::<impl \[T\]>::iter_mut$")
def m_iter_mut(ev, vals, n, s, path, gens):
    """`iter_mut()` over (a tail of) a local array whose elements are known: one mutable reference per element"""
    v = vals[0]
    start = 0
    if isinstance(v, tuple) and v and v[0] == "ref":
        inner = ev.read_place(v[1], s)
        if isinstance(inner, tuple) and inner and inner[0] == "subslice_of":
            v = inner           # a reborrow of the tail held in a temporary
    if isinstance(v, tuple) and v and v[0] == "subslice_of":
        place, start = v[1], v[2]
    elif isinstance(v, tuple) and v and v[0] == "ref":
        place = v[1]
    else:
        return None
    cur = ev.read_place(place, s)
    if not (isinstance(cur, tuple) and cur and cur[0] == "array"):
        return None
    ety = "?"
    return [(("iterc", tuple(("ref", ("pi", place, T.K(64, k), ety)) for k in range(start, len(cur[1]))), 0), s)]


@suffix_model(r"iter::Iterator::zip$|iter::Iterator>::zip$")
def m_iter_zip(ev, vals, n, s, path, gens):
    a, b = _concrete_seq(ev, vals[0], s), _concrete_seq(ev, vals[1], s)
    if a is None or b is None:
        return None
    return [(("iterc", tuple(struct("tuple", "", (("0", x), ("1", y))) for x, y in zip(a, b)), 0), s)]


@suffix_model(r"slice::<impl \[T\]>::chunks_exact$")
def m_chunks_exact(ev, vals, n, s, path, gens):
    """`s.chunks_exact(c)` for a constant c > 0: the sequence of the floor(len / c) consecutive c-element pieces of s"""
    base = ev.deref_val(vals[0], s)
    if len(vals) < 2 or not T.is_k(vals[1]) or vals[1][2] == 0:
        return None
    return [(("chunks", base, vals[1][2]), s)]


@suffix_model(r"slice::ChunksExact<'a, T> as core::iter::Iterator>::last$")
def m_chunks_last(ev, vals, n, s, path, gens):
    """the last whole piece: Some(s[(len/c - 1)*c ..][..c]) when len >= c, None otherwise"""
    v = ev.deref_val(vals[0], s)
    if not (isinstance(v, tuple) and v and v[0] == "chunks"):
        return None
    _, base, c = v
    ln = ("call", "len", (base,), 64)
    has = T.cmp("ule", 64, T.K(64, c), ln)
    start = T.op("mul", 64, T.op("add", 64, T.op("udiv", 64, ln, T.K(64, c)), T.K(64, -1)), T.K(64, c))
    return [(some(("subslice", base, start, c)), s.assume(has)), (NONE, s.assume(T.lnot(has)))]


@suffix_model(r"slice::<impl \[T\]>::(get|first|last)$")
def m_concrete_get(ev, vals, n, s, path, gens):
    """`get(i)` / `first()` / `last()` of a sequence whose elements are known: the element or None"""
    v = ev.deref_val(vals[0], s)
    if not (isinstance(v, tuple) and v and v[0] == "array"):
        return None
    meth = path.rsplit("::", 1)[1]
    if meth == "get":
        if len(vals) < 2 or not T.is_k(vals[1]):
            return None
        i = vals[1][2]
    else:
        i = 0 if meth == "first" else len(v[1]) - 1
    return [((some(v[1][i]) if 0 <= i < len(v[1]) else NONE), s)]


def _apply(ev, f, args, n, s, ret_ty=None):
    """call a function value (closure, fn item, or a symbolic fn pointer) from inside a combinator model"""
    if isinstance(f, tuple) and f and f[0] == "clo":
        return ev.inline_fn(f[1], list(args), n, s)
    if isinstance(f, tuple) and f and f[0] == "fnitem":
        return ev.call_path(f[1], f[1], list(f[2]), list(args), n, s, None)
    if isinstance(f, tuple) and f:
        w = ev.bits(ret_ty) if ret_ty else 0
        res = ("call", "indirect", (f,) + tuple(args), w, ev.fresh()) if w else ("obj", "indirect#%d" % ev.fresh(), ret_ty or "?")
        return [(res, s.effect(("call", "indirect", f, tuple(args))))]
    return None


def _symbolic_option(ev, o, vals, n, s, path):
    """Option combinators on a symbolic option: fork on the same `is_Some` test and payload a `match` would use"""
    meth = path.rsplit("::", 1)[1]
    if meth not in ("ok_or", "ok_or_else", "map", "map_or", "map_or_else", "and_then", "unwrap_or", "unwrap_or_else", "is_some", "is_none"):
        return None
    if not isinstance(o, tuple) or not o or o[0] == "struct":
        return None
    rty = (strip_node(n["args"][0]).get("ty") or "") if n.get("args") else ""
    m = re.match(r"^&?(?:mut )?(?:std|core)::option::Option<(.*)>$", rty)
    if not m:
        return None
    cond = ("call", "is_Some", (o,), 1)
    x = ev.payload(o, "Some", "0", m.group(1))
    R = "core::result::Result"
    s_some, s_none = s.assume(cond), s.assume(T.lnot(cond))

    def call(f, args, st):
        return _apply(ev, f, args, n, st, n.get("ty") if meth in ("map_or", "map_or_else", "and_then", "unwrap_or_else") else None)
    if meth == "map_or":
        r = call(vals[2], [x], s_some)
        return None if r is None else list(r) + [(vals[1], s_none)]
    if meth == "map_or_else":
        r, r0 = call(vals[2], [x], s_some), call(vals[1], [], s_none)
        return None if r is None or r0 is None else list(r) + list(r0)
    if meth == "is_some":
        return [(cond, s)]
    if meth == "is_none":
        return [(T.lnot(cond), s)]
    if meth == "ok_or":
        return [(struct(R, "Ok", (("0", x),)), s_some), (struct(R, "Err", (("0", vals[1]),)), s_none)]
    if meth == "ok_or_else":
        r = call(vals[1], [], s_none)
        if r is None:
            return None
        return [(struct(R, "Ok", (("0", x),)), s_some)] + [(struct(R, "Err", (("0", v),)), st) for v, st in r]
    if meth == "unwrap_or":
        return [(x, s_some), (vals[1], s_none)]
    if meth == "unwrap_or_else":
        r = call(vals[1], [], s_none)
        return None if r is None else [(x, s_some)] + list(r)
    if meth == "map":
        r = call(vals[1], [x], s_some)
        return None if r is None else [(some(v), st) for v, st in r] + [(NONE, s_none)]
    if meth == "and_then":
        r = call(vals[1], [x], s_some)
        return None if r is None else list(r) + [(NONE, s_none)]
    return None


def _is_opt(v):
    return isinstance(v, tuple) and len(v) > 3 and v[0] == "struct" and v[1].endswith("option::Option") and v[2] in ("Some", "None")


@suffix_model(r"option::Option<T>::(or_else|or|map|map_or|map_or_else|and_then|unwrap_or|unwrap_or_else|copied|cloned|ok_or|ok_or_else|is_some|is_none)$|option::Option<core::result::Result<T, E>>::transpose$")
def m_option_combinators(ev, vals, n, s, path, gens):
    """Option combinators on a value whose variant is known (constant folding of table look-ups)"""
    o = ev.deref_val(vals[0], s)
    if not _is_opt(o):
        return _symbolic_option(ev, o, vals, n, s, path)
    meth = path.rsplit("::", 1)[1]
    is_some = o[2] == "Some"
    x = o[3][0][1] if is_some else None

    def call(f, args):
        return _apply(ev, f, args, n, s, n.get("ty"))
    if meth == "transpose":
        R_ = "core::result::Result"
        if not is_some:
            return [(struct(R_, "Ok", (("0", NONE),)), s)]
        if _is_res(x):
            return [(struct(R_, "Ok", (("0", some(x[3][0][1])),)) if x[2] == "Ok" else x, s)]
        return None
    if meth == "map_or":
        return call(vals[2], [x]) if is_some else [(vals[1], s)]
    if meth == "map_or_else":
        return call(vals[2], [x]) if is_some else call(vals[1], [])
    if meth == "is_some":
        return [(T.TRUE if is_some else T.FALSE, s)]
    if meth == "is_none":
        return [(T.FALSE if is_some else T.TRUE, s)]
    if meth in ("copied", "cloned"):
        return [(some(ev.deref_val(x, s)) if is_some else NONE, s)]
    if meth == "or":
        return [(o if is_some else ev.deref_val(vals[1], s), s)]
    if meth == "or_else":
        return [(o, s)] if is_some else call(vals[1], [])
    if meth == "unwrap_or":
        return [(x if is_some else vals[1], s)]
    if meth == "unwrap_or_else":
        return [(x, s)] if is_some else call(vals[1], [])
    if meth == "map":
        if not is_some:
            return [(NONE, s)]
        r = call(vals[1], [x])
        return None if r is None else [(some(v), st) for v, st in r]
    if meth == "and_then":
        return call(vals[1], [x]) if is_some else [(NONE, s)]
    if meth == "ok_or":
        return [(struct("core::result::Result", "Ok" if is_some else "Err", (("0", x if is_some else vals[1]),)), s)]
    if meth == "ok_or_else":
        if is_some:
            return [(struct("core::result::Result", "Ok", (("0", x),)), s)]
        r = call(vals[1], [])
        return None if r is None else [(struct("core::result::Result", "Err", (("0", v),)), st) for v, st in r]
    return None


SUFFIX_MODELS.insert(0, SUFFIX_MODELS.pop())


def _struct_eq(a, b):
    """structural equality of two values built from known variants and bit-vector leaves -> condition term or None"""
    if isinstance(a, tuple) and isinstance(b, tuple) and a and b and a[0] == "struct" and b[0] == "struct":
        if a[2] != b[2]:
            return T.FALSE
        fa, fb = dict(a[3]), dict(b[3])
        if set(fa) != set(fb):
            return None
        c = T.TRUE
        for k in fa:
            e = _struct_eq(fa[k], fb[k])
            if e is None:
                return None
            c = T.land(c, e)
        return c
    if _w(a) and _w(a) == _w(b):
        return T.cmp("eq", _w(a), a, b)
    return None


@suffix_model(r"option::Option<T> as core::cmp::PartialEq>::(eq|ne)$|result::Result<T, E> as core::cmp::PartialEq>::(eq|ne)$")
def m_enum_eq(ev, vals, n, s, path, gens):
    a, b = ev.deref_val(vals[0], s), ev.deref_val(vals[1], s)
    c = _struct_eq(a, b)
    if c is None:
        return None
    return [(T.lnot(c) if path.endswith("::ne") else c, s)]


SUFFIX_MODELS.insert(0, SUFFIX_MODELS.pop())


def _is_res(v):
    return isinstance(v, tuple) and len(v) > 3 and v[0] == "struct" and v[1].endswith("result::Result") and v[2] in ("Ok", "Err")


@suffix_model(r"result::Result<T, E>::(map|map_err|and_then|or_else|ok|err|is_ok|is_err|unwrap_or|unwrap_or_else|unwrap_or_default)$")
def m_result_combinators(ev, vals, n, s, path, gens):
    """Result combinators on a value whose variant is known on this path"""
    o = ev.deref_val(vals[0], s)
    if not _is_res(o):
        return None
    meth = path.rsplit("::", 1)[1]
    is_ok = o[2] == "Ok"
    x = o[3][0][1]
    R = "core::result::Result"

    def call(f, args):
        if isinstance(f, tuple) and f and f[0] == "clo":
            return ev.inline_fn(f[1], list(args), n, s)
        return None

    def wrap(var, r):
        return None if r is None else [(struct(R, var, (("0", v),)), st) for v, st in r]
    if meth == "is_ok":
        return [(T.TRUE if is_ok else T.FALSE, s)]
    if meth == "is_err":
        return [(T.FALSE if is_ok else T.TRUE, s)]
    if meth == "ok":
        return [(some(x) if is_ok else NONE, s)]
    if meth == "err":
        return [(NONE if is_ok else some(x), s)]
    if meth == "map":
        return wrap("Ok", call(vals[1], [x])) if is_ok else [(o, s)]
    if meth == "map_err":
        return [(o, s)] if is_ok else wrap("Err", call(vals[1], [x]))
    if meth == "and_then":
        return call(vals[1], [x]) if is_ok else [(o, s)]
    if meth == "or_else":
        return [(o, s)] if is_ok else call(vals[1], [x])
    if meth == "unwrap_or":
        return [(x if is_ok else vals[1], s)]
    if meth == "unwrap_or_else":
        return [(x, s)] if is_ok else call(vals[1], [x])
    return None


SUFFIX_MODELS.insert(0, SUFFIX_MODELS.pop())


@suffix_model(r"str::<impl str>::(strip_suffix|strip_prefix|ends_with|starts_with|len|is_empty|split_at|to_ascii_lowercase|to_lowercase|eq_ignore_ascii_case)$")
def m_str_fold(ev, vals, n, s, path, gens):
    """string operations on literal (ASCII) strings: constant folding"""
    a = ev.deref_val(vals[0], s)
    if not (isinstance(a, tuple) and a and a[0] == "lit" and isinstance(a[1], str) and a[1].isascii()):
        return None
    meth = path.rsplit("::", 1)[1]
    b = ev.deref_val(vals[1], s) if len(vals) > 1 else None
    blit = b[1] if isinstance(b, tuple) and b and b[0] == "lit" and isinstance(b[1], str) else None
    if meth == "len":
        return [(T.K(64, len(a[1])), s)]
    if meth == "is_empty":
        return [(T.TRUE if not a[1] else T.FALSE, s)]
    if meth in ("to_ascii_lowercase", "to_lowercase"):
        return [(("lit", a[1].lower()), s)]
    if meth == "split_at" and T.is_k(b) and b[2] <= len(a[1]):
        return [(struct("tuple", "tuple", (("0", ("lit", a[1][:b[2]])), ("1", ("lit", a[1][b[2]:])))), s)]
    if blit is None:
        return None
    if meth == "strip_suffix":
        return [(some(("lit", a[1][:len(a[1]) - len(blit)])) if a[1].endswith(blit) else NONE, s)]
    if meth == "strip_prefix":
        return [(some(("lit", a[1][len(blit):])) if a[1].startswith(blit) else NONE, s)]
    if meth == "ends_with":
        return [(T.TRUE if a[1].endswith(blit) else T.FALSE, s)]
    if meth == "starts_with":
        return [(T.TRUE if a[1].startswith(blit) else T.FALSE, s)]
    if meth == "eq_ignore_ascii_case":
        return [(T.TRUE if a[1].lower() == blit.lower() else T.FALSE, s)]
    return None


SUFFIX_MODELS.insert(0, SUFFIX_MODELS.pop())


@suffix_model(r"HashMap<K, V>::new$|HashMap<K, V, S>::default$|BTreeMap<K, V>::new$")
def m_map_new(ev, vals, n, s, path, gens):
    return [(("map", ()), s)]


def m_vec_push(ev, n, st, fp, path, gens):
    """Vec::push: always recorded as a call effect (clients read the effects); in concrete-folding
    mode a vector that started as `Vec::new()` / `vec![]` is also kept as a concrete array value so
    that is_empty / len / indexing on it fold"""
    out = []
    for p, s in ev.ev_place(n["args"][0], st, fp):
        cur = ev.read_place(p, s)
        if isinstance(cur, tuple) and cur and cur[0] == "ref":
            p = cur[1]
            cur = ev.read_place(p, s)
        for vals, s2 in ev.seq_ev(n["args"][1:], s, fp):
            s3 = s2.effect(("call", path, (("ref", p), vals[0]), UNIT))
            if ev.unroll and isinstance(cur, tuple) and cur and cur[0] == "array":
                s3 = ev.write_place(p, ("array", tuple(cur[1]) + (vals[0],)), s3)
            out.append((UNIT, s3))
    return out


def m_vec_extend(ev, n, st, fp, path, gens):
    """Vec::extend with a value whose items are known on the path (an Option, a literal array, a concrete iterator):
    the same effects as pushing the items one by one"""
    out = []
    for p, s in ev.ev_place(n["args"][0], st, fp):
        cur = ev.read_place(p, s)
        if isinstance(cur, tuple) and cur and cur[0] == "ref":
            p = cur[1]
            cur = ev.read_place(p, s)
        for vals, s2 in ev.seq_ev(n["args"][1:], s, fp):
            src = ev.deref_val(vals[0], s2)
            items = None
            if _is_opt(src):
                items = [src[3][0][1]] if src[2] == "Some" else []
            elif isinstance(src, tuple) and src and src[0] == "array":
                items = list(src[1])
            elif isinstance(src, tuple) and src and src[0] == "iterc":
                items = list(src[1][src[2]:])
            if items is None:
                r = ("obj", "extend#%d" % ev.fresh(), "()")
                out.append((UNIT, s2.effect(("call", path, (("ref", p), vals[0]), UNIT))))
                continue
            s3 = s2
            for it in items:
                s3 = s3.effect(("call", "alloc::vec::Vec<T, A>::push", (("ref", p), it), UNIT))
                if ev.unroll and isinstance(cur, tuple) and cur and cur[0] == "array":
                    cur = ("array", tuple(cur[1]) + (it,))
                    s3 = ev.write_place(p, cur, s3)
            out.append((UNIT, s3))
    return out


m_vec_extend.wants_nodes = True
SUFFIX_MODELS.insert(0, (re.compile(r"vec::Vec<T, A> as core::iter::Extend<T>>::extend$|vec::Vec<T, A>::extend$"), m_vec_extend))


m_vec_push.wants_nodes = True
SUFFIX_MODELS.insert(0, (re.compile(r"vec::Vec<T, A>::push$"), m_vec_push))


@suffix_model(r"vec::Vec<T>::new$")
def m_vec_new(ev, vals, n, s, path, gens):
    if ev.unroll:
        return [(("array", ()), s.effect(("call", path, (), ("array", ()))))]
    return None


SUFFIX_MODELS.insert(0, SUFFIX_MODELS.pop())


def m_map_insert(ev, n, st, fp, path, gens):
    out = []
    for p, s in ev.ev_place(n["args"][0], st, fp):
        cur = ev.read_place(p, s)
        if isinstance(cur, tuple) and cur and cur[0] == "ref":
            p = cur[1]
            cur = ev.read_place(p, s)
        for vals, s2 in ev.seq_ev(n["args"][1:], s, fp):
            if isinstance(cur, tuple) and cur and cur[0] == "map":
                k, v = vals[0], vals[1]
                items = tuple(kv for kv in cur[1] if kv[0] != k) + ((k, v),)
                out.append((("obj", "insert-result", n["ty"]), ev.write_place(p, ("map", items), s2)))
            else:
                r = ("obj", "insert#%d" % ev.fresh(), n["ty"])
                out.append((r, s2.effect(("call", path, (cur,) + tuple(vals), r))))
    return out


m_map_insert.wants_nodes = True
SUFFIX_MODELS.insert(0, (re.compile(r"HashMap<K, V, S, A>::insert$|BTreeMap<K, V, A>::insert$"), m_map_insert))


@suffix_model(r"HashMap<K, V, S, A>::get$")
def m_map_get(ev, vals, n, s, path, gens):
    m, k = ev.deref_val(vals[0], s), ev.deref_val(vals[1], s)
    if isinstance(m, tuple) and m and m[0] == "map" and isinstance(k, tuple) and k and k[0] == "lit":
        for kk, vv in m[1]:
            if kk == k:
                return [(some(vv), s)]
        return [(NONE, s)]
    return None


@suffix_model(r"string::ToString>::to_string$|ToString::to_string$|String::as_str$|string::String as core::ops::Deref>::deref$|str::<impl str>::to_string$|String::from$|string::String as core::convert::From<&str>>::from$|string::String as core::convert::From<&core::string::String>>::from$")
def m_to_string(ev, vals, n, s, path, gens):
    v = ev.deref_val(vals[0], s)
    if isinstance(v, tuple) and v and v[0] in ("lit", "fmt"):
        return [(v, s)]
    return None


SUFFIX_MODELS.insert(0, SUFFIX_MODELS.pop())


@suffix_model(r"^core::fmt::rt::Argument<'_>::new_(display|debug|lower_hex|upper_hex)$|^core::fmt::rt::Argument::new_(display|debug|lower_hex|upper_hex)$")
def m_fmt_arg(ev, vals, n, s, path, gens):
    kind = path.rsplit("_", 1)[-1] if not path.endswith("lower_hex") else "lower_hex"
    kind = "display" if path.endswith("new_display") else "debug" if path.endswith("new_debug") else "lower_hex" if path.endswith("lower_hex") else "upper_hex"
    return [(("fmtarg", kind, ev.deref_val(vals[0], s), gens[0] if gens else None), s)]


SUFFIX_MODELS.insert(0, SUFFIX_MODELS.pop())

_FMT_RE = re.compile(r'''^\s*(?:\w+::)*(?:format|panic|println|write|writeln|warn|info)!\s*\(\s*(?:[A-Za-z_][\w.]*\s*,\s*)?"((?:[^"\\]|\\.)*)"''', re.S)
_HOLE = re.compile(r"\{\{|\}\}|\{([^{}:]*)(?::([^{}]*))?\}")


def m_format(ev, vals, n, s, path, gens):
    """alloc::fmt::format(Arguments): rebuild the text from the macro call-site snippet.  Pieces are
    literal strings or ('arg', spec, value, type)"""
    r = _format_pieces(ev, vals, n, s)
    if r is None:
        return [(("obj", "fmt", n["ty"]), s)]
    return [((("lit", "".join(pcs)) if all(isinstance(x, str) for x in pcs) else ("fmt", tuple(pcs))), st) for pcs, st in r]


def _display_impl(ev, ty):
    t = norm_path(ty or "")
    for cand in ("<%s as core::fmt::Display>::fmt" % t,):
        if cand in ev.F.fns and ev.F.fns[cand].get("thir"):
            return cand
    return None


def _expand_display(ev, pieces, n, s):
    """`{}` of a value whose type has a Display impl in the crate: the pieces its `fmt` writes (it may fork)"""
    alts = [([], s)]
    for pc in pieces:
        if not (isinstance(pc, tuple) and pc and pc[0] == "arg" and pc[1] == "" and isinstance(pc[2], tuple) and pc[2] and pc[2][0] == "struct"
                and _display_impl(ev, pc[3])):
            alts = [(acc + [pc], st) for acc, st in alts]
            continue
        impl = _display_impl(ev, pc[3])
        nxt = []
        for acc, st in alts:
            base = len(st.effects)
            r = ev.inline_fn(impl, [pc[2], ("obj", "FORMATTER", "&mut core::fmt::Formatter")], n, st)
            for _rv, st2 in (r or []):
                if not st2.feasible:
                    continue
                wrote = [e for e in st2.effects[base:] if e[0] == "fmt_write"]
                other = tuple(e for e in st2.effects[base:] if e[0] != "fmt_write" and not (e[0] == "panic_if" and e[1] == T.FALSE))
                if (st2.exit is not None and st2.exit[0] == "panic") or any(e[0] in ("store", "call") for e in other):
                    nxt.append((acc + [pc], st))        # the impl does something else: leave the hole opaque
                    continue
                nxt.append((acc + [x for e in wrote for x in e[1]], st2.fork(effects=st2.effects[:base] + other, exit=st.exit)))
        alts = nxt or [(acc + [pc], st) for acc, st in alts]
        if len(alts) > 16:
            return [(list(pieces), s)]
    out = []
    for acc, st in alts:
        merged = []
        for x in acc:
            if isinstance(x, str) and merged and isinstance(merged[-1], str):
                merged[-1] += x
            else:
                merged.append(x)
        out.append((merged, st))
    return out


@suffix_model(r"fmt::Formatter(<'\w+>)?::write_fmt$|fmt::Write>::write_fmt$|fmt::Write::write_fmt$")
def m_write_fmt(ev, vals, n, s, path, gens):
    """write!(f, ..) inside a Display impl: recorded as the pieces written"""
    r = _format_pieces(ev, vals[1:], n, s)
    if r is None:
        return None
    return [(struct("core::result::Result", "Ok", (("0", UNIT),)), st.effect(("fmt_write", tuple(pcs)))) for pcs, st in r]


@suffix_model(r"fmt::Formatter(<'\w+>)?::write_str$")
def m_write_str(ev, vals, n, s, path, gens):
    v = ev.deref_val(vals[1], s)
    if isinstance(v, tuple) and v and v[0] == "lit":
        return [(struct("core::result::Result", "Ok", (("0", UNIT),)), s.effect(("fmt_write", (str(v[1]),))))]
    return None


SUFFIX_MODELS.insert(0, SUFFIX_MODELS.pop())
SUFFIX_MODELS.insert(0, SUFFIX_MODELS.pop())       # both take precedence over the generic core::fmt model


def _format_pieces(ev, vals, n, s):
    """-> [(pieces, state)] for a format_args!-based call, or None when the template is not visible"""
    snip = n.get("snip") or ""
    m = _FMT_RE.match(snip)
    if not m:
        return None
    tmpl = m.group(1).encode().decode("unicode_escape") if "\\" in m.group(1) else m.group(1)
    args = []
    fa = vals[0] if vals else None
    # positional arguments: the fmtarg values inside the Arguments::new(...) argument array
    def collect(v):
        if isinstance(v, tuple) and v:
            if v[0] == "fmtarg":
                args.append(v)
                return
            for x in v:
                if isinstance(x, tuple):
                    collect(x)
    collect(fa)
    # rustc lowers format_args! to an array with one entry per distinct (argument, trait) pair in
    # order of first use in the template
    pieces, pos, last = [], 0, 0
    slot = {}
    for h in _HOLE.finditer(tmpl):
        pieces.append(tmpl[last:h.start()])
        last = h.end()
        if h.group(0) in ("{{", "}}"):
            pieces.append(h.group(0)[0])
            continue
        name, spec = h.group(1) or "", h.group(2) or ""
        if name == "":
            name = str(pos)
            pos += 1
        trait = "x" if spec.endswith("x") else "X" if spec.endswith("X") else "?" if spec.endswith("?") else ""
        key = (name, trait)
        if key not in slot:
            slot[key] = len(slot)
        i = slot[key]
        pieces.append(("hole", spec, args[i] if i < len(args) else None))
    pieces.append(tmpl[last:])
    out = []
    for pc in pieces:
        if isinstance(pc, str):
            if pc:
                out.append(pc)
            continue
        _, spec, v = pc
        if v is None:
            out.append(("arg", spec, ("opaque", "fmt-arg", 0), None))
            continue
        _k, kind, value, ty = v
        if isinstance(value, tuple) and value and value[0] == "lit" and spec in ("", "?"):
            out.append(str(value[1]) if spec == "" else repr(value[1]))
        elif isinstance(value, tuple) and value and value[0] == "fmt" and spec == "":
            out.extend(value[1])
        elif isinstance(value, tuple) and T.is_k(value) and spec == "" and ty == "char":
            out.append(chr(value[2]))
        elif isinstance(value, tuple) and T.is_k(value) and spec == "":
            sv = T.sval(value) if (ty or "").startswith("i") else value[2]
            out.append(str(sv))
        else:
            out.append(("arg", spec, value, ty))
    merged = []
    for x in out:
        if isinstance(x, str) and merged and isinstance(merged[-1], str):
            merged[-1] += x
        else:
            merged.append(x)
    return _expand_display(ev, merged, n, s)


MODELS["core::fmt::format"] = m_format


@suffix_model(r"fmt::Arguments(<'\w+>)?::new(_const|_v1|_v1_formatted)?$")
def m_fmt_arguments(ev, vals, n, s, path, gens):
    return [(("fmtargs",) + tuple(ev.deref_val(v, s) for v in vals), s)]


SUFFIX_MODELS.insert(0, SUFFIX_MODELS.pop())
