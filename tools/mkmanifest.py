#!/usr/bin/env python3
"""Regenerates /verif/MANIFEST.json from the table below (single source of truth)."""
import json
import os

VERIF = os.path.dirname(os.path.dirname(os.path.abspath(__file__)))
props = [json.loads(l) for l in open(os.path.join(VERIF, "properties.jsonl"))]

TRUST = ("trusted base: rustc's front end, MIR construction and constant evaluator (nightly, facts extracted from /repo's "
         "working tree on every run); semantics of the core/alloc primitives named in DESIGN.md section 4; ")

CLAIMS = {
    "C06": dict(
        category="proof",
        text="For each of the 256 opcode bytes the verifier's accepting paths through one loop iteration (path conditions as "
             "canonical bit-vector terms, pc advance) are extracted from typed THIR and must equal the paths the statement "
             "prescribes; likewise the checks outside the loop (length, last instruction). A MIR interval/linear/congruence "
             "analysis shows no panic site of the verifier can fire. All programs follow by induction over iterations.",
        note=TRUST + "the statement is the rule table; byteorder decoding trusted.",
        technique="symbolic summary of match arms over typed THIR + MIR abstract interpretation (panic inventory)",
        design="5/C06"),
    "C01": dict(
        category="proof",
        text="For every opcode byte the interpreter arm's effect summary (register writes, stores, branch condition and target, "
             "error exits) is extracted from typed THIR as normalised bit-vector terms over dst/src/off/imm and must equal the ISA "
             "reference term; parametric in the operands, hence valid for all operand values. Loop fetch/advance discipline, full-width "
             "pc arithmetic and the initial register state are checked structurally. F01 (zero-extended immediates in six unsigned "
             "64-bit jumps, pinned by a repository test) is a recorded known finding.",
        note=TRUST + "isaref.py is the ISA oracle (written from the specification); call/exit arms are decided under C07/C08.",
        technique="THIR symbolic summaries normalised to canonical bit-vector terms, compared with an ISA reference table",
        design="5/C01"),
    "C02": dict(
        category="proof",
        text="Every raw access in every memory arm is guarded on its path by inbounds(addr, n) for exactly its address and width; "
             "refusal paths return Err with no store; the bounds-check function's Ok condition equals no-wrap and containment in "
             "mbuff/mem/stack or a registered range (exists-quantified); raw primitives occur only in the interpreter."
             " Every bounds check is handed the four regions themselves and register_allowed_memory stores the caller's range unchanged (R02.g).",
        note=TRUST + "validity of slices and registered ranges is the caller's contract.",
        technique="THIR symbolic summaries with path conditions; predicate extraction of the bounds check",
        design="5/C02"),
    "C17": dict(
        category="proof",
        text="Bit-lane provenance: every bit of Insn::to_array / to_vec / builder into_bytes is shown to be the layout table's "
             "source bit, and every field decoded by get_insn the inverse lane at byte offset 8*idx; exact lanes make the round trip "
             "hold for all 2^64 slot values."
             " Builder opcode algebra: every constructor x enum-argument combination yields the ISA opcode (R17.d).",
        note=TRUST + "byteorder little-endian reads are modelled as byte lanes; register numbers 0-15; the builder's opcode algebra "
             "per constructor is not yet compared with the assembler's opcode table.",
        technique="bit-lane provenance over THIR symbolic terms",
        design="5/C17"),
    "C20": dict(
        category="proof",
        text="Configuration differ: the normalised typed THIR of every function body present in both the std and the no_std "
             "expansion is identical (299 bodies incl. interpreter, verifier, assembler, disassembler, JIT generator); the 8 bodies "
             "that differ each satisfy their own rule; items in one configuration only are the documented ones; no_std "
             "dependencies disable default features.",
        note=TRUST + "combine's easy_parse and parse are assumed to accept the same language.",
        technique="structural diff of type-checked bodies across cfg expansions",
        design="5/C20"),
    "C03": dict(
        category="translation_validation",
        text="Per-opcode template validation at byte level: for every opcode and (dst, src) register pair the bytes the code "
             "generator emits are derived by symbolic evaluation of its arm down to the emit macro (imm/off stay symbolic), decoded by "
             "an independent x86-64 decoder (REX, ModRM, disp8/disp32, literal jcc displacements) and interpreted over a symbolic "
             "machine state; effect on eBPF registers (via REGISTER_MAP), stores, branch condition and target must equal the "
             "interpreter's summary. quick: 15 register pairs per opcode (1650 templates); thorough: all 121 pairs (13310). F01 known.",
        note=TRUST + "x86model.py (decoder + semantics from the Intel SDM) is the oracle; in-bounds accesses assumed (no JIT checks by "
             "design); A-size for legacy-load displacements; call/exit/prologue are decided under C07/C08/C09.",
        technique="symbolic byte-template extraction from THIR + reference x86 decoder/interpreter, compared with interpreter terms",
        design="5/C03"),
    "C04": dict(
        category="translation_validation",
        text="Per-opcode template validation: the Cranelift translate arm is evaluated symbolically for each (dst, src) pair, its IR "
             "builder calls are replayed with the documented InstBuilder semantics, value-level selects are split into paths, and the "
             "effect on the register variables, stores, atomics and successor blocks must equal the interpreter's summary. Local "
             "calls reach Err; helper calls pass r1..r5 and define r0. quick: 6 pairs per opcode; thorough: all 121. F01 known; F33 "
             "(32-bit compare for 64-bit jumps) was found by this check and fixed.",
        note=TRUST + "clmodel.py (InstBuilder semantics from the 0.127 docs) is the oracle; Cranelift's lowering trusted; little-endian "
             "64-bit host; bounds checks decided under C11.",
        technique="THIR symbolic evaluation + replay of Cranelift IR builder calls against reference semantics, compared with interpreter terms",
        design="5/C04"),
    "C11": dict(
        category="proof",
        text="In every memory opcode's translation each load/store/atomic_rmw is immediately guarded by trapz(p) where p, as a "
             "term, equals the reference predicate no-wrap & (stack | mem&has_mem | mbuf&has_mbuf) for the same start = base+sext(off) "
             "and the access's own byte width; raw memory builder calls occur only in the three guarded wrappers; the prelude binds the "
             "region variables to (param, param+len) and the 512-byte stack slot."
             " Memory operations carry plain MemFlags only (R11.m).",
        note=TRUST + "that a Cranelift trap aborts before the guarded access is Cranelift's contract.",
        technique="replay of Cranelift IR builder calls to terms; predicate equality with a reference normal form",
        design="5/C11"),
    "C18": dict(
        category="proof",
        text="Structural necessary condition in all three engines: the only memory effect of XADD is one atomic RMW primitive of the "
             "instruction's width on dst+off with trunc_w(src): interpreter fetch_add behind bounds and alignment tests (misaligned -> "
             "Err, no effect), JIT `lock add` for all 121 register pairs (lock prefix and REX.W checked by the decoder), Cranelift "
             "atomic_rmw Add. The no-lost-update conclusion for every schedule rests on the primitives' atomicity, which is NOT decided here.",
        note=TRUST + "atomicity of AtomicU32/U64::fetch_add, x86 LOCK and Cranelift atomic_rmw is trusted (hardware/core contract); "
             "schedules are not explored.",
        technique="per-engine effect summaries (THIR symbolic evaluation, x86 decoder, Cranelift replay) restricted to the atomic arms",
        design="5/C18"),
    "C05": dict(
        category="proof",
        text="Assume-guarantee closure: every panic-capable site reachable from the interpreter entry (MIR asserts, unwrap/index/"
             "panic calls) is proved unable to fire by an interval/linear/congruence analysis or is discharged by a row citing a "
             "guarantee; each guarantee (opcode cover, endian widths, register bound, no fall-off, validated control targets) is "
             "checked by comparing the verifier's extracted accept conditions with the interpreter's per-opcode path summaries."
             " Guarantees are checked per accepting path of the verifier (target validated on that path; register fields used by the arm bounded on that path).",
        note=TRUST + "assumption A-addr (slice addresses < 2^63); user helpers outside the claim; non-termination allowed.",
        technique="MIR abstract interpretation (panic inventory) + THIR symbolic summaries, assume-guarantee rows",
        design="5/C05"),
    "C07": dict(
        category="proof",
        text="From the symbolic summaries of the interpreter's local-call and exit arms: save set == restore set (r6..r9, return pc), "
             "same frame index after increment/decrement, inverse r10 adjustment by the same frame's usage, depth guard before the "
             "frame write with bound == array length, return pc == pc+1 and callee pc == pc+1+sext(imm), no write to r0-r5; the "
             "local-call discriminator (opc == CALL && src == 1) agrees in verifier, interpreter, JIT and stack-usage pass; JIT native "
             "call template pushes/pops mirror. F19 (JIT does not lower the frame pointer) is a recorded known finding."
             " Loop-head frame-size bookkeeping writes only the current depth's slot (R07.f); the registered stack-usage calculator is the one stored and consulted (R07.g).",
        note=TRUST + "stack-slot non-aliasing under the JIT does NOT hold (F19); JIT behaviour past depth 8 is outside its documented "
             "guarantees; arbitrary calculators only enter through usage(frame).",
        technique="THIR symbolic summaries of the call/exit arms with mirror rules; x86 template decoding",
        design="5/C07"),
    "C08": dict(
        category="proof",
        text="Per engine, from the call arm's summary: key imm as u32, arguments (r1..r5) in order, result in r0, one call per path, "
             "unknown id -> Err (run time / compile time), r6-r10 and the JIT's packet base preserved; x86 stack parity: prologue "
             "delta, per-local-call delta (0 mod 16) and call-site pushes give rsp = 0 (mod 16) at `call rax` at every depth."
             " Cranelift symbol names agree between registration and import declaration (R08.k); the JIT's lookup key is imm as u32."
             " register_helper files the function under the given key on every VM kind (R08.r).",
        note=TRUST + "SysV AMD64 ABI facts (argument registers, callee-saved set) are the reference; Cranelift's own ABI lowering trusted.",
        technique="THIR symbolic summaries + x86 byte-template decoding with stack-depth accounting + Cranelift IR replay",
        design="5/C08"),
    "C09": dict(
        category="proof",
        text="JIT prologue/epilogue templates for the three wrapper flag configurations are decoded and run from the SysV entry state: "
             "r1 source, r10 = top of a 512-byte area, packet base register, the two fixed-mbuff pointer stores (parametric in the "
             "offsets), epilogue mirrors prologue; wrappers' flags, null-for-empty-packet and argument order; buffer-length closure == "
             "max(x,y)+8; interpreter/Cranelift wrappers' little-endian pointer writes; Cranelift prelude region variables and r1 select."
             " Both pointer stores happen on every path that runs the program, in the interpreter and Cranelift wrappers (symbolic evaluation)."
             " The fixed-mbuff constructor stores the offsets as given and a zeroed buffer (R09.n).",
        note=TRUST + "interpreter r1/r10 initialisation is checked under C01/R01.f; overlapping offsets excluded by the statement.",
        technique="x86 byte-template decoding of the JIT prologue + structural rules over wrapper THIR + Cranelift prelude replay",
        design="5/C09"),
    "C10": dict(
        category="proof",
        text="Per-method path rules over symbolic summaries of the VM API methods: failure atomicity of set_program/set_verifier, "
             "verify-before-store, who-may-write, paired writes with compiled-artefact invalidation, None->Err, &self execution. "
             "Histories of any length follow by induction over calls."
             " Reload starts from a fresh zeroed metadata buffer (R10.g); compile methods always rebuild from the current program and helpers (R10.h); rules also run on the cranelift configuration.",
        note=TRUST + "the stack-usage calculator's private data is outside R10.a; helpers replaced after JIT compilation are a "
             "documented limitation; cranelift_prog invalidation is checked in the cranelift configuration (thorough tier).",
        technique="THIR symbolic execution of API methods with path rules",
        design="5/C10"),
    "C12": dict(
        category="proof",
        text="Panic inventory of the x86-64 JIT and of the Cranelift compiler with assume-guarantee rows; two-pass sizing passes "
             "identical arguments; raw code-buffer writes only behind the emit assert / in fix-up; terminator opcodes have their "
             "next block prepared; CFG targets only from verified offsets; no clock/RNG reachable (repeatability)."
             " Emit predicate exact (R12.i); JIT fix-up targets are anchors, pc+1 or the interpreter's next-pc terms (R12.j)."
             " Compiler loops step over the second slot of a wide load (R12.k).",
        note=TRUST + "Cranelift's own code and IR verifier are trusted; code size < 2^31 assumed from the instruction limit.",
        technique="MIR abstract interpretation (panic inventory) + structural set rules over THIR summaries",
        design="5/C12"),
    "C13": dict(
        category="proof",
        text="The assembler's mnemonic table, obtained by constant-folding make_instruction_map (92 entries), equals the reference "
             "table (name -> instruction type, size payload, base opcode); for all 14 instruction types x 20 operand shapes `encode` "
             "places each operand in the documented field with the documented source bit or returns Err; out-of-range register, "
             "offset and immediate values reach Err; lddw emits the high half in a second slot; no bytes are produced on any Err path."
             " Name resolution is decided by evaluating the assembler's own assemble_internal per documented mnemonic and shape and for undocumented names (R13.a, R13.u); numeric literal semantics (R13.g); the register parser backtracks where a mnemonic may follow (R13.h).",
        note=TRUST + "the combine parser's accepted language is trusted (grammar literals are checked structurally).",
        technique="THIR symbolic evaluation of the assembler (name resolution with constant folding of strings/maps, encode per operand shape)",
        design="5/C13"),
    "C16": dict(
        category="proof",
        text="Per opcode, symbolically in the instruction fields: the disassembler's rendered text (format pieces tied to the fields "
             "they print) tokenised with the assembler's operand grammar, looked up in the folded mnemonic table and pushed through "
             "`encode` yields the same opcode, the same used fields and zero unused fields; negative 32-bit immediates reach the "
             "assembler's range error, never a different instruction; only atomic add and tail call have no assembler spelling."
             " Mnemonic and operands go through the assembler's own resolution (asmmodel.resolve); consecutive lines parse as separate instructions (R16.p).",
        note=TRUST + "alloc::fmt integer formatting and the combine parser's token language are trusted.",
        technique="THIR symbolic evaluation of renderer and encoder composed through a token-level grammar model",
        design="5/C16"),
    "C15": dict(
        category="proof",
        text="For each of the 123 supported opcodes the disassembler loop body pushes exactly one HLInsn whose opc/dst/src/off are "
             "the decoded fields and whose imm is sext(imm) (or the merged 64-bit lanes for lddw), with the right pc advance; panic "
             "inventory of to_insn_vec with the precondition-excluded sites quoted. Text rendering is decided under C16."
             " The rendered text is the mnemonic plus operands that denote the instruction's own fields under the assembler's grammar (R15.c).",
        note=TRUST + "integer formatting by alloc::fmt trusted.",
        technique="THIR symbolic summaries per opcode + MIR panic inventory",
        design="5/C15"),
    "C19": dict(
        category="proof",
        text="Panic inventory of every public helper under its pointer precondition; closed forms of gather_bytes (lane "
             "expression), sqrti (cast-sqrt-cast), memfrob (loop shape) and strcmp's null case. The numeric clauses (sqrt exactness "
             "below 2^52, printf byte count, rand range) are NOT decided: no sound static argument in reach."
             " strcmp's scan and absolute-difference result, rand's range reduction (R19.b).",
        note=TRUST + "f64 sqrt/log and std thread-locals trusted.",
        technique="MIR abstract interpretation + THIR symbolic closed forms",
        design="5/C19"),
    "C14": dict(
        category="proof",
        text="Every panic-capable site reachable from assemble() (MIR Assert terminators, unwrap/index/panic calls, including "
             "closures handed to the parser combinators) is proved unable to fire by a MIR interval/linear analysis or matched "
             "by a justified row; any new site is a violation.",
        note=TRUST + "combine's own code (panics, termination) is not analysed; 'bounded time' is not decided.",
        technique="MIR abstract interpretation: exhaustive panic-site inventory",
        design="5/C14"),
}

NOT_YET = "rule set not built yet in this round (see DESIGN.md section 9); no weaker proxy is claimed"

checks, na = [], []
for p in props:
    pid = p["id"]
    c = CLAIMS.get(pid)
    if c is None:
        na.append({"property_id": pid, "reason": NOT_YET})
        continue
    checks.append({
        "property_id": pid,
        "quick_cmd": "bin/check %s --tier quick" % pid,
        "thorough_cmd": "bin/check %s --tier thorough" % pid,
        "evidence_file": "evidence/%s.json" % pid,
        "replay_cmd_template": "bin/check %s --replay {path}" % pid,
        "engine": "rules",
        "level_claimed": {"category": c["category"], "text": c["text"], "design_ref": c["design"]},
        "level_note": c["note"],
        "technique": c["technique"],
    })

manifest = {
    "version": 1,
    "setup_cmd": "cd tools/factgen && CARGO_NET_OFFLINE=true cargo build --release --offline",
    "hooks": {
        "guard": "none",
        "enable": "no hooks: nothing in /repo is instrumented or compiled differently; facts come from "
                  "`cargo +nightly check --lib` of the working tree with tools/factgen as RUSTC_WORKSPACE_WRAPPER",
        "baseline_off_cmd": "cd /repo && cargo test --workspace --no-fail-fast --offline",
        "source_commits": [],
        "add_only": True,
    },
    "engines": [
        {"name": "factgen", "path": "tools/factgen", "serves_properties": [c["property_id"] for c in checks],
         "kind_free_text": "rustc_private driver: consts, ADTs, typed THIR, MIR with resolved callees, as JSON"},
        {"name": "rules", "path": "rules", "serves_properties": [c["property_id"] for c in checks],
         "kind_free_text": "python3 stdlib rule engines: MIR abstract interpretation (intervals, linear facts, congruences), "
                           "THIR symbolic summaries with normalising bit-vector terms, set/path rules"},
    ],
    "checks": checks,
    "not_applicable": na,
    "notes": "All checks are static: no rbpf code is executed. Fix commits in /repo are listed in known_findings.json.",
}
with open(os.path.join(VERIF, "MANIFEST.json"), "w") as fh:
    json.dump(manifest, fh, indent=1)
print("claimed:", [c["property_id"] for c in checks], "not applicable:", len(na))
