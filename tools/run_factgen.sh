#!/bin/bash
# usage: run_factgen.sh <config: std|nostd|cranelift> <out.json> [repo]
set -e
CFG=$1; OUT=$2; REPO=${3:-/repo}
HERE=$(cd "$(dirname "$0")" && pwd)
DRV=$HERE/factgen/target/release/factgen
[ -x "$DRV" ] || { echo "factgen driver not built (run setup)"; exit 2; }
case $CFG in
  std) FLAGS="";;
  nostd) FLAGS="--no-default-features";;
  cranelift) FLAGS="--features cranelift";;
  *) echo "bad config"; exit 2;;
esac
# One warm target directory per configuration under /verif/.cache (dependencies are compiled once);
# cargo's freshness cache would skip the driver on a warm directory, so the workspace member's
# fingerprints are removed first and the run is serialised with a lock.  The fact file must exist after.
TD=$HERE/../.cache/target/$CFG
mkdir -p "$TD"
T=$(mktemp -d "${TMPDIR:-/tmp}/factgen.XXXXXX")
trap 'rm -rf "$T"' EXIT
cd "$REPO"
rm -f "$OUT"
(
flock 9
rm -rf "$TD"/debug/.fingerprint/rbpf-* "$TD"/debug/deps/librbpf-* "$TD"/debug/deps/rbpf-*
LD_LIBRARY_PATH=$(rustc +nightly --print sysroot)/lib \
RUSTFLAGS="-Zmir-opt-level=0 -Awarnings" \
RUSTC_WORKSPACE_WRAPPER=$DRV FACTGEN_OUT=$OUT FACTGEN_CONFIG=$CFG \
CARGO_NET_OFFLINE=true CARGO_TARGET_DIR=$TD \
cargo +nightly check --offline --lib $FLAGS >$T/log 2>&1 || { cat $T/log | tail -40; exit 3; }
) 9>"$TD/.lock" || exit 3
[ -s "$OUT" ] || { echo "factgen produced no fact file"; tail -20 $T/log; exit 3; }
