#!/bin/bash
# usage: run_factgen.sh <config: std|nostd|cranelift> <out.json> [repo]
set -e
CFG=$1; OUT=$2; REPO=${3:-/repo}
HERE=$(cd "$(dirname "$0")" && pwd)
DRV=$HERE/factgen/target/release/factgen
[ -x "$DRV" ] || { echo "factgen driver not built (run setup)"; exit 2; }
case $CFG in
  std) FLAGS="";;
  nostd) FLAGS="--no-default-features";;
  cranelift) FLAGS="--features cranelift";;
  *) echo "bad config"; exit 2;;
esac
T=$(mktemp -d "${TMPDIR:-/tmp}/factgen.XXXXXX")
trap 'rm -rf "$T"' EXIT
cd "$REPO"
rm -f "$OUT"
LD_LIBRARY_PATH=$(rustc +nightly --print sysroot)/lib \
RUSTFLAGS="-Zmir-opt-level=0 -Awarnings" \
RUSTC_WORKSPACE_WRAPPER=$DRV FACTGEN_OUT=$OUT FACTGEN_CONFIG=$CFG \
CARGO_NET_OFFLINE=true CARGO_TARGET_DIR=$T/t \
cargo +nightly check --offline --lib $FLAGS >$T/log 2>&1 || { cat $T/log | tail -40; exit 3; }
[ -s "$OUT" ] || { echo "factgen produced no fact file"; tail -20 $T/log; exit 3; }
