#!/usr/bin/env python3
"""tools/mkmatrix.py: print the seeded-change catch matrix (markdown) from seeded/*/{meta,result}.json"""
import json, os
V = os.path.dirname(os.path.dirname(os.path.abspath(__file__)))
print("| seeded change | what was changed (agent's summary, abridged) | reported by (violation keys of the target property) | also reported by |")
print("|---|---|---|---|")
for d in sorted(os.listdir(os.path.join(V, "seeded"))):
    mp, rp = os.path.join(V, "seeded", d, "meta.json"), os.path.join(V, "seeded", d, "result.json")
    if not (os.path.exists(mp) and os.path.exists(rp)):
        continue
    m, r = json.load(open(mp)), json.load(open(rp))
    summ = " ".join(str(m.get("summary", "")).split())[:170].replace("|", "/")
    keys = ", ".join(k.split("/", 1)[1] if "/" in k else k for k in r["keys"][:3]) + (" …" if len(r["keys"]) > 3 else "")
    print("| %s | %s | %s | %s |" % (d, summ, ("**%s**: %s" % (r["target"], keys)) if r["caught_by_target"] else "**not reported by %s**" % r["target"],
                                     ", ".join(sorted(r.get("also", {}))) or "—"))
