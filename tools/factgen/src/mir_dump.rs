// MIR -> JSON (CFG, resolved callees, assert terminators), plus const-item evaluation.
use crate::json::J;
use crate::{path_of, span_json, ty_str};
use rustc_hir::def::DefKind;
use rustc_hir::def_id::{DefId, LocalDefId};
use rustc_middle::mir::*;
use rustc_middle::ty::{self, Ty, TyCtxt};

pub fn eval_const_item<'tcx>(tcx: TyCtxt<'tcx>, did: DefId, cty: Ty<'tcx>) -> J {
    let Ok(ca) = tcx.const_eval_poly_to_alloc(did) else {
        return J::Null;
    };
    let alloc = tcx.global_alloc(ca.alloc_id).unwrap_memory();
    let alloc = alloc.inner();
    let bytes = alloc.inspect_with_uninit_and_ptr_outside_interpreter(0..alloc.len());
    decode(tcx, cty, bytes)
}

fn int_width(t: Ty<'_>) -> Option<(usize, bool)> {
    match t.kind() {
        ty::Uint(u) => Some((u.bit_width().unwrap_or(64) as usize / 8, false)),
        ty::Int(i) => Some((i.bit_width().unwrap_or(64) as usize / 8, true)),
        ty::Bool => Some((1, false)),
        _ => None,
    }
}

fn decode<'tcx>(tcx: TyCtxt<'tcx>, t: Ty<'tcx>, bytes: &[u8]) -> J {
    if let Some((w, signed)) = int_width(t) {
        if bytes.len() >= w {
            let mut v: u128 = 0;
            for i in (0..w).rev() {
                v = (v << 8) | bytes[i] as u128;
            }
            if signed && w < 16 && (v >> (w * 8 - 1)) & 1 == 1 {
                return J::Int(v as i128 - (1i128 << (w * 8)));
            }
            return J::Int(v as i128);
        }
    }
    if let ty::Array(elem, _) = t.kind() {
        if let Some((w, _)) = int_width(*elem) {
            return J::Arr(bytes.chunks(w).map(|c| decode(tcx, *elem, c)).collect());
        }
    }
    // a struct whose fields are all integers / bools (e.g. a `RangeInclusive<u8>` constant): decode by layout
    if let ty::Adt(adt, args) = t.kind() {
        if adt.is_struct() {
            let env = ty::TypingEnv::fully_monomorphized();
            if let Ok(layout) = tcx.layout_of(env.as_query_input(t)) {
                let mut fields: Vec<(String, J)> = vec![];
                let mut ok = true;
                for (i, f) in adt.non_enum_variant().fields.iter().enumerate() {
                    let fty = f.ty(tcx, args);
                    let off = layout.fields.offset(i).bytes() as usize;
                    match int_width(fty) {
                        Some((w, _)) if off + w <= bytes.len() => {
                            fields.push((f.name.to_string(), decode(tcx, fty, &bytes[off..off + w])));
                        }
                        _ => {
                            ok = false;
                            break;
                        }
                    }
                }
                if ok && !fields.is_empty() {
                    return J::Obj(vec![(
                        "fields".to_string(),
                        J::Obj(fields),
                    )]);
                }
            }
        }
    }
    J::Str(format!("bytes:{}", bytes.iter().map(|b| format!("{:02x}", b)).collect::<String>()))
}

struct Mx<'a, 'tcx> {
    tcx: TyCtxt<'tcx>,
    body: &'a Body<'tcx>,
    env: ty::TypingEnv<'tcx>,
}

pub fn dump_mir<'tcx>(tcx: TyCtxt<'tcx>, ldid: LocalDefId) -> J {
    let did = ldid.to_def_id();
    if !matches!(tcx.def_kind(did), DefKind::Fn | DefKind::AssocFn | DefKind::Closure) {
        return J::Null;
    }
    if !tcx.is_mir_available(did) {
        return J::Null;
    }
    let body = tcx.optimized_mir(did);
    let env = ty::TypingEnv::post_analysis(tcx, did);
    let mx = Mx { tcx, body, env };
    let mut names: Vec<Option<String>> = vec![None; body.local_decls.len()];
    for vdi in &body.var_debug_info {
        if let VarDebugInfoContents::Place(p) = &vdi.value {
            if p.projection.is_empty() {
                names[p.local.as_usize()] = Some(vdi.name.to_string());
            }
        }
    }
    let locals: Vec<J> = body
        .local_decls
        .iter_enumerated()
        .map(|(l, d)| {
            J::obj(vec![
                ("id", J::Int(l.as_usize() as i128)),
                ("ty", J::Str(ty_str(d.ty))),
                ("name", J::opt(names[l.as_usize()].clone().map(J::Str))),
            ])
        })
        .collect();
    let blocks: Vec<J> = body
        .basic_blocks
        .iter_enumerated()
        .map(|(_bb, data)| {
            let stmts: Vec<J> = data.statements.iter().filter_map(|s| mx.stmt(s)).collect();
            let term = data.terminator();
            let (line, key) = span_json(tcx, term.source_info.span);
            J::obj(vec![
                ("stmts", J::Arr(stmts)),
                ("term", mx.term(term)),
                ("line", line),
                ("sp", key),
                ("cleanup", J::Bool(data.is_cleanup)),
            ])
        })
        .collect();
    J::obj(vec![
        ("argc", J::Int(body.arg_count as i128)),
        ("locals", J::Arr(locals)),
        ("blocks", J::Arr(blocks)),
    ])
}

impl<'a, 'tcx> Mx<'a, 'tcx> {
    fn place(&self, p: &Place<'tcx>) -> J {
        let mut proj = Vec::new();
        for (base, elem) in p.iter_projections() {
            let j = match elem {
                ProjectionElem::Deref => J::s("deref"),
                ProjectionElem::Field(f, _) => {
                    let pty = base.ty(&self.body.local_decls, self.tcx);
                    let name = match pty.ty.kind() {
                        ty::Adt(adt, _) => {
                            let vi = pty.variant_index.unwrap_or(rustc_abi::FIRST_VARIANT);
                            adt.variant(vi).fields[f].name.to_string()
                        }
                        _ => f.as_usize().to_string(),
                    };
                    J::obj(vec![("f", J::Str(name))])
                }
                ProjectionElem::Index(l) => J::obj(vec![("idx", J::Int(l.as_usize() as i128))]),
                ProjectionElem::ConstantIndex { offset, from_end, .. } => J::obj(vec![
                    ("cidx", J::Int(offset as i128)),
                    ("from_end", J::Bool(from_end)),
                ]),
                ProjectionElem::Subslice { from, to, from_end } => J::obj(vec![
                    ("sub_from", J::Int(from as i128)),
                    ("sub_to", J::Int(to as i128)),
                    ("from_end", J::Bool(from_end)),
                ]),
                ProjectionElem::Downcast(name, _) => {
                    J::obj(vec![("downcast", J::Str(name.map(|s| s.to_string()).unwrap_or_default()))])
                }
                other => J::Str(format!("{:?}", other)),
            };
            proj.push(j);
        }
        J::obj(vec![("l", J::Int(p.local.as_usize() as i128)), ("p", J::Arr(proj))])
    }

    fn fn_const(&self, t: Ty<'tcx>) -> Option<J> {
        if let ty::FnDef(did, args) = *t.kind() {
            let mut v = vec![
                ("path", J::Str(path_of(self.tcx, did))),
                (
                    "generics",
                    J::Arr(args.iter().filter_map(|a| a.as_type()).map(|t| J::Str(ty_str(t))).collect()),
                ),
                ("local", J::Bool(did.is_local())),
                ("defkind", J::Str(format!("{:?}", self.tcx.def_kind(did)))),
            ];
            if matches!(self.tcx.def_kind(did), DefKind::Fn | DefKind::AssocFn) {
                if let Ok(Some(inst)) = ty::Instance::try_resolve(self.tcx, self.env, did, args) {
                    let rd = inst.def_id();
                    v.push(("resolved", J::Str(path_of(self.tcx, rd))));
                    v.push(("resolved_local", J::Bool(rd.is_local())));
                    // closure call through Fn* traits: the callee is the closure body
                    if let ty::InstanceKind::ClosureOnceShim { .. } = inst.def {
                        v.push(("shim", J::s("closure_once")));
                    }
                }
                // `<closure as FnMut>::call_mut` etc.: record the closure def from Self type
                if let Some(self_ty) = args.iter().filter_map(|a| a.as_type()).next() {
                    if let ty::Closure(cdid, _) = *self_ty.kind() {
                        v.push(("closure_self", J::Str(path_of(self.tcx, cdid))));
                    }
                }
            }
            Some(J::obj(v))
        } else {
            None
        }
    }

    fn operand(&self, o: &Operand<'tcx>) -> J {
        match o {
            Operand::Copy(p) => J::obj(vec![("copy", self.place(p))]),
            Operand::Move(p) => J::obj(vec![("move", self.place(p))]),
            Operand::Constant(c) => {
                let t = c.const_.ty();
                if let Some(f) = self.fn_const(t) {
                    return J::obj(vec![("fn", f)]);
                }
                let mut v = vec![("ty", J::Str(ty_str(t)))];
                match t.kind() {
                    ty::Int(_) | ty::Uint(_) | ty::Bool | ty::Char => {
                        if let Some(s) = c.const_.try_eval_scalar_int(self.tcx, self.env) {
                            let bits = s.to_bits_unchecked();
                            let val = if let ty::Int(_) = t.kind() {
                                s.size().sign_extend(bits) as i128
                            } else {
                                bits as i128
                            };
                            v.push(("v", J::Int(val)));
                        } else {
                            v.push(("dbg", J::Str(format!("{:?}", c.const_))));
                        }
                    }
                    _ => {
                        if let Const::Unevaluated(u, _) = c.const_ {
                            v.push(("path", J::Str(path_of(self.tcx, u.def))));
                            if u.promoted.is_some() {
                                v.push(("promoted", J::Bool(true)));
                            }
                        }
                        // `&T` constants (promoteds such as `&(0..16)`): dump the pointee bytes
                        if let ty::Ref(_, inner, _) = t.kind() {
                            if let Ok(rustc_middle::mir::ConstValue::Scalar(
                                rustc_middle::mir::interpret::Scalar::Ptr(ptr, _),
                            )) = c.const_.eval(self.tcx, self.env, rustc_span::DUMMY_SP)
                            {
                                let (prov, off) = ptr.into_raw_parts();
                                if let Some(rustc_middle::mir::interpret::GlobalAlloc::Memory(a)) =
                                    self.tcx.try_get_global_alloc(prov.alloc_id())
                                {
                                    let a = a.inner();
                                    let start = off.bytes() as usize;
                                    if a.len() >= start && a.len() - start <= 64 && a.provenance().ptrs().is_empty() {
                                        let bytes = a.inspect_with_uninit_and_ptr_outside_interpreter(start..a.len());
                                        v.push((
                                            "pbytes",
                                            J::Str(bytes.iter().map(|b| format!("{:02x}", b)).collect::<String>()),
                                        ));
                                        v.push(("pty", J::Str(ty_str(*inner))));
                                    }
                                }
                            }
                        }
                        // `&str` constants (panic / assertion messages): the text itself
                        if let ty::Ref(_, inner, _) = t.kind() {
                            if inner.is_str() {
                                if let Ok(rustc_middle::mir::ConstValue::Slice { alloc_id, meta }) =
                                    c.const_.eval(self.tcx, self.env, rustc_span::DUMMY_SP)
                                {
                                    if let Some(rustc_middle::mir::interpret::GlobalAlloc::Memory(a)) =
                                        self.tcx.try_get_global_alloc(alloc_id)
                                    {
                                        let a = a.inner();
                                        let len = meta as usize;
                                        if len <= a.len() && len <= 400 {
                                            let bytes = a.inspect_with_uninit_and_ptr_outside_interpreter(0..len);
                                            v.push(("str", J::Str(String::from_utf8_lossy(bytes).to_string())));
                                        }
                                    }
                                }
                            }
                        }
                        let d: String = format!("{:?}", c.const_).chars().take(200).collect();
                        v.push(("dbg", J::Str(d)));
                    }
                }
                J::obj(vec![("const", J::obj(v))])
            }
            other => J::obj(vec![("other", J::Str(format!("{:?}", other)))]),
        }
    }

    fn stmt(&self, s: &Statement<'tcx>) -> Option<J> {
        let (line, key) = span_json(self.tcx, s.source_info.span);
        match &s.kind {
            StatementKind::Assign(b) => {
                let (place, rv) = &**b;
                let r = match rv {
                    Rvalue::Use(o, ..) => J::obj(vec![("k", J::s("use")), ("o", self.operand(o))]),
                    Rvalue::CopyForDeref(p) => J::obj(vec![
                        ("k", J::s("use")),
                        ("o", J::obj(vec![("copy", self.place(p))])),
                    ]),
                    Rvalue::Ref(_, bk, p) => J::obj(vec![
                        ("k", J::s("ref")),
                        ("mut", J::Bool(matches!(bk, BorrowKind::Mut { .. }))),
                        ("p", self.place(p)),
                    ]),
                    Rvalue::RawPtr(k, p) => J::obj(vec![
                        ("k", J::s("rawptr")),
                        ("kind", J::Str(format!("{:?}", k))),
                        ("p", self.place(p)),
                    ]),
                    Rvalue::Cast(ck, o, t) => J::obj(vec![
                        ("k", J::s("cast")),
                        ("ck", J::Str(format!("{:?}", ck).chars().take_while(|c| c.is_alphanumeric()).collect::<String>())),
                        ("o", self.operand(o)),
                        ("from", J::Str(ty_str(o.ty(&self.body.local_decls, self.tcx)))),
                        ("to", J::Str(ty_str(*t))),
                    ]),
                    Rvalue::BinaryOp(op, ab) => J::obj(vec![
                        ("k", J::s("bin")),
                        ("op", J::Str(format!("{:?}", op))),
                        ("a", self.operand(&ab.0)),
                        ("b", self.operand(&ab.1)),
                        ("aty", J::Str(ty_str(ab.0.ty(&self.body.local_decls, self.tcx)))),
                    ]),
                    Rvalue::UnaryOp(op, a) => J::obj(vec![
                        ("k", J::s("un")),
                        ("op", J::Str(format!("{:?}", op))),
                        ("a", self.operand(a)),
                    ]),
                    Rvalue::Discriminant(p) => J::obj(vec![("k", J::s("discr")), ("p", self.place(p))]),
                    Rvalue::Repeat(o, n) => J::obj(vec![
                        ("k", J::s("repeat")),
                        ("o", self.operand(o)),
                        ("n", J::Str(format!("{}", n))),
                    ]),
                    Rvalue::Aggregate(ak, ops) => {
                        let mut v = vec![("k", J::s("agg"))];
                        match &**ak {
                            AggregateKind::Adt(did, vi, ..) => {
                                v.push(("ak", J::s("adt")));
                                v.push(("path", J::Str(path_of(self.tcx, *did))));
                                let adt = self.tcx.adt_def(*did);
                                let var = adt.variant(*vi);
                                v.push(("variant", J::Str(var.name.to_string())));
                                v.push(("vidx", J::Int(vi.as_usize() as i128)));
                                v.push(("is_enum", J::Bool(adt.is_enum())));
                                v.push((
                                    "fields",
                                    J::Arr(var.fields.iter().map(|f| J::Str(f.name.to_string())).collect()),
                                ));
                            }
                            AggregateKind::Closure(did, _) => {
                                v.push(("ak", J::s("closure")));
                                v.push(("path", J::Str(path_of(self.tcx, *did))));
                            }
                            AggregateKind::Array(_) => v.push(("ak", J::s("array"))),
                            AggregateKind::Tuple => v.push(("ak", J::s("tuple"))),
                            other => v.push(("ak", J::Str(format!("{:?}", other)))),
                        }
                        v.push(("ops", J::Arr(ops.iter().map(|o| self.operand(o)).collect())));
                        J::obj(v)
                    }
                    other => J::obj(vec![
                        ("k", J::s("other")),
                        ("dbg", J::Str(format!("{:?}", other).chars().take(200).collect::<String>())),
                    ]),
                };
                Some(J::obj(vec![
                    ("k", J::s("assign")),
                    ("p", self.place(place)),
                    ("r", r),
                    ("line", line),
                    ("sp", key),
                ]))
            }
            StatementKind::SetDiscriminant { place, variant_index } => Some(J::obj(vec![
                ("k", J::s("setdiscr")),
                ("p", self.place(place)),
                ("variant", J::Int(variant_index.as_usize() as i128)),
                ("line", line),
            ])),
            StatementKind::Intrinsic(i) => Some(J::obj(vec![
                ("k", J::s("intrinsic")),
                ("dbg", J::Str(format!("{:?}", i).chars().take(200).collect::<String>())),
                ("line", line),
            ])),
            _ => None,
        }
    }

    fn term(&self, t: &Terminator<'tcx>) -> J {
        let bb = |b: BasicBlock| J::Int(b.as_usize() as i128);
        let unwind = |u: &UnwindAction| match u {
            UnwindAction::Cleanup(b) => J::Int(b.as_usize() as i128),
            _ => J::Null,
        };
        match &t.kind {
            TerminatorKind::Goto { target } => J::obj(vec![("k", J::s("goto")), ("target", bb(*target))]),
            TerminatorKind::SwitchInt { discr, targets } => {
                let mut vals = Vec::new();
                let mut tgts = Vec::new();
                for (v, b) in targets.iter() {
                    vals.push(J::Int(v as i128));
                    tgts.push(bb(b));
                }
                J::obj(vec![
                    ("k", J::s("switch")),
                    ("discr", self.operand(discr)),
                    ("dty", J::Str(ty_str(discr.ty(&self.body.local_decls, self.tcx)))),
                    ("values", J::Arr(vals)),
                    ("targets", J::Arr(tgts)),
                    ("otherwise", bb(targets.otherwise())),
                ])
            }
            TerminatorKind::Return => J::obj(vec![("k", J::s("return"))]),
            TerminatorKind::Unreachable => J::obj(vec![("k", J::s("unreachable"))]),
            TerminatorKind::UnwindResume => J::obj(vec![("k", J::s("resume"))]),
            TerminatorKind::UnwindTerminate(_) => J::obj(vec![("k", J::s("terminate"))]),
            TerminatorKind::Drop { place, target, unwind: u, .. } => J::obj(vec![
                ("k", J::s("drop")),
                ("p", self.place(place)),
                ("pty", J::Str(ty_str(place.ty(&self.body.local_decls, self.tcx).ty))),
                ("target", bb(*target)),
                ("unwind", unwind(u)),
            ]),
            TerminatorKind::Call { func, args, destination, target, unwind: u, .. } => {
                let f = match func {
                    Operand::Constant(c) => self.fn_const(c.const_.ty()),
                    _ => None,
                };
                let fty = func.ty(&self.body.local_decls, self.tcx);
                let mut v = vec![("k", J::s("call"))];
                match f {
                    Some(j) => v.push(("callee", j)),
                    None => {
                        v.push(("indirect", self.operand(func)));
                        v.push(("fty", J::Str(ty_str(fty))));
                    }
                }
                v.push(("args", J::Arr(args.iter().map(|a| self.operand(&a.node)).collect())));
                v.push((
                    "argtys",
                    J::Arr(
                        args.iter()
                            .map(|a| J::Str(ty_str(a.node.ty(&self.body.local_decls, self.tcx))))
                            .collect(),
                    ),
                ));
                v.push(("dest", self.place(destination)));
                v.push(("target", J::opt(target.map(bb))));
                v.push(("unwind", unwind(u)));
                if t.source_info.span.from_expansion() {
                    let macs: Vec<J> = t
                        .source_info
                        .span
                        .macro_backtrace()
                        .filter_map(|ed| match ed.kind {
                            rustc_span::hygiene::ExpnKind::Macro(_, n) => Some(J::Str(n.to_string())),
                            rustc_span::hygiene::ExpnKind::Desugaring(d) => Some(J::Str(format!("desugar:{:?}", d))),
                            _ => None,
                        })
                        .collect();
                    v.push(("mac", J::Arr(macs)));
                }
                J::obj(v)
            }
            TerminatorKind::Assert { cond, expected, msg, target, unwind: u } => {
                let (kind, ops): (String, Vec<J>) = match &**msg {
                    AssertKind::BoundsCheck { len, index } => {
                        ("BoundsCheck".into(), vec![self.operand(len), self.operand(index)])
                    }
                    AssertKind::Overflow(op, a, b) => {
                        (format!("Overflow({:?})", op), vec![self.operand(a), self.operand(b)])
                    }
                    AssertKind::OverflowNeg(a) => ("OverflowNeg".into(), vec![self.operand(a)]),
                    AssertKind::DivisionByZero(a) => ("DivisionByZero".into(), vec![self.operand(a)]),
                    AssertKind::RemainderByZero(a) => ("RemainderByZero".into(), vec![self.operand(a)]),
                    AssertKind::MisalignedPointerDereference { required, found } => (
                        "MisalignedPointerDereference".into(),
                        vec![self.operand(required), self.operand(found)],
                    ),
                    AssertKind::NullPointerDereference => ("NullPointerDereference".into(), vec![]),
                    other => (
                        format!("{:?}", other).chars().take_while(|c| c.is_alphanumeric()).collect(),
                        vec![],
                    ),
                };
                J::obj(vec![
                    ("k", J::s("assert")),
                    ("kind", J::Str(kind)),
                    ("ops", J::Arr(ops)),
                    ("cond", self.operand(cond)),
                    ("expected", J::Bool(*expected)),
                    ("target", bb(*target)),
                    ("unwind", unwind(u)),
                ])
            }
            TerminatorKind::FalseEdge { real_target, .. } => {
                J::obj(vec![("k", J::s("goto")), ("target", bb(*real_target))])
            }
            TerminatorKind::FalseUnwind { real_target, .. } => {
                J::obj(vec![("k", J::s("goto")), ("target", bb(*real_target))])
            }
            other => J::obj(vec![
                ("k", J::s("other")),
                ("dbg", J::Str(format!("{:?}", other).chars().take(200).collect::<String>())),
            ]),
        }
    }
}
