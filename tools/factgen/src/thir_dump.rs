// Typed THIR -> JSON.  One tree per body owner.
use crate::json::J;
use crate::{path_of, span_json, ty_str};
use rustc_hir::def::DefKind;
use rustc_hir::def_id::LocalDefId;
use rustc_middle::thir::*;
use rustc_middle::ty::{self, Ty, TyCtxt};
use rustc_span::hygiene::ExpnKind;

pub struct Cx<'a, 'tcx> {
    tcx: TyCtxt<'tcx>,
    thir: &'a Thir<'tcx>,
    owner: LocalDefId,
}

pub fn dump_body<'tcx>(tcx: TyCtxt<'tcx>, ldid: LocalDefId) -> J {
    let Ok((steal, root)) = tcx.thir_body(ldid) else {
        return J::Null;
    };
    let thir = steal.borrow();
    let cx = Cx { tcx, thir: &thir, owner: ldid };
    let params: Vec<J> = thir
        .params
        .iter()
        .map(|p| {
            J::obj(vec![
                ("ty", J::Str(ty_str(p.ty))),
                ("pat", J::opt(p.pat.as_ref().map(|pt| cx.pat(pt)))),
                ("self", J::Bool(p.self_kind.is_some())),
            ])
        })
        .collect();
    J::obj(vec![("params", J::Arr(params)), ("body", cx.expr(root))])
}

fn int_of_scalar<'tcx>(tcx: TyCtxt<'tcx>, t: Ty<'tcx>, s: ty::ScalarInt) -> J {
    let bits = s.to_bits_unchecked();
    match t.kind() {
        ty::Int(_) => {
            let size = s.size();
            J::Int(size.sign_extend(bits) as i128)
        }
        ty::Bool => J::Bool(bits != 0),
        ty::Char => J::Str(char::from_u32(bits as u32).map(|c| c.to_string()).unwrap_or_default()),
        _ => {
            let _ = tcx;
            J::Int(bits as i128)
        }
    }
}

impl<'a, 'tcx> Cx<'a, 'tcx> {
    fn node(&self, k: &str, e: &Expr<'tcx>, mut rest: Vec<(&'static str, J)>) -> J {
        let (line, key) = span_json(self.tcx, e.span);
        let mut v: Vec<(String, J)> = vec![
            ("k".into(), J::Str(k.into())),
            ("ty".into(), J::Str(ty_str(e.ty))),
            ("line".into(), line),
            ("sp".into(), key),
        ];
        if e.span.from_expansion() {
            let mut macs = Vec::new();
            let mut desugar = None;
            for ed in e.span.macro_backtrace() {
                match ed.kind {
                    ExpnKind::Macro(_, name) => macs.push(J::Str(name.to_string())),
                    ExpnKind::Desugaring(d) => desugar = Some(format!("{:?}", d)),
                    _ => {}
                }
            }
            if !macs.is_empty() {
                v.push(("mac".into(), J::Arr(macs)));
            }
            if let Some(d) = desugar {
                v.push(("desugar".into(), J::Str(d)));
            }
        }
        for (k, x) in rest.drain(..) {
            v.push((k.to_string(), x));
        }
        J::Obj(v)
    }

    fn field_name(&self, lhs_ty: Ty<'tcx>, variant: rustc_abi::VariantIdx, f: rustc_abi::FieldIdx) -> String {
        match lhs_ty.kind() {
            ty::Adt(adt, _) => adt.variant(variant).fields[f].name.to_string(),
            _ => f.as_usize().to_string(),
        }
    }

    fn fn_item(&self, t: Ty<'tcx>) -> Option<Vec<(&'static str, J)>> {
        if let ty::FnDef(did, args) = *t.kind() {
            let mut v = vec![
                ("path", J::Str(path_of(self.tcx, did))),
                (
                    "generics",
                    J::Arr(
                        args.iter()
                            .filter_map(|a| a.as_type())
                            .map(|t| J::Str(ty_str(t)))
                            .collect(),
                    ),
                ),
                ("defkind", J::Str(format!("{:?}", self.tcx.def_kind(did)))),
                ("local", J::Bool(did.is_local())),
            ];
            if matches!(self.tcx.def_kind(did), DefKind::Fn | DefKind::AssocFn) {
                let has_infer = args.iter().any(|a| {
                    let s = format!("{:?}", a);
                    s.contains("?") || s.contains("{type error}")
                });
                if !has_infer {
                    let env = ty::TypingEnv::post_analysis(self.tcx, self.tcx.typeck_root_def_id(self.owner.to_def_id()));
                    if let Ok(Some(inst)) = ty::Instance::try_resolve(self.tcx, env, did, args) {
                        v.push(("resolved", J::Str(path_of(self.tcx, inst.def_id()))));
                    }
                }
            }
            Some(v)
        } else {
            None
        }
    }

    pub fn expr(&self, id: ExprId) -> J {
        let e = &self.thir[id];
        match &e.kind {
            ExprKind::Scope { value, .. } => self.expr(*value),
            ExprKind::Use { source } => self.expr(*source),
            ExprKind::ByUse { expr, .. } => self.expr(*expr),
            ExprKind::PlaceTypeAscription { source, .. }
            | ExprKind::ValueTypeAscription { source, .. } => self.expr(*source),
            ExprKind::NeverToAny { source } => self.node("never", e, vec![("e", self.expr(*source))]),
            ExprKind::If { cond, then, else_opt, .. } => self.node(
                "if",
                e,
                vec![
                    ("c", self.expr(*cond)),
                    ("t", self.expr(*then)),
                    ("e", J::opt(else_opt.map(|x| self.expr(x)))),
                ],
            ),
            ExprKind::Call { fun, args, from_hir_call, .. } => {
                let f = &self.thir[*fun];
                let mut rest: Vec<(&'static str, J)> = Vec::new();
                let fty = self.peel(*fun);
                if let Some(fi) = self.fn_item(fty) {
                    rest.push(("callee", J::obj(fi)));
                } else {
                    rest.push(("fun", self.expr(*fun)));
                    rest.push(("fun_ty", J::Str(ty_str(f.ty))));
                }
                rest.push(("args", J::Arr(args.iter().map(|a| self.expr(*a)).collect())));
                rest.push(("hir_call", J::Bool(*from_hir_call)));
                if e.span.from_expansion() {
                    let cs = e.span.source_callsite();
                    if let Ok(s) = self.tcx.sess.source_map().span_to_snippet(cs) {
                        let s: String = s.chars().take(600).collect();
                        rest.push(("snip", J::Str(s)));
                    }
                }
                self.node("call", e, rest)
            }
            ExprKind::Deref { arg } => self.node("deref", e, vec![("e", self.expr(*arg))]),
            ExprKind::Binary { op, lhs, rhs } => self.node(
                "bin",
                e,
                vec![
                    ("op", J::Str(format!("{:?}", op))),
                    ("l", self.expr(*lhs)),
                    ("r", self.expr(*rhs)),
                ],
            ),
            ExprKind::LogicalOp { op, lhs, rhs } => self.node(
                "logic",
                e,
                vec![
                    ("op", J::Str(format!("{:?}", op))),
                    ("l", self.expr(*lhs)),
                    ("r", self.expr(*rhs)),
                ],
            ),
            ExprKind::Unary { op, arg } => self.node(
                "un",
                e,
                vec![("op", J::Str(format!("{:?}", op))), ("e", self.expr(*arg))],
            ),
            ExprKind::Cast { source } => {
                let from = self.thir[*source].ty;
                self.node(
                    "cast",
                    e,
                    vec![("from", J::Str(ty_str(from))), ("e", self.expr(*source))],
                )
            }
            ExprKind::PointerCoercion { cast, source, .. } => {
                let from = self.thir[*source].ty;
                self.node(
                    "coerce",
                    e,
                    vec![
                        ("kind", J::Str(format!("{:?}", cast))),
                        ("from", J::Str(ty_str(from))),
                        ("e", self.expr(*source)),
                    ],
                )
            }
            ExprKind::Loop { body } => self.node("loop", e, vec![("body", self.expr(*body))]),
            ExprKind::Let { expr, pat } => {
                self.node("let", e, vec![("pat", self.pat(pat)), ("e", self.expr(*expr))])
            }
            ExprKind::Match { scrutinee, arms, match_source } => {
                let arms: Vec<J> = arms
                    .iter()
                    .map(|a| {
                        let arm = &self.thir[*a];
                        let (line, _) = span_json(self.tcx, arm.span);
                        J::obj(vec![
                            ("pat", self.pat(&arm.pattern)),
                            ("guard", J::opt(arm.guard.map(|g| self.expr(g)))),
                            ("body", self.expr(arm.body)),
                            ("line", line),
                        ])
                    })
                    .collect();
                self.node(
                    "match",
                    e,
                    vec![
                        ("scrut", self.expr(*scrutinee)),
                        ("arms", J::Arr(arms)),
                        ("src", J::Str(format!("{:?}", match_source))),
                    ],
                )
            }
            ExprKind::Block { block } => {
                let b = &self.thir[*block];
                let stmts: Vec<J> = b.stmts.iter().map(|s| self.stmt(*s)).collect();
                self.node(
                    "block",
                    e,
                    vec![
                        ("stmts", J::Arr(stmts)),
                        ("tail", J::opt(b.expr.map(|x| self.expr(x)))),
                        ("unsafe", J::Bool(!matches!(b.safety_mode, BlockSafety::Safe))),
                    ],
                )
            }
            ExprKind::Assign { lhs, rhs } => {
                self.node("assign", e, vec![("l", self.expr(*lhs)), ("r", self.expr(*rhs))])
            }
            ExprKind::AssignOp { op, lhs, rhs } => self.node(
                "assignop",
                e,
                vec![
                    ("op", J::Str(format!("{:?}", op))),
                    ("l", self.expr(*lhs)),
                    ("r", self.expr(*rhs)),
                ],
            ),
            ExprKind::Field { lhs, variant_index, name } => {
                let lty = self.thir[*lhs].ty;
                self.node(
                    "field",
                    e,
                    vec![
                        ("e", self.expr(*lhs)),
                        ("name", J::Str(self.field_name(lty, *variant_index, *name))),
                    ],
                )
            }
            ExprKind::Index { lhs, index } => {
                self.node("index", e, vec![("e", self.expr(*lhs)), ("i", self.expr(*index))])
            }
            ExprKind::VarRef { id } => self.node(
                "var",
                e,
                vec![
                    ("name", J::Str(self.tcx.hir_name(id.0).to_string())),
                    ("id", J::Int(id.0.local_id.as_u32() as i128)),
                ],
            ),
            ExprKind::UpvarRef { var_hir_id, .. } => self.node(
                "upvar",
                e,
                vec![
                    ("name", J::Str(self.tcx.hir_name(var_hir_id.0).to_string())),
                    ("id", J::Int(var_hir_id.0.local_id.as_u32() as i128)),
                ],
            ),
            ExprKind::Borrow { borrow_kind, arg } => self.node(
                "ref",
                e,
                vec![
                    ("mut", J::Bool(matches!(borrow_kind, rustc_middle::mir::BorrowKind::Mut { .. }))),
                    ("e", self.expr(*arg)),
                ],
            ),
            ExprKind::RawBorrow { mutability, arg } => self.node(
                "rawref",
                e,
                vec![("mut", J::Bool(mutability.is_mut())), ("e", self.expr(*arg))],
            ),
            ExprKind::Break { value, .. } => {
                self.node("break", e, vec![("e", J::opt(value.map(|x| self.expr(x))))])
            }
            ExprKind::Continue { .. } => self.node("continue", e, vec![]),
            ExprKind::Return { value } => {
                self.node("ret", e, vec![("e", J::opt(value.map(|x| self.expr(x))))])
            }
            ExprKind::Repeat { value, count } => self.node(
                "repeat",
                e,
                vec![
                    ("e", self.expr(*value)),
                    ("count", J::Str(ty::print::with_no_trimmed_paths!(format!("{}", count)))),
                ],
            ),
            ExprKind::Array { fields } => {
                self.node("array", e, vec![("es", J::Arr(fields.iter().map(|x| self.expr(*x)).collect()))])
            }
            ExprKind::Tuple { fields } => {
                self.node("tuple", e, vec![("es", J::Arr(fields.iter().map(|x| self.expr(*x)).collect()))])
            }
            ExprKind::Adt(adt) => {
                let v = adt.adt_def.variant(adt.variant_index);
                let fields: Vec<(String, J)> = adt
                    .fields
                    .iter()
                    .map(|f| (v.fields[f.name].name.to_string(), self.expr(f.expr)))
                    .collect();
                let base = match &adt.base {
                    AdtExprBase::Base(fru) => self.expr(fru.base),
                    _ => J::Null,
                };
                self.node(
                    "adt",
                    e,
                    vec![
                        ("path", J::Str(path_of(self.tcx, adt.adt_def.did()))),
                        ("variant", J::Str(v.name.to_string())),
                        ("fields", J::Obj(fields)),
                        ("base", base),
                    ],
                )
            }
            ExprKind::Closure(c) => self.node(
                "closure",
                e,
                vec![
                    ("path", J::Str(path_of(self.tcx, c.closure_id.to_def_id()))),
                    ("upvars", J::Arr(c.upvars.iter().map(|u| self.expr(*u)).collect())),
                ],
            ),
            ExprKind::Literal { lit, neg } => {
                use rustc_ast::ast::LitKind;
                let v = match &lit.node {
                    LitKind::Int(i, _) => {
                        let x = i.get() as i128;
                        J::Int(if *neg { -x } else { x })
                    }
                    LitKind::Bool(b) => J::Bool(*b),
                    LitKind::Str(s, _) => J::Str(s.to_string()),
                    LitKind::Char(c) => J::Str(c.to_string()),
                    LitKind::Byte(b) => J::Int(*b as i128),
                    LitKind::Float(s, _) => J::Str(format!("{}{}", if *neg { "-" } else { "" }, s)),
                    other => J::Str(format!("{:?}", other)),
                };
                let kind = match &lit.node {
                    LitKind::Int(..) | LitKind::Byte(..) => "int",
                    LitKind::Bool(..) => "bool",
                    LitKind::Str(..) => "str",
                    LitKind::Char(..) => "char",
                    LitKind::Float(..) => "float",
                    _ => "other",
                };
                self.node("lit", e, vec![("v", v), ("lk", J::Str(kind.into()))])
            }
            ExprKind::NonHirLiteral { lit, .. } => {
                self.node("lit", e, vec![("v", int_of_scalar(self.tcx, e.ty, *lit)), ("lk", J::Str("int".into()))])
            }
            ExprKind::ZstLiteral { .. } => {
                if let Some(fi) = self.fn_item(e.ty) {
                    self.node("fn", e, fi)
                } else {
                    self.node("zst", e, vec![])
                }
            }
            ExprKind::NamedConst { def_id, .. } => {
                self.node("const", e, vec![("path", J::Str(path_of(self.tcx, *def_id)))])
            }
            ExprKind::ConstParam { def_id, .. } => {
                self.node("constparam", e, vec![("path", J::Str(path_of(self.tcx, *def_id)))])
            }
            ExprKind::StaticRef { def_id, .. } => {
                self.node("static", e, vec![("path", J::Str(path_of(self.tcx, *def_id)))])
            }
            ExprKind::ThreadLocalRef(def_id) => {
                self.node("tls", e, vec![("path", J::Str(path_of(self.tcx, *def_id)))])
            }
            ExprKind::ConstBlock { did, .. } => {
                self.node("constblock", e, vec![("path", J::Str(path_of(self.tcx, *did)))])
            }
            other => {
                let name = format!("{:?}", other);
                let name: String = name.chars().take_while(|c| c.is_alphanumeric()).collect();
                self.node("unknown", e, vec![("what", J::Str(name))])
            }
        }
    }

    // type of the callee expression after peeling scopes
    fn peel(&self, mut id: ExprId) -> Ty<'tcx> {
        loop {
            match &self.thir[id].kind {
                ExprKind::Scope { value, .. } => id = *value,
                ExprKind::Use { source } => id = *source,
                _ => return self.thir[id].ty,
            }
        }
    }

    fn stmt(&self, id: StmtId) -> J {
        match &self.thir[id].kind {
            StmtKind::Expr { expr, .. } => J::obj(vec![("k", J::Str("expr".into())), ("e", self.expr(*expr))]),
            StmtKind::Let { pattern, initializer, else_block, span, .. } => {
                let (line, _) = span_json(self.tcx, *span);
                let els = else_block.map(|b| {
                    let b = &self.thir[b];
                    J::obj(vec![
                        ("stmts", J::Arr(b.stmts.iter().map(|s| self.stmt(*s)).collect())),
                        ("tail", J::opt(b.expr.map(|x| self.expr(x)))),
                    ])
                });
                J::obj(vec![
                    ("k", J::Str("let".into())),
                    ("pat", self.pat(pattern)),
                    ("init", J::opt(initializer.map(|x| self.expr(x)))),
                    ("else", J::opt(els)),
                    ("line", line),
                ])
            }
        }
    }

    pub fn pat(&self, p: &Pat<'tcx>) -> J {
        let t = ("ty", J::Str(ty_str(p.ty)));
        match &p.kind {
            PatKind::Wild | PatKind::Missing => J::obj(vec![("k", J::s("wild")), t]),
            PatKind::Binding { name, var, subpattern, mode, .. } => J::obj(vec![
                ("k", J::s("bind")),
                t,
                ("name", J::Str(name.to_string())),
                ("id", J::Int(var.0.local_id.as_u32() as i128)),
                ("mode", J::Str(format!("{:?}", mode))),
                ("sub", J::opt(subpattern.as_ref().map(|s| self.pat(s)))),
            ]),
            PatKind::Constant { value } => {
                let v = match value.valtree.try_to_leaf() {
                    Some(s) => int_of_scalar(self.tcx, value.ty, s),
                    None => J::Str(ty::print::with_no_trimmed_paths!(format!("{}", value))),
                };
                J::obj(vec![("k", J::s("const")), t, ("v", v)])
            }
            PatKind::Range(r) => {
                let b = |x: &PatRangeBoundary<'tcx>| match x {
                    PatRangeBoundary::Finite(v) => match v.try_to_leaf() {
                        Some(s) => int_of_scalar(self.tcx, r.ty, s),
                        None => J::Null,
                    },
                    PatRangeBoundary::NegInfinity => J::s("-inf"),
                    PatRangeBoundary::PosInfinity => J::s("+inf"),
                };
                J::obj(vec![
                    ("k", J::s("range")),
                    t,
                    ("lo", b(&r.lo)),
                    ("hi", b(&r.hi)),
                    ("incl", J::Bool(matches!(r.end, rustc_hir::RangeEnd::Included))),
                ])
            }
            PatKind::Or { pats } => {
                J::obj(vec![("k", J::s("or")), t, ("pats", J::Arr(pats.iter().map(|x| self.pat(x)).collect()))])
            }
            PatKind::Variant { adt_def, variant_index, subpatterns, .. } => {
                let v = adt_def.variant(*variant_index);
                let subs: Vec<J> = subpatterns
                    .iter()
                    .map(|fp| {
                        J::obj(vec![
                            ("field", J::Str(v.fields[fp.field].name.to_string())),
                            ("pat", self.pat(&fp.pattern)),
                        ])
                    })
                    .collect();
                J::obj(vec![
                    ("k", J::s("variant")),
                    t,
                    ("adt", J::Str(path_of(self.tcx, adt_def.did()))),
                    ("variant", J::Str(v.name.to_string())),
                    ("subs", J::Arr(subs)),
                ])
            }
            PatKind::Leaf { subpatterns } => {
                let subs: Vec<J> = subpatterns
                    .iter()
                    .map(|fp| {
                        let fname = match p.ty.kind() {
                            ty::Adt(adt, _) if adt.is_struct() => {
                                adt.non_enum_variant().fields[fp.field].name.to_string()
                            }
                            _ => fp.field.as_usize().to_string(),
                        };
                        J::obj(vec![("field", J::Str(fname)), ("pat", self.pat(&fp.pattern))])
                    })
                    .collect();
                J::obj(vec![("k", J::s("leaf")), t, ("subs", J::Arr(subs))])
            }
            PatKind::Deref { subpattern, .. } => {
                J::obj(vec![("k", J::s("deref")), t, ("sub", self.pat(subpattern))])
            }
            PatKind::DerefPattern { subpattern, .. } => {
                J::obj(vec![("k", J::s("deref")), t, ("sub", self.pat(subpattern))])
            }
            PatKind::Guard { subpattern, condition } => J::obj(vec![
                ("k", J::s("guard")),
                t,
                ("sub", self.pat(subpattern)),
                ("cond", self.expr(*condition)),
            ]),
            PatKind::Slice { prefix, slice, suffix } | PatKind::Array { prefix, slice, suffix } => J::obj(vec![
                ("k", J::s("slice")),
                t,
                ("fixed", J::Bool(matches!(&p.kind, PatKind::Array { .. }))),
                ("prefix", J::Arr(prefix.iter().map(|x| self.pat(x)).collect())),
                ("rest", J::opt(slice.as_ref().map(|x| self.pat(x)))),
                ("suffix", J::Arr(suffix.iter().map(|x| self.pat(x)).collect())),
            ]),
            other => {
                let name = format!("{:?}", other);
                let name: String = name.chars().take_while(|c| c.is_alphanumeric()).collect();
                J::obj(vec![("k", J::s("unknown")), t, ("what", J::Str(name))])
            }
        }
    }
}
