// factgen: rustc_private driver that dumps facts about the `rbpf` library crate
// (consts, ADTs, fn signatures, typed THIR, MIR with resolved callees) as one JSON
// file per compilation.  Used as RUSTC_WORKSPACE_WRAPPER under `cargo +nightly check`.
// Zero crates.io dependencies.  The rule engines in /verif/rules consume the output.
#![feature(rustc_private)]
#![allow(clippy::all)]

extern crate rustc_abi;
extern crate rustc_ast;
extern crate rustc_driver;
extern crate rustc_hir;
extern crate rustc_interface;
extern crate rustc_middle;
extern crate rustc_session;
extern crate rustc_span;

mod json;
mod mir_dump;
mod thir_dump;

use json::J;
use rustc_driver::Compilation;
use rustc_hir::def::DefKind;
use rustc_middle::ty::{self, TyCtxt};
use std::collections::BTreeMap;

pub struct Facts {
    pub thir: BTreeMap<String, J>,
    pub out: Option<String>,
    pub config: String,
}

pub fn path_of(tcx: TyCtxt<'_>, did: rustc_hir::def_id::DefId) -> String {
    ty::print::with_no_trimmed_paths!(tcx.def_path_str(did))
}

pub fn ty_str<'tcx>(t: ty::Ty<'tcx>) -> String {
    ty::print::with_no_trimmed_paths!(format!("{}", t))
}

pub fn span_json(tcx: TyCtxt<'_>, sp: rustc_span::Span) -> (J, J) {
    // returns (line of the outermost call site, "file:lo-hi" key used only to join THIR and MIR)
    let sm = tcx.sess.source_map();
    let cs = sp.source_callsite();
    let lo = sm.lookup_char_pos(cs.lo());
    let file = format!("{}", lo.file.name.prefer_local_unconditionally());
    let file = file.rsplit('/').next().unwrap_or("").to_string();
    let key = format!("{}:{}-{}", file, sp.lo().0, sp.hi().0);
    (J::Str(format!("{}:{}", file, lo.line)), J::Str(key))
}

impl rustc_driver::Callbacks for Facts {
    fn after_expansion<'tcx>(
        &mut self,
        _c: &rustc_interface::interface::Compiler,
        tcx: TyCtxt<'tcx>,
    ) -> Compilation {
        if self.out.is_none() {
            return Compilation::Continue;
        }
        for ldid in tcx.hir_body_owners() {
            let path = path_of(tcx, ldid.to_def_id());
            let j = thir_dump::dump_body(tcx, ldid);
            self.thir.insert(path, j);
        }
        Compilation::Continue
    }

    fn after_analysis<'tcx>(
        &mut self,
        _c: &rustc_interface::interface::Compiler,
        tcx: TyCtxt<'tcx>,
    ) -> Compilation {
        let Some(out) = self.out.clone() else {
            return Compilation::Continue;
        };
        let mut fns: Vec<(String, J)> = Vec::new();
        let mut consts: Vec<(String, J)> = Vec::new();
        let mut adts: Vec<(String, J)> = Vec::new();

        // ---- ADTs and their fields / discriminants
        for id in tcx.hir_free_items() {
            let did = id.owner_id.to_def_id();
            match tcx.def_kind(did) {
                DefKind::Struct | DefKind::Enum => {
                    let adt = tcx.adt_def(did);
                    let mut variants = Vec::new();
                    for (vi, v) in adt.variants().iter_enumerated() {
                        let discr = if adt.is_enum() {
                            J::Int(adt.discriminant_for_variant(tcx, vi).val as i128)
                        } else {
                            J::Null
                        };
                        let fields: Vec<J> = v
                            .fields
                            .iter()
                            .map(|f| {
                                let fty = tcx.type_of(f.did).instantiate_identity().skip_norm_wip();
                                J::obj(vec![
                                    ("name", J::Str(f.name.to_string())),
                                    ("ty", J::Str(ty_str(fty))),
                                    ("pub", J::Bool(tcx.visibility(f.did).is_public())),
                                ])
                            })
                            .collect();
                        variants.push(J::obj(vec![
                            ("name", J::Str(v.name.to_string())),
                            ("discr", discr),
                            ("fields", J::Arr(fields)),
                        ]));
                    }
                    adts.push((
                        path_of(tcx, did),
                        J::obj(vec![
                            ("kind", J::Str(if adt.is_enum() { "enum" } else { "struct" }.into())),
                            ("pub", J::Bool(tcx.visibility(did).is_public())),
                            ("variants", J::Arr(variants)),
                        ]),
                    ));
                }
                _ => {}
            }
        }

        // ---- body owners: consts (evaluated) and fns (signature + THIR + MIR)
        for ldid in tcx.hir_body_owners() {
            let did = ldid.to_def_id();
            let path = path_of(tcx, did);
            let kind = tcx.def_kind(did);
            match kind {
                DefKind::Const { .. } | DefKind::AssocConst { .. } => {
                    if tcx.generics_of(did).count() == 0 {
                        let cty = tcx.type_of(did).instantiate_identity().skip_norm_wip();
                        let val = mir_dump::eval_const_item(tcx, did, cty);
                        let (line, _) = span_json(tcx, tcx.def_span(did));
                        let mut co = vec![
                            ("ty", J::Str(ty_str(cty))),
                            ("value", val),
                            ("pub", J::Bool(tcx.visibility(did).is_public())),
                            ("line", line),
                        ];
                        // the initialiser expression (tables of strings, struct constants) for the evaluator
                        if let Some(t) = self.thir.remove(&path) {
                            co.push(("thir", t));
                        }
                        consts.push((path.clone(), J::obj(co)));
                    }
                }
                DefKind::Fn | DefKind::AssocFn | DefKind::Closure => {
                    let mut o: Vec<(&'static str, J)> = Vec::new();
                    let (line, _) = span_json(tcx, tcx.def_span(did));
                    o.push(("kind", J::Str(format!("{:?}", kind))));
                    o.push(("line", line));
                    if matches!(kind, DefKind::Fn | DefKind::AssocFn) {
                        let vis = tcx.visibility(did);
                        o.push(("pub", J::Bool(vis.is_public())));
                        o.push(("exported", J::Bool(tcx.effective_visibilities(()).is_reachable(ldid))));
                        let sig = tcx.fn_sig(did).instantiate_identity().skip_norm_wip().skip_binder();
                        o.push((
                            "params",
                            J::Arr(sig.inputs().iter().map(|t| J::Str(ty_str(*t))).collect()),
                        ));
                        o.push(("ret", J::Str(ty_str(sig.output()))));
                        o.push(("unsafe", J::Bool(sig.safety().is_unsafe())));
                        if let Some(imp) = tcx.impl_of_assoc(did) {
                            let self_ty = tcx.type_of(imp).instantiate_identity().skip_norm_wip();
                            o.push(("impl_self", J::Str(ty_str(self_ty))));
                            if let Some(tr) = tcx.impl_opt_trait_ref(imp) {
                                let tr = tr.instantiate_identity().skip_norm_wip();
                                o.push(("impl_trait", J::Str(path_of(tcx, tr.def_id))));
                            }
                        }
                    } else {
                        o.push(("parent", J::Str(path_of(tcx, tcx.typeck_root_def_id(did)))));
                    }
                    if let Some(t) = self.thir.remove(&path) {
                        o.push(("thir", t));
                    }
                    o.push(("mir", mir_dump::dump_mir(tcx, ldid)));
                    fns.push((path, J::Obj(o.into_iter().map(|(k, v)| (k.to_string(), v)).collect())));
                }
                _ => {
                    // anon consts / inline consts / statics: keep THIR only
                    if let Some(t) = self.thir.remove(&path) {
                        fns.push((
                            path,
                            J::obj(vec![("kind", J::Str(format!("{:?}", kind))), ("thir", t)]),
                        ));
                    }
                }
            }
        }

        let sess = tcx.sess;
        let root = J::obj(vec![
            ("crate", J::Str(tcx.crate_name(rustc_hir::def_id::LOCAL_CRATE).to_string())),
            ("config", J::Str(self.config.clone())),
            ("rustc", J::Str(option_env!("CFG_VERSION").unwrap_or("nightly").to_string())),
            ("debug_assertions", J::Bool(sess.opts.debug_assertions)),
            ("overflow_checks", J::Bool(sess.overflow_checks())),
            ("target", J::Str(sess.opts.target_triple.tuple().to_string())),
            ("consts", J::Obj(consts)),
            ("adts", J::Obj(adts)),
            ("fns", J::Obj(fns)),
        ]);
        let mut s = String::new();
        root.write(&mut s);
        std::fs::write(&out, s).expect("factgen: cannot write fact file");
        Compilation::Continue
    }
}

fn main() {
    let mut args: Vec<String> = std::env::args().collect();
    // RUSTC_WORKSPACE_WRAPPER: argv[1] is the path of the real rustc.
    if args.len() > 1 && (args[1].ends_with("rustc") || args[1].contains("/rustc")) {
        args.remove(1);
    }
    let crate_name = args
        .iter()
        .position(|a| a == "--crate-name")
        .and_then(|i| args.get(i + 1))
        .cloned()
        .unwrap_or_default();
    let is_lib = args.windows(2).any(|w| w[0] == "--crate-type" && w[1].contains("lib"));
    let is_test = args.iter().any(|a| a == "--test");
    let out = std::env::var("FACTGEN_OUT").ok();
    let want = std::env::var("FACTGEN_CRATE").unwrap_or_else(|_| "rbpf".to_string());
    let active = crate_name == want && is_lib && !is_test && out.is_some();
    let mut cb = Facts {
        thir: BTreeMap::new(),
        out: if active { out } else { None },
        config: std::env::var("FACTGEN_CONFIG").unwrap_or_default(),
    };
    rustc_driver::run_compiler(&args, &mut cb);
}
