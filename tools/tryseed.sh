#!/bin/bash
# tools/tryseed.sh <tree-dir> [tier] : run every property check against a scratch tree (VERIF_REPO), in
# parallel, and print one line per property (ok / VIOLATION keys).  Evidence is not touched.
tree="$1"; tier="${2:-quick}"
cd "$(dirname "$0")/.."
export VERIF_REPO="$tree"
# warm the fact cache once (three configurations) so the parallel runs do not race on it
python3 - <<PY
import sys
sys.path.insert(0, "rules")
import facts
for cfg in ("std", "nostd", "cranelift"):
    try:
        facts.load(cfg)
    except Exception as e:
        print("facts %s: %s" % (cfg, str(e)[:300]))
PY
for i in $(seq -w 1 20); do echo C$i; done | xargs -P 10 -I{} sh -c 'out=$(timeout 1200 bin/check {} --tier '"$tier"' 2>&1); rc=$?; keys=$(echo "$out" | grep -o "key=[^ ]*" | sort -u | head -6 | tr "\n" " "); echo "{} rc=$rc $(echo "$out" | grep -E "^{}:" | sed "s/.*obligations, //") $keys"' | sort
