#!/usr/bin/env python3
"""tools/mkdesign.py: refresh the generated parts of DESIGN.md (rules table from evidence/*.json,
seeded-change matrix from seeded/*/result.json)"""
import glob, json, os, re, subprocess, sys
V = os.path.dirname(os.path.dirname(os.path.abspath(__file__)))
rows = ["| property | rule | what the rule decides | instances on today's tree (floor) |", "|---|---|---|---|"]
for f in sorted(glob.glob(os.path.join(V, "evidence", "C*.json"))):
    e = json.load(open(f))
    for r, d in sorted(e["coverage"]["rules"].items()):
        if r in ("anchor", "internal"):
            continue
        rows.append("| %s | %s | %s | %d (%s) |" % (e["property_id"], r, d["desc"].replace("|", "/"), d["instances"], d.get("floor")))
matrix = subprocess.run([sys.executable, os.path.join(V, "tools", "mkmatrix.py")], capture_output=True, text=True).stdout
p = os.path.join(V, "DESIGN.md")
s = open(p).read()
s = re.sub(r"<!-- RULES:BEGIN -->.*?<!-- RULES:END -->", lambda m: "<!-- RULES:BEGIN -->\n" + "\n".join(rows) + "\n<!-- RULES:END -->", s, flags=re.S)
if "<!-- MATRIX:BEGIN -->" in s:
    s = re.sub(r"<!-- MATRIX:BEGIN -->.*?<!-- MATRIX:END -->", lambda m: "<!-- MATRIX:BEGIN -->\n" + matrix + "<!-- MATRIX:END -->", s, flags=re.S)
else:
    s = s.replace("<!-- MATRIX -->", "<!-- MATRIX:BEGIN -->\n" + matrix + "<!-- MATRIX:END -->")
open(p, "w").write(s)
print("DESIGN.md refreshed: %d rule rows, %d matrix rows" % (len(rows) - 2, matrix.count("\n") - 2))
