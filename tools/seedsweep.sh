#!/bin/bash
# tools/seedsweep.sh [tree] : run every check under several string-hash seeds and report any check whose set of
# (key, verdict) pairs depends on the seed (an order-dependent comparison inside a rule)
cd "$(dirname "$0")/.."
[ -n "$1" ] && export VERIF_REPO="$1"
for i in $(seq -w 1 20); do echo C$i; done | xargs -P 8 -I{} sh -c '
  ref=""; bad=0
  for s in 0 1 2 3 5 8 13 21; do
    out=$(VERIF_HASHSEED=$s bin/check {} 2>&1 | grep -E "key=|^{}:" | sed "s/ (.*s, tier=.*//" | sort | md5sum)
    if [ -z "$ref" ]; then ref="$out"; elif [ "$out" != "$ref" ]; then bad=1; echo "{} differs under seed $s"; fi
  done
  [ $bad = 0 ] && echo "{} stable"'  | sort
